// Engine K harnesses for multiboot2-common/src/boxed.rs (C16).
use super::*;
use crate::test_utils::{DummyDstTag, DummyTestHeader};

fn round8(n: usize) -> usize {
    (n + 7) / 8 * 8
}

#[kani::proof]
#[kani::unwind(11)]
pub fn k_new_boxed_exp1() {
    let raw: [u8; 9] = kani::any();
    let len: usize = kani::any();
    kani::assume(len <= 9);
    let typ: u32 = kani::any();
    let tag = new_boxed::<DummyDstTag>(DummyTestHeader::new(typ, 0), &[&raw[..len]]);
    assert!(tag.header().size() as usize == 8 + len);
    assert!(mem::size_of_val(&*tag) == round8(8 + len));
}

#[kani::proof]
#[kani::unwind(11)]
pub fn k_new_boxed_exp2() {
    let raw: [u8; 9] = kani::any();
    let typ: u32 = kani::any();
    let tag = new_boxed::<DummyDstTag>(DummyTestHeader::new(typ, 0), &[&raw[..5]]);
    assert!(tag.header().size() as usize == 8 + 5);
    assert!(mem::size_of_val(&*tag) == round8(8 + 5));
}
