// Engine K harnesses for multiboot2-common/src/boxed.rs (C16: new_boxed, clone_dyn).
// Test types: test_utils::{DummyTestHeader (u32 typ, u32 size; 8 bytes, align 8),
// DummyDstTag (header + [u8])}.
use super::*;
use crate::test_utils::{AlignedBytes, DummyDstTag, DummyTestHeader};
use crate::DynSizedStructure;

fn round8(n: usize) -> usize {
    (n + 7) / 8 * 8
}
fn le32(b: &[u8], o: usize) -> u32 {
    u32::from_le_bytes([b[o], b[o + 1], b[o + 2], b[o + 3]])
}

// ---- C16 new_boxed: k = 0..=3 content slices (k symbolic), each of symbolic
// length 0..=5 with symbolic bytes (total 0..=15: every padding residue, empty
// slices anywhere), any header type value and any stale size value in the
// header passed in.  Dropping the Box at the end of the harness is checked by
// Kani's dealloc model (same layout / no double free).
#[kani::proof]
#[kani::unwind(8)]
pub fn k_new_boxed_layout() {
    let (a0, a1, a2): ([u8; 5], [u8; 5], [u8; 5]) = kani::any();
    let (l0, l1, l2, k): (usize, usize, usize, usize) = kani::any();
    kani::assume(l0 <= 5 && l1 <= 5 && l2 <= 5 && k <= 3);
    let all: [&[u8]; 3] = [&a0[..l0], &a1[..l1], &a2[..l2]];
    let typ: u32 = kani::any();
    let stale: u32 = kani::any();
    let tag = new_boxed::<DummyDstTag>(DummyTestHeader::new(typ, stale), &all[..k]);
    let n0 = if k >= 1 { l0 } else { 0 };
    let n1 = if k >= 2 { l1 } else { 0 };
    let n2 = if k >= 3 { l2 } else { 0 };
    let total = 8 + n0 + n1 + n2;
    // header: other fields kept, size patched
    assert!(tag.header().typ() == typ);
    assert!(tag.header().size() as usize == total);
    assert!(tag.payload().len() == total - 8);
    // allocation: 8-aligned, size_of_val == total rounded up to 8
    assert!(mem::size_of_val(&*tag) == round8(total));
    assert!(mem::align_of_val(&*tag) == 8);
    let ab = tag.as_bytes();
    let img: &[u8] = *ab;
    assert!(img.len() == round8(total));
    assert!(img.as_ptr() as usize % 8 == 0);
    assert!(img.as_ptr() == ptr::addr_of!(*tag).cast::<u8>());
    // bytes == header || slices without gaps
    assert!(le32(img, 0) == typ);
    assert!(le32(img, 4) as usize == total);
    let mut i = 0;
    while i < n0 {
        assert!(img[8 + i] == a0[i]);
        i += 1;
    }
    let mut i = 0;
    while i < n1 {
        assert!(img[8 + n0 + i] == a1[i]);
        i += 1;
    }
    let mut i = 0;
    while i < n2 {
        assert!(img[8 + n0 + n1 + i] == a2[i]);
        i += 1;
    }
    drop(tag);
    kani::cover!(k == 3 && l0 == 0 && l1 == 5 && l2 == 2);
    kani::cover!(k == 3 && total == 23);
    kani::cover!(k == 0);
}

// ---- C16 clone_dyn: original = typed view of a byte region with declared
// size 8..=17 (content length 0..=9: every padding residue), all 24 region
// bytes symbolic (so padding bytes carry arbitrary markers): the clone has the
// SAME declared size, the same bytes up to that size, and the rounded
// in-memory size; dropping it is checked by Kani's dealloc model.
#[kani::proof]
#[kani::unwind(20)]
pub fn k_clone_dyn_identity() {
    let bytes = AlignedBytes(kani::any::<[u8; 24]>());
    let b = &bytes.0;
    let size = le32(b, 4) as usize;
    kani::assume(size >= 8 && size <= 17);
    let orig = DynSizedStructure::<DummyTestHeader>::ref_from_slice(&b[..round8(size)])
        .unwrap()
        .cast::<DummyDstTag>();
    let clone = clone_dyn(orig);
    assert!(clone.header().size() as usize == size);
    assert!(clone.header().typ() == le32(b, 0));
    assert!(clone.payload().len() == size - 8);
    assert!(mem::size_of_val(&*clone) == round8(size));
    let ab = clone.as_bytes();
    let img: &[u8] = *ab;
    assert!(img.len() == round8(size));
    let mut i = 0;
    while i < size {
        assert!(img[i] == b[i]);
        i += 1;
    }
    assert!(*clone == *orig);
    drop(clone);
    kani::cover!(size == 13);
    kani::cover!(size == 16);
    kani::cover!(size == 8);
}

// ---- C16 clone_dyn of a constructed (boxed) tag: content length 0..=9.
#[kani::proof]
#[kani::unwind(12)]
pub fn k_clone_dyn_of_boxed() {
    let raw: [u8; 9] = kani::any();
    let len: usize = kani::any();
    kani::assume(len <= 9);
    let typ: u32 = kani::any();
    let orig = new_boxed::<DummyDstTag>(DummyTestHeader::new(typ, 0), &[&raw[..len]]);
    let clone = clone_dyn(&*orig);
    assert!(clone.header().size() as usize == 8 + len);
    assert!(clone.header().typ() == typ);
    assert!(clone.payload().len() == len);
    let mut i = 0;
    while i < len {
        assert!(clone.payload()[i] == raw[i]);
        i += 1;
    }
    assert!(mem::size_of_val(&*clone) == round8(8 + len));
    kani::cover!(len == 5);
}
