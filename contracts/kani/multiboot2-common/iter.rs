// Engine K harnesses for multiboot2-common/src/iter.rs (C03): histories of
// next()/clone() on iterators over the same buffer.  Bounded: 40-byte buffer.
use super::*;
use crate::test_utils::AlignedBytes;
use core::mem;

#[derive(Clone, Debug, PartialEq, Eq)]
#[repr(C, align(8))]
pub struct KIterHdr {
    typ: u32,
    size: u32,
}
impl Header for KIterHdr {
    fn payload_len(&self) -> usize {
        assert!(self.size as usize >= mem::size_of::<Self>());
        self.size as usize - mem::size_of::<Self>()
    }
    fn set_size(&mut self, total_size: usize) {
        self.size = total_size as u32;
    }
}

fn addr<T: ?Sized>(r: &T) -> usize {
    (r as *const T).cast::<u8>() as usize
}

// Three tags of symbolic size tiling a 40-byte buffer.  After k steps (k symbolic)
// a clone and a fresh iterator advanced k steps must continue exactly like the
// original: same items (addresses), same end, and exhausted iterators stay exhausted.
#[kani::proof]
#[kani::unwind(6)]
pub fn k_tagiter_clone_history() {
    let buf = AlignedBytes(kani::any::<[u8; 40]>());
    let b = &buf.0;
    let s0 = u32::from_le_bytes([b[4], b[5], b[6], b[7]]) as usize;
    kani::assume(s0 >= 8 && s0 <= 16);
    let o1 = (s0 + 7) / 8 * 8;
    let s1 = u32::from_le_bytes([b[o1 + 4], b[o1 + 5], b[o1 + 6], b[o1 + 7]]) as usize;
    kani::assume(s1 >= 8 && o1 + (s1 + 7) / 8 * 8 <= 32);
    let o2 = o1 + (s1 + 7) / 8 * 8;
    let s2 = u32::from_le_bytes([b[o2 + 4], b[o2 + 5], b[o2 + 6], b[o2 + 7]]) as usize;
    kani::assume(s2 >= 8 && o2 + (s2 + 7) / 8 * 8 == 40);

    let k: usize = kani::any();
    kani::assume(k <= 4);
    let mut it = TagIter::<KIterHdr>::new(&b[..]);
    let mut fresh = TagIter::<KIterHdr>::new(&b[..]);
    let mut i = 0;
    while i < k {
        let a = it.next();
        let f = fresh.next();
        assert!(a.map(addr) == f.map(addr));
        i += 1;
    }
    let mut cl = it.clone();
    // from here on: original, clone and the fresh iterator agree item by item
    let mut j = 0;
    while j < 5 {
        let a = it.next();
        let c = cl.next();
        let f = fresh.next();
        assert!(a.map(addr) == c.map(addr));
        assert!(a.map(addr) == f.map(addr));
        if k + j >= 3 {
            assert!(a.is_none()); // exactly three tags; stays exhausted
        } else {
            assert!(a.is_some());
        }
        j += 1;
    }
    kani::cover!(k == 2);
}

// ---- C03: the provided Iterator methods (nth / skip / count / last) must agree with
// repeated next(): an override added to the impl is checked against the same walk.
#[kani::proof]
#[kani::unwind(6)]
pub fn k_tagiter_provided_methods() {
    let buf = AlignedBytes(kani::any::<[u8; 40]>());
    let b = &buf.0;
    let s0 = u32::from_le_bytes([b[4], b[5], b[6], b[7]]) as usize;
    kani::assume(s0 >= 8 && s0 <= 16);
    let o1 = (s0 + 7) / 8 * 8;
    let s1 = u32::from_le_bytes([b[o1 + 4], b[o1 + 5], b[o1 + 6], b[o1 + 7]]) as usize;
    kani::assume(s1 >= 8 && o1 + (s1 + 7) / 8 * 8 <= 32);
    let o2 = o1 + (s1 + 7) / 8 * 8;
    let s2 = u32::from_le_bytes([b[o2 + 4], b[o2 + 5], b[o2 + 6], b[o2 + 7]]) as usize;
    kani::assume(s2 >= 8 && o2 + (s2 + 7) / 8 * 8 == 40);
    let base = b.as_ptr() as usize;

    let n: usize = kani::any();
    kani::assume(n <= 3);
    let got = TagIter::<KIterHdr>::new(&b[..]).nth(n).map(addr);
    let want = if n == 0 { Some(base) } else if n == 1 { Some(base + o1) } else if n == 2 { Some(base + o2) } else { None };
    assert!(got == want);
    assert!(TagIter::<KIterHdr>::new(&b[..]).skip(1).next().map(addr) == Some(base + o1));
    assert!(TagIter::<KIterHdr>::new(&b[..]).count() == 3);
    assert!(TagIter::<KIterHdr>::new(&b[..]).last().map(addr) == Some(base + o2));
    kani::cover!(s0 == 12 && n == 1);
}
