// Engine K harnesses for multiboot2-common/src/lib.rs (included as a child
// module of the crate root of the *mirror*, so private fields are visible).
use super::*;
use crate::test_utils::AlignedBytes;

/// Header type with the guarded subtraction used by the real tag headers.
#[derive(Clone, Debug, PartialEq, Eq)]
#[repr(C, align(8))]
pub struct KHdr {
    typ: u32,
    size: u32,
}
impl Header for KHdr {
    fn payload_len(&self) -> usize {
        assert!(self.size as usize >= mem::size_of::<Self>());
        self.size as usize - mem::size_of::<Self>()
    }
    fn set_size(&mut self, total_size: usize) {
        self.size = total_size as u32;
    }
}

fn round8(n: usize) -> usize {
    (n + 7) / 8 * 8
}

// ---- C14: increase_to_alignment, contract proved for all usize (loop-free => complete)
#[kani::proof_for_contract(increase_to_alignment)]
pub fn k_increase_to_alignment_contract() {
    let s: usize = kani::any();
    increase_to_alignment(s);
}
// the same contract as a plain harness (used for counterexample playback,
// which does not instrument contract attributes)
#[kani::proof]
pub fn k_increase_to_alignment() {
    let s: usize = kani::any();
    kani::assume(s <= usize::MAX - 7);
    let r = increase_to_alignment(s);
    assert!(r >= s && r % 8 == 0 && r - s < 8);
}

// ---- C14: BytesRef::try_from -- acceptance condition and error precedence.
// Loop-free; complete for every slice length 0..=40 and start misalignment 0..=7.
#[kani::proof]
pub fn k_bytesref_try_from() {
    let buf = AlignedBytes([0u8; 48]);
    let off: usize = kani::any();
    let len: usize = kani::any();
    kani::assume(off < 8 && len <= 40);
    let s = &buf.0[off..off + len];
    let r = BytesRef::<KHdr>::try_from(s);
    if len < 8 {
        assert!(r == Err(MemoryError::ShorterThanHeader));
    } else if off != 0 {
        assert!(r == Err(MemoryError::WrongAlignment));
    } else if len % 8 != 0 {
        assert!(r == Err(MemoryError::MissingPadding));
    } else {
        let b = r.unwrap();
        assert!(b.as_ptr() == s.as_ptr() && b.len() == len);
    }
    kani::cover!(len == 16 && off == 0);
}

// ---- C14: ref_from_slice on compiled code: every slice length 0..=32, start
// offset 0..=7, every header content (declared size 0..2^32), every payload byte.
#[kani::proof]
pub fn k_ref_from_slice() {
    let buf = AlignedBytes(kani::any::<[u8; 40]>());
    let off: usize = kani::any();
    let len: usize = kani::any();
    kani::assume(off < 8 && len <= 32);
    let s = &buf.0[off..off + len];
    let declared = if len >= 8 { u32::from_le_bytes([s[4], s[5], s[6], s[7]]) as usize } else { 0 };
    // partial: a declared size below the header size is a controlled panic of
    // the guarded payload_len; everything else must follow the statement.
    kani::assume(len < 8 || off != 0 || len % 8 != 0 || declared >= 8);
    let r = DynSizedStructure::<KHdr>::ref_from_slice(s);
    if len < 8 {
        assert!(r == Err(MemoryError::ShorterThanHeader));
    } else if off != 0 {
        assert!(r == Err(MemoryError::WrongAlignment));
    } else if len % 8 != 0 {
        assert!(r == Err(MemoryError::MissingPadding));
    } else if declared > len {
        assert!(r == Err(MemoryError::InvalidReportedTotalSize));
    } else {
        let d = r.unwrap();
        // starts at the slice's address
        assert!(ptr::addr_of!(*d).cast::<u8>() == s.as_ptr());
        // header and payload equal the slice's bytes
        assert!(d.header().typ == u32::from_le_bytes([s[0], s[1], s[2], s[3]]));
        assert!(d.header().size as usize == declared);
        assert!(d.payload().len() == declared - 8);
        assert!(d.payload().as_ptr() == s[8..].as_ptr());
        // in-memory size: declared rounded up to 8, never more than the slice
        assert!(mem::size_of_val(d) == round8(declared));
        assert!(mem::size_of_val(d) <= len);
    }
    kani::cover!(len == 24 && off == 0 && declared == 17);
    kani::cover!(len == 8 && off == 0 && declared == 16);
}

// ---- layout facts engine V trusts (dyn layout_size, field offsets)
#[kani::proof]
pub fn k_dyn_layout() {
    let buf = AlignedBytes(kani::any::<[u8; 40]>());
    let meta: usize = kani::any();
    kani::assume(meta <= 32);
    let p: *const DynSizedStructure<KHdr> = ptr_meta::from_raw_parts(buf.0.as_ptr().cast(), meta);
    let d = unsafe { &*p };
    assert!(mem::size_of_val(d) == round8(8 + meta));
    assert!(mem::align_of_val(d) == 8);
    assert!(ptr::addr_of!(d.header).cast::<u8>() == buf.0.as_ptr());
    assert!(d.payload.as_ptr() == unsafe { buf.0.as_ptr().add(8) });
    assert!(d.payload.len() == meta);
    assert!(d.header() as *const KHdr == ptr::addr_of!(d.header));
    assert!(d.payload().as_ptr() == d.payload.as_ptr() && d.payload().len() == meta);
}

// ---- vacuity guard (engine K): this harness MUST fail
#[kani::proof]
pub fn k_canary_must_fail() {
    let s: usize = kani::any();
    kani::assume(s <= usize::MAX - 7);
    assert!(increase_to_alignment(s) == s + 8);
}
