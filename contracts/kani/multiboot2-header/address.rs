// Engine K harnesses for multiboot2-header/src/address.rs (C11 decode, C07 constructor).
// Spec 3.1.5 "The address tag of Multiboot2 header": u16 type = 2, u16 flags,
// u32 size = 24, u32 header_addr @8, load_addr @12, load_end_addr @16, bss_end_addr @20.
// Loop-free over fixed-size symbolic data => complete proofs.
use super::*;
use multiboot2_common::test_utils::AlignedBytes;
use multiboot2_common::DynSizedStructure;

fn le32(b: &[u8], o: usize) -> u32 {
    u32::from_le_bytes([b[o], b[o + 1], b[o + 2], b[o + 3]])
}
fn le16(b: &[u8], o: usize) -> u16 {
    u16::from_le_bytes([b[o], b[o + 1]])
}
fn any_flag() -> (HeaderTagFlag, u16) {
    if kani::any() {
        (HeaderTagFlag::Required, 0)
    } else {
        (HeaderTagFlag::Optional, 1)
    }
}
/// a tag placed behind a 4-byte field inside an 8-aligned structure
#[repr(C, align(8))]
struct KPlaced<T> {
    pad: u32,
    tag: T,
}
/// independent encoder: the spec image of an address tag
fn spec_image(fnum: u16, header_addr: u32, load_addr: u32, load_end_addr: u32, bss_end_addr: u32) -> [u8; 24] {
    let mut exp = [0u8; 24];
    exp[0..2].copy_from_slice(&2u16.to_le_bytes());
    exp[2..4].copy_from_slice(&fnum.to_le_bytes());
    exp[4..8].copy_from_slice(&24u32.to_le_bytes());
    exp[8..12].copy_from_slice(&header_addr.to_le_bytes());
    exp[12..16].copy_from_slice(&load_addr.to_le_bytes());
    exp[16..20].copy_from_slice(&load_end_addr.to_le_bytes());
    exp[20..24].copy_from_slice(&bss_end_addr.to_le_bytes());
    exp
}

#[kani::proof]
pub fn k_address_decode() {
    let bytes = AlignedBytes(kani::any::<[u8; 24]>());
    let b = &bytes.0;
    kani::assume(le16(b, 0) == 2);
    kani::assume(le16(b, 2) <= 1);
    kani::assume(le32(b, 4) == 24);
    let generic = DynSizedStructure::<HeaderTagHeader>::ref_from_slice(&b[..]).unwrap();
    let tag = generic.cast::<AddressHeaderTag>();
    assert!(core::ptr::addr_of!(*tag).cast::<u8>() == b.as_ptr());
    assert!(core::mem::size_of_val(tag) == 24);
    assert!(tag.typ() as u16 == 2 && tag.typ() == HeaderTagType::Address);
    assert!(tag.flags() as u16 == le16(b, 2));
    assert!(tag.size() == 24);
    assert!(tag.header_addr() == le32(b, 8));
    assert!(tag.load_addr() == le32(b, 12));
    assert!(tag.load_end_addr() == le32(b, 16));
    assert!(tag.bss_end_addr() == le32(b, 20));
    kani::cover!(le16(b, 2) == 1 && tag.load_addr() == 0x0010_0000);
}

#[kani::proof]
pub fn k_address_new() {
    let (flags, fnum) = any_flag();
    let header_addr: u32 = kani::any();
    let load_addr: u32 = kani::any();
    let load_end_addr: u32 = kani::any();
    let bss_end_addr: u32 = kani::any();
    let tag = AddressHeaderTag::new(flags, header_addr, load_addr, load_end_addr, bss_end_addr);
    // header: literal spec numbers
    assert!(tag.typ() as u16 == 2);
    assert!(AddressHeaderTag::ID as u16 == 2 && tag.typ() == AddressHeaderTag::ID);
    assert!(tag.flags() == flags && tag.flags() as u16 == fnum);
    assert!(tag.size() == 24);
    assert!(tag.header().size() == 24 && tag.header().typ() as u16 == 2);
    // accessors read back
    assert!(tag.header_addr() == header_addr);
    assert!(tag.load_addr() == load_addr);
    assert!(tag.load_end_addr() == load_end_addr);
    assert!(tag.bss_end_addr() == bss_end_addr);
    // spec image
    let br = tag.as_bytes();
    let bytes: &[u8] = &br;
    assert!(bytes.len() == 24);
    assert!(bytes.as_ptr() == core::ptr::addr_of!(tag).cast::<u8>());
    let exp = spec_image(fnum, header_addr, load_addr, load_end_addr, bss_end_addr);
    assert!(bytes[..24] == exp[..]);
}

// C07 "the tag's byte view is obtainable wherever the tag is placed"
#[kani::proof]
pub fn k_address_placement() {
    assert!(core::mem::align_of::<AddressHeaderTag>() == 8);
    assert!(core::mem::size_of::<AddressHeaderTag>() == 24);
    assert!(AddressHeaderTag::BASE_SIZE == 24);
    let (flags, fnum) = any_flag();
    let (a, b, c, d): (u32, u32, u32, u32) = (kani::any(), kani::any(), kani::any(), kani::any());
    let t = AddressHeaderTag::new(flags, a, b, c, d);
    let exp = spec_image(fnum, a, b, c, d);
    let arr = [t, t];
    let b1 = arr[1].as_bytes();
    assert!(b1.len() == 24 && b1.as_ptr() == core::ptr::addr_of!(arr[1]).cast::<u8>());
    assert!(b1[..24] == exp[..]);
    let placed = KPlaced { pad: 0, tag: t };
    let b2 = placed.tag.as_bytes();
    assert!(b2.len() == 24 && b2.as_ptr() == core::ptr::addr_of!(placed.tag).cast::<u8>());
    assert!(b2[..24] == exp[..]);
}
