// Engine K harnesses for multiboot2-header/src/builder.rs (C12).
// One CONCRETE subset of builder calls per harness, SYMBOLIC field values (all
// u32 fields, information requests), both architectures.  Tool limit: the
// ENUMERATED fields (tag flags Required/Optional, console flags, relocation
// preference) are CONCRETE here -- a symbolic enum value makes the same harness
// > 170 s in CBMC (measured: module_align only, 10 s concrete flag vs 134 s /
// timeout symbolic flag; console / relocatable time out with a symbolic enum
// field and take ~20 s with a concrete one); all enum values are covered by the
// per-tag constructor harnesses.  Oracle (spec 3.1.1-3.1.3): u32 magic 0xE85250D6 @0, u32
// architecture @4, u32 header_length @8 (= byte length), u32 checksum @12 with
// the four words summing to 0 mod 2^32; tags from offset 16, each at the next
// 8-aligned offset, "terminated by a tag of type 0 and size 8".
//
// For every subset there are two harnesses:
//   k_builder_<subset>          everything except the terminator (8-aligned,
//                               loads, magic/arch/length/checksum, the supplied
//                               tags byte-identical at the spec-walk offsets, in
//                               builder order)
//   k_builder_<subset>_end_tag  the supplied tags are FOLLOWED BY an end tag
//                               (type 0, flags 0, size 8) as the final 8 bytes
//                               (for the empty subset also through the real iter()).
// Uses alloc (Vec/Box): loops in new_boxed are bounded by the number of tags;
// #[kani::unwind] values are chosen per harness and are exact for the subset.
use super::*;
use crate::{
    ConsoleHeaderTagFlags, HeaderTagFlag, MbiTagTypeId, Multiboot2Header,
    RelocatableHeaderTagPreference,
};

fn le32(b: &[u8], o: usize) -> u32 {
    u32::from_le_bytes([b[o], b[o + 1], b[o + 2], b[o + 3]])
}
fn le16(b: &[u8], o: usize) -> u16 {
    u16::from_le_bytes([b[o], b[o + 1]])
}
fn any_arch() -> (HeaderTagISA, u32) {
    if kani::any() {
        (HeaderTagISA::I386, 0)
    } else {
        (HeaderTagISA::MIPS32, 4)
    }
}
/// the fixed part: 8-aligned, loadable, magic / architecture / length / checksum.
/// `tags_len` = sum of the supplied tags' sizes rounded up to 8.
fn check_fixed_part(bytes: &[u8], anum: u32, tags_len: usize) {
    assert!(bytes.as_ptr().align_offset(8) == 0);
    assert!(bytes.len() % 8 == 0);
    assert!(bytes.len() >= 16 + tags_len);
    assert!(le32(bytes, 0) == 0xE852_50D6);
    assert!(le32(bytes, 4) == anum);
    assert!(le32(bytes, 8) as usize == bytes.len());
    assert!(
        le32(bytes, 0)
            .wrapping_add(le32(bytes, 4))
            .wrapping_add(le32(bytes, 8))
            .wrapping_add(le32(bytes, 12))
            == 0
    );
    match unsafe { Multiboot2Header::load(bytes.as_ptr().cast()) } {
        Ok(h) => {
            assert!(h.header_magic() == 0xE852_50D6);
            assert!(h.arch() as u32 == anum);
            assert!(h.length() as usize == bytes.len());
            assert!(h.verify_checksum());
        }
        Err(_) => assert!(false),
    }
}
/// a supplied tag (its own byte view `img`, spec number `typ`, spec size `size`)
/// sits byte-identical at `off`; returns the offset of the next tag.
fn check_tag_at(bytes: &[u8], off: usize, img: &[u8], typ: u16, size: usize) -> usize {
    assert!(off % 8 == 0 && off + size <= bytes.len());
    assert!(le16(bytes, off) == typ);
    assert!(le32(bytes, off + 4) as usize == size);
    let mut k = 0;
    while k < size {
        assert!(bytes[off + k] == img[k]);
        k += 1;
    }
    off + (size + 7) / 8 * 8
}
/// the terminator: end tag (type 0, flags 0, size 8) at `off` = the final 8 bytes
fn check_end_tag(bytes: &[u8], off: usize) {
    assert!(bytes.len() == off + 8);
    assert!(le16(bytes, off) == 0);
    assert!(le16(bytes, off + 2) == 0);
    assert!(le32(bytes, off + 4) == 8);
}
/// number of tags the real iterator yields (at most 6 looked at)
fn iter_count(bytes: &[u8]) -> usize {
    let h = unsafe { Multiboot2Header::load(bytes.as_ptr().cast()) }.unwrap();
    let mut it = h.iter();
    let mut n = 0;
    while n < 6 {
        if it.next().is_none() {
            break;
        }
        n += 1;
    }
    n
}

// ------------------------------------------------------------------ subset: none
#[kani::proof]
#[kani::unwind(4)]
pub fn k_builder_none() {
    let (arch, anum) = any_arch();
    let built = Builder::new(arch).build();
    let br = built.as_bytes();
    let bytes: &[u8] = &br;
    check_fixed_part(bytes, anum, 0);
}
// FAILS on the current tree: build() pushes no terminator (length 16, no tag).
#[kani::proof]
#[kani::unwind(4)]
pub fn k_builder_none_end_tag() {
    let (arch, _) = any_arch();
    let built = Builder::new(arch).build();
    let br = built.as_bytes();
    let bytes: &[u8] = &br;
    check_end_tag(bytes, 16);
    assert!(iter_count(bytes) == 1);
}

// ------------------------------------------------------------------ single setters
#[kani::proof]
#[kani::unwind(26)]
pub fn k_builder_address() {
    let (arch, anum) = any_arch();
    let tag = AddressHeaderTag::new(HeaderTagFlag::Optional, kani::any(), kani::any(), kani::any(), kani::any());
    let img = tag.as_bytes();
    let built = Builder::new(arch).address_tag(tag).build();
    let br = built.as_bytes();
    let bytes: &[u8] = &br;
    check_fixed_part(bytes, anum, 24);
    let off = check_tag_at(bytes, 16, &img, 2, 24);
    assert!(off == 40);
}
#[kani::proof]
#[kani::unwind(26)]
pub fn k_builder_address_end_tag() {
    let (arch, _) = any_arch();
    let tag = AddressHeaderTag::new(HeaderTagFlag::Required, kani::any(), kani::any(), kani::any(), kani::any());
    let built = Builder::new(arch).address_tag(tag).build();
    let br = built.as_bytes();
    let bytes: &[u8] = &br;
    check_end_tag(bytes, 40);
}
#[kani::proof]
#[kani::unwind(14)]
pub fn k_builder_entry() {
    let (arch, anum) = any_arch();
    let tag = EntryAddressHeaderTag::new(HeaderTagFlag::Optional, kani::any());
    let img = tag.as_bytes();
    let built = Builder::new(arch).entry_tag(tag).build();
    let br = built.as_bytes();
    let bytes: &[u8] = &br;
    check_fixed_part(bytes, anum, 16);
    let off = check_tag_at(bytes, 16, &img, 3, 12);
    assert!(off == 32);
}
#[kani::proof]
#[kani::unwind(14)]
pub fn k_builder_console() {
    let (arch, anum) = any_arch();
    let tag = ConsoleHeaderTag::new(HeaderTagFlag::Required, ConsoleHeaderTagFlags::EgaTextSupported);
    let img = tag.as_bytes();
    let built = Builder::new(arch).console_tag(tag).build();
    let br = built.as_bytes();
    let bytes: &[u8] = &br;
    check_fixed_part(bytes, anum, 16);
    let off = check_tag_at(bytes, 16, &img, 4, 12);
    assert!(off == 32);
}
#[kani::proof]
#[kani::unwind(22)]
pub fn k_builder_framebuffer() {
    let (arch, anum) = any_arch();
    let tag = FramebufferHeaderTag::new(HeaderTagFlag::Optional, kani::any(), kani::any(), kani::any());
    let img = tag.as_bytes();
    let built = Builder::new(arch).framebuffer_tag(tag).build();
    let br = built.as_bytes();
    let bytes: &[u8] = &br;
    check_fixed_part(bytes, anum, 24);
    let off = check_tag_at(bytes, 16, &img, 5, 20);
    assert!(off == 40);
}
#[kani::proof]
#[kani::unwind(10)]
pub fn k_builder_module_align() {
    let (arch, anum) = any_arch();
    let tag = ModuleAlignHeaderTag::new(HeaderTagFlag::Required);
    let img = tag.as_bytes();
    let built = Builder::new(arch).module_align_tag(tag).build();
    let br = built.as_bytes();
    let bytes: &[u8] = &br;
    check_fixed_part(bytes, anum, 8);
    let off = check_tag_at(bytes, 16, &img, 6, 8);
    assert!(off == 24);
}
#[kani::proof]
#[kani::unwind(10)]
pub fn k_builder_efi_bs() {
    let (arch, anum) = any_arch();
    let tag = EfiBootServiceHeaderTag::new(HeaderTagFlag::Optional);
    let img = tag.as_bytes();
    let built = Builder::new(arch).efi_bs_tag(tag).build();
    let br = built.as_bytes();
    let bytes: &[u8] = &br;
    check_fixed_part(bytes, anum, 8);
    let off = check_tag_at(bytes, 16, &img, 7, 8);
    assert!(off == 24);
}
#[kani::proof]
#[kani::unwind(14)]
pub fn k_builder_efi32() {
    let (arch, anum) = any_arch();
    let tag = EntryEfi32HeaderTag::new(HeaderTagFlag::Required, kani::any());
    let img = tag.as_bytes();
    let built = Builder::new(arch).efi_32_tag(tag).build();
    let br = built.as_bytes();
    let bytes: &[u8] = &br;
    check_fixed_part(bytes, anum, 16);
    let off = check_tag_at(bytes, 16, &img, 8, 12);
    assert!(off == 32);
}
#[kani::proof]
#[kani::unwind(14)]
pub fn k_builder_efi64() {
    let (arch, anum) = any_arch();
    let tag = EntryEfi64HeaderTag::new(HeaderTagFlag::Optional, kani::any());
    let img = tag.as_bytes();
    let built = Builder::new(arch).efi_64_tag(tag).build();
    let br = built.as_bytes();
    let bytes: &[u8] = &br;
    check_fixed_part(bytes, anum, 16);
    let off = check_tag_at(bytes, 16, &img, 9, 12);
    assert!(off == 32);
}
#[kani::proof]
#[kani::unwind(26)]
pub fn k_builder_relocatable() {
    let (arch, anum) = any_arch();
    let tag = RelocatableHeaderTag::new(HeaderTagFlag::Required, kani::any(), kani::any(), kani::any(), RelocatableHeaderTagPreference::High);
    let img = tag.as_bytes();
    let built = Builder::new(arch).relocatable_tag(tag).build();
    let br = built.as_bytes();
    let bytes: &[u8] = &br;
    check_fixed_part(bytes, anum, 24);
    let off = check_tag_at(bytes, 16, &img, 10, 24);
    assert!(off == 40);
}
// information request with two symbolic requests (size 16)
#[kani::proof]
#[kani::unwind(18)]
pub fn k_builder_inforeq() {
    let (arch, anum) = any_arch();
    let reqs = [MbiTagTypeId::new(kani::any()), MbiTagTypeId::new(kani::any())];
    let tag = InformationRequestHeaderTag::new(HeaderTagFlag::Optional, &reqs);
    let mut img = [0u8; 16];
    img.copy_from_slice(&tag.as_bytes()[..16]);
    let built = Builder::new(arch).information_request_tag(tag).build();
    let br = built.as_bytes();
    let bytes: &[u8] = &br;
    check_fixed_part(bytes, anum, 16);
    let off = check_tag_at(bytes, 16, &img, 1, 16);
    assert!(off == 32);
    assert!(le32(bytes, 24) == u32::from(reqs[0]) && le32(bytes, 28) == u32::from(reqs[1]));
}

// ------------------------------------------------------------------ combinations
// entry + console + module_align, called in a different order than the layout
// order (the builder emits slots in its fixed order: entry, console, module_align)
#[kani::proof]
#[kani::unwind(14)]
pub fn k_builder_entry_console_modalign() {
    let (arch, anum) = any_arch();
    let t_entry = EntryAddressHeaderTag::new(HeaderTagFlag::Required, kani::any());
    let t_console = ConsoleHeaderTag::new(HeaderTagFlag::Optional, ConsoleHeaderTagFlags::EgaTextSupported);
    let t_mod = ModuleAlignHeaderTag::new(HeaderTagFlag::Required);
    let (i_entry, i_console, i_mod) = (t_entry.as_bytes(), t_console.as_bytes(), t_mod.as_bytes());
    let built = Builder::new(arch)
        .module_align_tag(t_mod)
        .console_tag(t_console)
        .entry_tag(t_entry)
        .build();
    let br = built.as_bytes();
    let bytes: &[u8] = &br;
    check_fixed_part(bytes, anum, 16 + 16 + 8);
    let off = check_tag_at(bytes, 16, &i_entry, 3, 12);
    let off = check_tag_at(bytes, off, &i_console, 4, 12);
    let off = check_tag_at(bytes, off, &i_mod, 6, 8);
    assert!(off == 56);
}
#[kani::proof]
#[kani::unwind(14)]
pub fn k_builder_entry_console_modalign_end_tag() {
    let (arch, _) = any_arch();
    let built = Builder::new(arch)
        .module_align_tag(ModuleAlignHeaderTag::new(HeaderTagFlag::Optional))
        .console_tag(ConsoleHeaderTag::new(HeaderTagFlag::Required, ConsoleHeaderTagFlags::EgaTextSupported))
        .entry_tag(EntryAddressHeaderTag::new(HeaderTagFlag::Optional, kani::any()))
        .build();
    let br = built.as_bytes();
    let bytes: &[u8] = &br;
    check_end_tag(bytes, 56);
}
// address + efi64, with a repeated call (the last address tag wins)
#[kani::proof]
#[kani::unwind(26)]
pub fn k_builder_address_twice_efi64() {
    let (arch, anum) = any_arch();
    let t_old = AddressHeaderTag::new(HeaderTagFlag::Required, kani::any(), kani::any(), kani::any(), kani::any());
    let t_addr = AddressHeaderTag::new(HeaderTagFlag::Optional, kani::any(), kani::any(), kani::any(), kani::any());
    let t_efi = EntryEfi64HeaderTag::new(HeaderTagFlag::Required, kani::any());
    let (i_addr, i_efi) = (t_addr.as_bytes(), t_efi.as_bytes());
    let built = Builder::new(arch)
        .address_tag(t_old)
        .efi_64_tag(t_efi)
        .address_tag(t_addr)
        .build();
    let br = built.as_bytes();
    let bytes: &[u8] = &br;
    check_fixed_part(bytes, anum, 24 + 16);
    let off = check_tag_at(bytes, 16, &i_addr, 2, 24);
    let off = check_tag_at(bytes, off, &i_efi, 9, 12);
    assert!(off == 56);
}

// information request with an ODD number of requests (size 12, padded to 16) followed by
// another tag: every tag and the end tag must still start at a multiple of 8 and the header
// must load (padding residue 4)
#[kani::proof]
#[kani::unwind(18)]
pub fn k_builder_inforeq_odd_then_entry() {
    let (arch, anum) = any_arch();
    let reqs = [MbiTagTypeId::new(kani::any())];
    let tag = InformationRequestHeaderTag::new(HeaderTagFlag::Required, &reqs);
    let mut img = [0u8; 12];
    img.copy_from_slice(&tag.as_bytes()[..12]);
    let entry = EntryAddressHeaderTag::new(HeaderTagFlag::Required, kani::any());
    let mut eimg = [0u8; 12];
    eimg.copy_from_slice(&entry.as_bytes()[..12]);
    let built = Builder::new(arch).information_request_tag(tag).entry_tag(entry).build();
    let br = built.as_bytes();
    let bytes: &[u8] = &br;
    check_fixed_part(bytes, anum, 32);
    let off = check_tag_at(bytes, 16, &img, 1, 12);
    assert!(off == 32);
    let off = check_tag_at(bytes, off, &eimg, 3, 12);
    assert!(off == 48);
    check_end_tag(bytes, off);
    assert!(iter_count(bytes) == 3);
}

// repeated call on the information-request slot: the LAST call wins (C12: any order / repeated calls)
#[kani::proof]
#[kani::unwind(18)]
pub fn k_builder_inforeq_twice() {
    let (arch, anum) = any_arch();
    let first = InformationRequestHeaderTag::new(HeaderTagFlag::Optional, &[MbiTagTypeId::new(kani::any()), MbiTagTypeId::new(kani::any())]);
    let r: u32 = kani::any();
    let second = InformationRequestHeaderTag::new(HeaderTagFlag::Required, &[MbiTagTypeId::new(r), MbiTagTypeId::new(7)]);
    let built = Builder::new(arch).information_request_tag(first).information_request_tag(second).build();
    let br = built.as_bytes();
    let bytes: &[u8] = &br;
    check_fixed_part(bytes, anum, 16);
    assert!(le16(bytes, 16) == 1 && le16(bytes, 18) == 0 && le32(bytes, 20) == 16);
    assert!(le32(bytes, 24) == r && le32(bytes, 28) == 7);
    check_end_tag(bytes, 32);
}
