// Engine K harnesses for multiboot2-header/src/console.rs (C11 decode, C07 constructor).
// Spec 3.1.9 "Flags tag": u16 type = 4, u16 flags, u32 size = 12, u32 console_flags @8 (here: enumerated, 0 = console required, 1 = EGA text supported).
// Loop-free over fixed-size symbolic data => complete proofs.
use super::*;
use multiboot2_common::test_utils::AlignedBytes;
use multiboot2_common::DynSizedStructure;

fn le32(b: &[u8], o: usize) -> u32 {
    u32::from_le_bytes([b[o], b[o + 1], b[o + 2], b[o + 3]])
}
fn le16(b: &[u8], o: usize) -> u16 {
    u16::from_le_bytes([b[o], b[o + 1]])
}
fn any_flag() -> (HeaderTagFlag, u16) {
    if kani::any() {
        (HeaderTagFlag::Required, 0)
    } else {
        (HeaderTagFlag::Optional, 1)
    }
}
/// spec table number -> variant, symbolic choice
fn any_console_flags() -> (ConsoleHeaderTagFlags, u32) {
    let n: u32 = kani::any();
    kani::assume(n <= 1);
    (spec_console_flags(n), n)
}
fn spec_console_flags(n: u32) -> ConsoleHeaderTagFlags {
    match n {
        0 => ConsoleHeaderTagFlags::ConsoleRequired,
        _ => ConsoleHeaderTagFlags::EgaTextSupported,
    }
}
/// a tag placed behind a 4-byte field inside an 8-aligned structure
#[repr(C, align(8))]
struct KPlaced<T> {
    pad: u32,
    tag: T,
}
/// independent encoder: the spec image of the tag (up to its size 12)
fn spec_image(fnum: u16, console_flags: u32) -> [u8; 12] {
    let mut exp = [0u8; 12];
    exp[0..2].copy_from_slice(&4u16.to_le_bytes());
    exp[2..4].copy_from_slice(&fnum.to_le_bytes());
    exp[4..8].copy_from_slice(&12u32.to_le_bytes());
    exp[8..12].copy_from_slice(&console_flags.to_le_bytes());
    exp
}

#[kani::proof]
pub fn k_console_decode() {
    // the flags word is a 32-bit field: a wider enum representation would read past the 12-byte tag
    assert!(core::mem::size_of::<ConsoleHeaderTagFlags>() == 4);
    let bytes = AlignedBytes(kani::any::<[u8; 16]>());
    let b = &bytes.0;
    kani::assume(le16(b, 0) == 4);
    kani::assume(le16(b, 2) <= 1);
    kani::assume(le32(b, 4) == 12);
    kani::assume(le32(b, 8) <= 1); // enumerated field holds a defined value
    let generic = DynSizedStructure::<HeaderTagHeader>::ref_from_slice(&b[..]).unwrap();
    let tag = generic.cast::<ConsoleHeaderTag>();
    assert!(core::ptr::addr_of!(*tag).cast::<u8>() == b.as_ptr());
    assert!(core::mem::size_of_val(tag) == 16);
    assert!(tag.typ() as u16 == 4 && tag.typ() == HeaderTagType::ConsoleFlags);
    assert!(tag.flags() as u16 == le16(b, 2));
    assert!(tag.size() == 12);
    assert!(tag.header().size() == 12 && tag.header().typ() as u16 == 4);
    assert!(tag.console_flags() as u32 == le32(b, 8));
    assert!(tag.console_flags() == spec_console_flags(le32(b, 8)));
    kani::cover!(le16(b, 2) == 1 && le32(b, 8) == 1);
}

#[kani::proof]
pub fn k_console_new() {
    let (flags, fnum) = any_flag();
    let (console_flags, console_flags_num) = any_console_flags();
    let tag = ConsoleHeaderTag::new(flags, console_flags);
    let exp = spec_image(fnum, console_flags_num);
    // header: literal spec numbers
    assert!(tag.typ() as u16 == 4);
    assert!(ConsoleHeaderTag::ID as u16 == 4 && tag.typ() == ConsoleHeaderTag::ID);
    assert!(tag.flags() == flags && tag.flags() as u16 == fnum);
    assert!(tag.size() == 12);
    assert!(tag.header().size() == 12 && tag.header().typ() as u16 == 4);
    // accessors read back
    assert!(tag.console_flags() == console_flags && tag.console_flags() as u32 == console_flags_num);
    // spec image
    let br = tag.as_bytes();
    let bytes: &[u8] = &br;
    assert!(bytes.len() == 16);
    assert!(bytes.as_ptr() == core::ptr::addr_of!(tag).cast::<u8>());
    assert!(bytes[..12] == exp[..]);
}

// C07 "the tag's byte view is obtainable wherever the tag is placed"
#[kani::proof]
pub fn k_console_placement() {
    assert!(core::mem::align_of::<ConsoleHeaderTag>() == 8);
    assert!(core::mem::size_of::<ConsoleHeaderTag>() == 16);
    assert!(ConsoleHeaderTag::BASE_SIZE == 12);
    let (flags, fnum) = any_flag();
    let (console_flags, console_flags_num) = any_console_flags();
    let tag = ConsoleHeaderTag::new(flags, console_flags);
    let exp = spec_image(fnum, console_flags_num);
    let arr = [tag, tag];
    let b1 = arr[1].as_bytes();
    assert!(b1.len() == 16 && b1.as_ptr() == core::ptr::addr_of!(arr[1]).cast::<u8>());
    assert!(b1[..12] == exp[..]);
    let placed = KPlaced { pad: 0, tag };
    let b2 = placed.tag.as_bytes();
    assert!(b2.len() == 16 && b2.as_ptr() == core::ptr::addr_of!(placed.tag).cast::<u8>());
    assert!(b2[..12] == exp[..]);
}
