// Engine K harnesses for multiboot2-header/src/end.rs (C11 decode, C07 constructor).
// Spec 3.1.3 "tags are terminated by a tag of type 0 and size 8" (flags 0): u16 type = 0, u16 flags = 0, u32 size = 8.
// Loop-free over fixed-size symbolic data => complete proofs.
use super::*;
use multiboot2_common::test_utils::AlignedBytes;
use multiboot2_common::DynSizedStructure;

fn le32(b: &[u8], o: usize) -> u32 {
    u32::from_le_bytes([b[o], b[o + 1], b[o + 2], b[o + 3]])
}
fn le16(b: &[u8], o: usize) -> u16 {
    u16::from_le_bytes([b[o], b[o + 1]])
}
/// a tag placed behind a 4-byte field inside an 8-aligned structure
#[repr(C, align(8))]
struct KPlaced<T> {
    pad: u32,
    tag: T,
}
/// independent encoder: the spec image of the tag (up to its size 8)
fn spec_image() -> [u8; 8] {
    let mut exp = [0u8; 8];
    exp[0..2].copy_from_slice(&0u16.to_le_bytes());
    exp[2..4].copy_from_slice(&0u16.to_le_bytes());
    exp[4..8].copy_from_slice(&8u32.to_le_bytes());
    exp
}

#[kani::proof]
pub fn k_end_decode() {
    let bytes = AlignedBytes(kani::any::<[u8; 8]>());
    let b = &bytes.0;
    kani::assume(le16(b, 0) == 0);
    kani::assume(le16(b, 2) <= 1);
    kani::assume(le32(b, 4) == 8);
    let generic = DynSizedStructure::<HeaderTagHeader>::ref_from_slice(&b[..]).unwrap();
    let tag = generic.cast::<EndHeaderTag>();
    assert!(core::ptr::addr_of!(*tag).cast::<u8>() == b.as_ptr());
    assert!(core::mem::size_of_val(tag) == 8);
    assert!(tag.typ() as u16 == 0 && tag.typ() == HeaderTagType::End);
    assert!(tag.flags() as u16 == le16(b, 2));
    assert!(tag.size() == 8);
    assert!(tag.header().size() == 8 && tag.header().typ() as u16 == 0);
    kani::cover!(le16(b, 2) == 1);
}

// C07: the constructor's type number must be the spec's 0 (and the declared ID).
// FAILS on the current tree: `new()` writes HeaderTagType::EntryAddress (3).
#[kani::proof]
pub fn k_end_new_type() {
    let tag = EndHeaderTag::new();
    assert!(EndHeaderTag::ID as u16 == 0);
    assert!(tag.typ() as u16 == 0);
}
#[kani::proof]
pub fn k_end_default_type() {
    let tag = EndHeaderTag::default();
    assert!(tag.typ() == EndHeaderTag::ID);
}
#[kani::proof]
pub fn k_end_new_image() {
    let tag = EndHeaderTag::new();
    let br = tag.as_bytes();
    let bytes: &[u8] = &br;
    assert!(bytes.len() == 8);
    assert!(bytes[..8] == spec_image()[..]);
}

// C07: everything but the type number (flags 0, size 8, bytes 2..8 of the image)
#[kani::proof]
pub fn k_end_new_flags_size() {
    let tag = EndHeaderTag::new();
    assert!(EndHeaderTag::ID as u16 == 0);
    assert!(tag.flags() as u16 == 0 && tag.flags() == HeaderTagFlag::Required);
    assert!(tag.size() == 8);
    assert!(tag.header().size() == 8);
    assert!(core::mem::size_of::<EndHeaderTag>() == 8);
    assert!(EndHeaderTag::BASE_SIZE == 8);
    let d = EndHeaderTag::default();
    assert!(d == tag);
    let br = tag.as_bytes();
    let bytes: &[u8] = &br;
    assert!(bytes.len() == 8);
    assert!(bytes.as_ptr() == core::ptr::addr_of!(tag).cast::<u8>());
    assert!(bytes[2..8] == spec_image()[2..8]);
}

// C07 "the tag's byte view is obtainable wherever the tag is placed":
// every tag must be 8-aligned (spec 3.1.3: "Tags are ... 8-bytes aligned").
// FAILS on the current tree: EndHeaderTag is #[repr(C)] without align(8) => align 4.
#[kani::proof]
pub fn k_end_align() {
    assert!(core::mem::align_of::<EndHeaderTag>() == 8);
}
// passes: element 1 of an array in an object whose base the verifier places 8-aligned
#[kani::proof]
pub fn k_end_placement_array() {
    let tag = EndHeaderTag::new();
    let arr = [tag, tag];
    let b1 = arr[1].as_bytes();
    assert!(b1.len() == 8 && b1.as_ptr() == core::ptr::addr_of!(arr[1]).cast::<u8>());
}
// FAILS on the current tree: a legally placed EndHeaderTag (offset 4 of an
// 8-aligned struct) makes as_bytes() panic (unwrap of Err(WrongAlignment)).
#[kani::proof]
pub fn k_end_placement() {
    let tag = EndHeaderTag::new();
    let placed = KPlaced { pad: 0, tag };
    let b2 = placed.tag.as_bytes();
    assert!(b2.len() == 8 && b2.as_ptr() == core::ptr::addr_of!(placed.tag).cast::<u8>());
}
