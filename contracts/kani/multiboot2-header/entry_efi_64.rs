// Engine K harnesses for multiboot2-header/src/entry_efi_64.rs (C11 decode, C07 constructor).
// Spec 3.1.8 "EFI amd64 entry address tag of Multiboot2 header": u16 type = 9, u16 flags, u32 size = 12, u32 entry_addr @8.
// Loop-free over fixed-size symbolic data => complete proofs.
use super::*;
use multiboot2_common::test_utils::AlignedBytes;
use multiboot2_common::DynSizedStructure;

fn le32(b: &[u8], o: usize) -> u32 {
    u32::from_le_bytes([b[o], b[o + 1], b[o + 2], b[o + 3]])
}
fn le16(b: &[u8], o: usize) -> u16 {
    u16::from_le_bytes([b[o], b[o + 1]])
}
fn any_flag() -> (HeaderTagFlag, u16) {
    if kani::any() {
        (HeaderTagFlag::Required, 0)
    } else {
        (HeaderTagFlag::Optional, 1)
    }
}
/// a tag placed behind a 4-byte field inside an 8-aligned structure
#[repr(C, align(8))]
struct KPlaced<T> {
    pad: u32,
    tag: T,
}
/// independent encoder: the spec image of the tag (up to its size 12)
fn spec_image(fnum: u16, entry_addr: u32) -> [u8; 12] {
    let mut exp = [0u8; 12];
    exp[0..2].copy_from_slice(&9u16.to_le_bytes());
    exp[2..4].copy_from_slice(&fnum.to_le_bytes());
    exp[4..8].copy_from_slice(&12u32.to_le_bytes());
    exp[8..12].copy_from_slice(&entry_addr.to_le_bytes());
    exp
}

#[kani::proof]
pub fn k_entry_efi64_decode() {
    let bytes = AlignedBytes(kani::any::<[u8; 16]>());
    let b = &bytes.0;
    kani::assume(le16(b, 0) == 9);
    kani::assume(le16(b, 2) <= 1);
    kani::assume(le32(b, 4) == 12);
    let generic = DynSizedStructure::<HeaderTagHeader>::ref_from_slice(&b[..]).unwrap();
    let tag = generic.cast::<EntryEfi64HeaderTag>();
    assert!(core::ptr::addr_of!(*tag).cast::<u8>() == b.as_ptr());
    assert!(core::mem::size_of_val(tag) == 16);
    assert!(tag.typ() as u16 == 9 && tag.typ() == HeaderTagType::EntryAddressEFI64);
    assert!(tag.flags() as u16 == le16(b, 2));
    assert!(tag.size() == 12);
    assert!(tag.header().size() == 12 && tag.header().typ() as u16 == 9);
    assert!(tag.entry_addr() == le32(b, 8));
    kani::cover!(le16(b, 2) == 1 && le32(b, 8) == 0xdead_beef);
}

#[kani::proof]
pub fn k_entry_efi64_new() {
    let (flags, fnum) = any_flag();
    let entry_addr: u32 = kani::any();
    let tag = EntryEfi64HeaderTag::new(flags, entry_addr);
    let exp = spec_image(fnum, entry_addr);
    // header: literal spec numbers
    assert!(tag.typ() as u16 == 9);
    assert!(EntryEfi64HeaderTag::ID as u16 == 9 && tag.typ() == EntryEfi64HeaderTag::ID);
    assert!(tag.flags() == flags && tag.flags() as u16 == fnum);
    assert!(tag.size() == 12);
    assert!(tag.header().size() == 12 && tag.header().typ() as u16 == 9);
    // accessors read back
    assert!(tag.entry_addr() == entry_addr);
    // spec image
    let br = tag.as_bytes();
    let bytes: &[u8] = &br;
    assert!(bytes.len() == 16);
    assert!(bytes.as_ptr() == core::ptr::addr_of!(tag).cast::<u8>());
    assert!(bytes[..12] == exp[..]);
}

// C07 "the tag's byte view is obtainable wherever the tag is placed"
#[kani::proof]
pub fn k_entry_efi64_placement() {
    assert!(core::mem::align_of::<EntryEfi64HeaderTag>() == 8);
    assert!(core::mem::size_of::<EntryEfi64HeaderTag>() == 16);
    assert!(EntryEfi64HeaderTag::BASE_SIZE == 12);
    let (flags, fnum) = any_flag();
    let entry_addr: u32 = kani::any();
    let tag = EntryEfi64HeaderTag::new(flags, entry_addr);
    let exp = spec_image(fnum, entry_addr);
    let arr = [tag, tag];
    let b1 = arr[1].as_bytes();
    assert!(b1.len() == 16 && b1.as_ptr() == core::ptr::addr_of!(arr[1]).cast::<u8>());
    assert!(b1[..12] == exp[..]);
    let placed = KPlaced { pad: 0, tag };
    let b2 = placed.tag.as_bytes();
    assert!(b2.len() == 16 && b2.as_ptr() == core::ptr::addr_of!(placed.tag).cast::<u8>());
    assert!(b2[..12] == exp[..]);
}
