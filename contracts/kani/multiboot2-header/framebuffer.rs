// Engine K harnesses for multiboot2-header/src/framebuffer.rs (C11 decode, C07 constructor).
// Spec 3.1.10 "The framebuffer tag of Multiboot2 header": u16 type = 5, u16 flags, u32 size = 20, u32 width @8, u32 height @12, u32 depth @16.
// Loop-free over fixed-size symbolic data => complete proofs.
use super::*;
use multiboot2_common::test_utils::AlignedBytes;
use multiboot2_common::DynSizedStructure;

fn le32(b: &[u8], o: usize) -> u32 {
    u32::from_le_bytes([b[o], b[o + 1], b[o + 2], b[o + 3]])
}
fn le16(b: &[u8], o: usize) -> u16 {
    u16::from_le_bytes([b[o], b[o + 1]])
}
fn any_flag() -> (HeaderTagFlag, u16) {
    if kani::any() {
        (HeaderTagFlag::Required, 0)
    } else {
        (HeaderTagFlag::Optional, 1)
    }
}
/// a tag placed behind a 4-byte field inside an 8-aligned structure
#[repr(C, align(8))]
struct KPlaced<T> {
    pad: u32,
    tag: T,
}
/// independent encoder: the spec image of the tag (up to its size 20)
fn spec_image(fnum: u16, width: u32, height: u32, depth: u32) -> [u8; 20] {
    let mut exp = [0u8; 20];
    exp[0..2].copy_from_slice(&5u16.to_le_bytes());
    exp[2..4].copy_from_slice(&fnum.to_le_bytes());
    exp[4..8].copy_from_slice(&20u32.to_le_bytes());
    exp[8..12].copy_from_slice(&width.to_le_bytes());
    exp[12..16].copy_from_slice(&height.to_le_bytes());
    exp[16..20].copy_from_slice(&depth.to_le_bytes());
    exp
}

#[kani::proof]
pub fn k_framebuffer_decode() {
    let bytes = AlignedBytes(kani::any::<[u8; 24]>());
    let b = &bytes.0;
    kani::assume(le16(b, 0) == 5);
    kani::assume(le16(b, 2) <= 1);
    kani::assume(le32(b, 4) == 20);
    let generic = DynSizedStructure::<HeaderTagHeader>::ref_from_slice(&b[..]).unwrap();
    let tag = generic.cast::<FramebufferHeaderTag>();
    assert!(core::ptr::addr_of!(*tag).cast::<u8>() == b.as_ptr());
    assert!(core::mem::size_of_val(tag) == 24);
    assert!(tag.typ() as u16 == 5 && tag.typ() == HeaderTagType::Framebuffer);
    assert!(tag.flags() as u16 == le16(b, 2));
    assert!(tag.size() == 20);
    assert!(tag.header().size() == 20 && tag.header().typ() as u16 == 5);
    assert!(tag.width() == le32(b, 8));
    assert!(tag.height() == le32(b, 12));
    assert!(tag.depth() == le32(b, 16));
    kani::cover!(le16(b, 2) == 1 && le32(b, 16) == 0xdead_beef);
}

#[kani::proof]
pub fn k_framebuffer_new() {
    let (flags, fnum) = any_flag();
    let width: u32 = kani::any();
    let height: u32 = kani::any();
    let depth: u32 = kani::any();
    let tag = FramebufferHeaderTag::new(flags, width, height, depth);
    let exp = spec_image(fnum, width, height, depth);
    // header: literal spec numbers
    assert!(tag.typ() as u16 == 5);
    assert!(FramebufferHeaderTag::ID as u16 == 5 && tag.typ() == FramebufferHeaderTag::ID);
    assert!(tag.flags() == flags && tag.flags() as u16 == fnum);
    assert!(tag.size() == 20);
    assert!(tag.header().size() == 20 && tag.header().typ() as u16 == 5);
    // accessors read back
    assert!(tag.width() == width);
    assert!(tag.height() == height);
    assert!(tag.depth() == depth);
    // spec image
    let br = tag.as_bytes();
    let bytes: &[u8] = &br;
    assert!(bytes.len() == 24);
    assert!(bytes.as_ptr() == core::ptr::addr_of!(tag).cast::<u8>());
    assert!(bytes[..20] == exp[..]);
}

// C07 "the tag's byte view is obtainable wherever the tag is placed"
#[kani::proof]
pub fn k_framebuffer_placement() {
    assert!(core::mem::align_of::<FramebufferHeaderTag>() == 8);
    assert!(core::mem::size_of::<FramebufferHeaderTag>() == 24);
    assert!(FramebufferHeaderTag::BASE_SIZE == 20);
    let (flags, fnum) = any_flag();
    let width: u32 = kani::any();
    let height: u32 = kani::any();
    let depth: u32 = kani::any();
    let tag = FramebufferHeaderTag::new(flags, width, height, depth);
    let exp = spec_image(fnum, width, height, depth);
    let arr = [tag, tag];
    let b1 = arr[1].as_bytes();
    assert!(b1.len() == 24 && b1.as_ptr() == core::ptr::addr_of!(arr[1]).cast::<u8>());
    assert!(b1[..20] == exp[..]);
    let placed = KPlaced { pad: 0, tag };
    let b2 = placed.tag.as_bytes();
    assert!(b2.len() == 24 && b2.as_ptr() == core::ptr::addr_of!(placed.tag).cast::<u8>());
    assert!(b2[..20] == exp[..]);
}
