// Engine K harnesses for multiboot2-header/src/header.rs
// (C10 load + checksum law, C11 accessors / tag walk / typed getters,
//  C09 no read outside the declared header, C13 find_header, C20 MAGIC).
//
// Spec 3.1.1/3.1.2: header = u32 magic @0 (0xE85250D6), u32 architecture @4
// (0 = i386, 4 = MIPS32), u32 header_length @8, u32 checksum @12 with
// magic + architecture + header_length + checksum == 0 (mod 2^32); tags follow
// from offset 16, each 8-aligned: u16 type, u16 flags, u32 size.
use super::*;
use multiboot2_common::test_utils::AlignedBytes;

const SPEC_MAGIC: u32 = 0xE852_50D6;

fn le32(b: &[u8], o: usize) -> u32 {
    u32::from_le_bytes([b[o], b[o + 1], b[o + 2], b[o + 3]])
}
fn le16(b: &[u8], o: usize) -> u16 {
    u16::from_le_bytes([b[o], b[o + 1]])
}
fn round8(n: usize) -> usize {
    (n + 7) / 8 * 8
}
fn any_arch() -> (HeaderTagISA, u32) {
    if kani::any() {
        (HeaderTagISA::I386, 0)
    } else {
        (HeaderTagISA::MIPS32, 4)
    }
}
/// the spec's congruence, written with wrapping u32 arithmetic
fn spec_sum_ok(magic: u32, arch: u32, length: u32, checksum: u32) -> bool {
    magic.wrapping_add(arch).wrapping_add(length).wrapping_add(checksum) == 0
}

// ---------------------------------------------------------------- C20
#[kani::proof]
pub fn k_mb2hdr_magic_value() {
    assert!(MAGIC == 0xE852_50D6);
    assert!(crate::MAGIC == 0xE852_50D6);
    assert!(core::mem::size_of::<Multiboot2BasicHeader>() == 16);
    assert!(core::mem::align_of::<Multiboot2BasicHeader>() == 8);
}

// ---------------------------------------------------------------- C10 checksum law
// complete over all u32 magic x both architectures x all u32 length.
// FAILS on the current tree: `0x100000000 - magic - arch - length` is computed in
// u64 and underflows whenever magic + arch + length > 2^32.
#[kani::proof]
pub fn k_mb2hdr_checksum_law_all() {
    let magic: u32 = kani::any();
    let (arch, anum) = any_arch();
    let length: u32 = kani::any();
    let c = Multiboot2BasicHeader::calc_checksum(magic, arch, length);
    assert!(spec_sum_ok(magic, anum, length, c));
}
// the same law for the real magic (the only one a header may carry): all u32 length
#[kani::proof]
pub fn k_mb2hdr_checksum_law_real_magic_all_lengths() {
    let (arch, anum) = any_arch();
    let length: u32 = kani::any();
    let c = Multiboot2BasicHeader::calc_checksum(SPEC_MAGIC, arch, length);
    assert!(spec_sum_ok(SPEC_MAGIC, anum, length, c));
}
// the part of the domain on which the law holds today: magic + arch + length <= 2^32
#[kani::proof]
pub fn k_mb2hdr_checksum_law_no_wrap() {
    let magic: u32 = kani::any();
    let (arch, anum) = any_arch();
    let length: u32 = kani::any();
    kani::assume(magic as u64 + anum as u64 + length as u64 <= 0x1_0000_0000);
    let c = Multiboot2BasicHeader::calc_checksum(magic, arch, length);
    assert!(spec_sum_ok(magic, anum, length, c));
    assert!(Multiboot2Header::calc_checksum(magic, arch, length) == c);
    kani::cover!(magic == SPEC_MAGIC && length == 0x17AD_AF2A && anum == 0);
    kani::cover!(magic == 0 && length == 0 && anum == 0 && c == 0);
}

// verify_checksum() iff the congruence (all four words symbolic; on the domain
// where calc_checksum does not underflow)
#[kani::proof]
pub fn k_mb2hdr_verify_checksum_iff() {
    let magic: u32 = kani::any();
    let (arch, anum) = any_arch();
    let length: u32 = kani::any();
    let checksum: u32 = kani::any();
    kani::assume(magic as u64 + anum as u64 + length as u64 <= 0x1_0000_0000);
    let h = Multiboot2BasicHeader {
        header_magic: magic,
        arch,
        length,
        checksum,
    };
    assert!(h.verify_checksum() == spec_sum_ok(magic, anum, length, checksum));
    kani::cover!(h.verify_checksum());
    kani::cover!(!h.verify_checksum());
}
// ... and for every header content.  FAILS on the current tree (same underflow).
#[kani::proof]
pub fn k_mb2hdr_verify_checksum_iff_all() {
    let magic: u32 = kani::any();
    let (arch, anum) = any_arch();
    let length: u32 = kani::any();
    let checksum: u32 = kani::any();
    let h = Multiboot2BasicHeader {
        header_magic: magic,
        arch,
        length,
        checksum,
    };
    assert!(h.verify_checksum() == spec_sum_ok(magic, anum, length, checksum));
}

// Multiboot2BasicHeader::new(arch, length): magic, arch, length, valid checksum
#[kani::proof]
pub fn k_mb2hdr_basic_new() {
    let (arch, anum) = any_arch();
    let length: u32 = kani::any();
    kani::assume(SPEC_MAGIC as u64 + anum as u64 + length as u64 <= 0x1_0000_0000);
    let h = Multiboot2BasicHeader::new(arch, length);
    assert!(h.header_magic() == 0xE852_50D6);
    assert!(h.arch() == arch && h.arch() as u32 == anum);
    assert!(h.length() == length);
    assert!(spec_sum_ok(0xE852_50D6, anum, length, h.checksum()));
    assert!(h.verify_checksum());
    let raw: [u8; 16] = unsafe { core::mem::transmute(h) };
    assert!(le32(&raw, 0) == 0xE852_50D6 && le32(&raw, 4) == anum && le32(&raw, 8) == length);
    assert!(le32(&raw, 12) == 0u32.wrapping_sub(0xE852_50D6).wrapping_sub(anum).wrapping_sub(length));
    kani::cover!(length == 0);
    kani::cover!(length == 0x17AD_AF2A - 4 && anum == 4);
}
// all u32 lengths.  FAILS on the current tree for length > 0x17ADAF2A - arch.
#[kani::proof]
pub fn k_mb2hdr_basic_new_all_lengths() {
    let (arch, anum) = any_arch();
    let length: u32 = kani::any();
    let h = Multiboot2BasicHeader::new(arch, length);
    assert!(h.length() == length);
    assert!(spec_sum_ok(0xE852_50D6, anum, length, h.checksum()));
}
// Header::set_size patches length and checksum consistently
#[kani::proof]
pub fn k_mb2hdr_set_size() {
    let (arch, anum) = any_arch();
    let total: u32 = kani::any();
    kani::assume(SPEC_MAGIC as u64 + anum as u64 + total as u64 <= 0x1_0000_0000);
    let mut h = Multiboot2BasicHeader::new(arch, 0);
    h.set_size(total as usize);
    assert!(h.length() == total && h.header_magic() == 0xE852_50D6 && h.arch() == arch);
    assert!(spec_sum_ok(0xE852_50D6, anum, total, h.checksum()));
    if total >= 16 {
        assert!(h.payload_len() == total as usize - 16);
        assert!(h.total_size() == total as usize);
    }
}

// ---------------------------------------------------------------- C11 accessors
#[kani::proof]
pub fn k_mb2hdr_basic_accessors() {
    let bytes = AlignedBytes(kani::any::<[u8; 16]>());
    let b = &bytes.0;
    kani::assume(le32(b, 4) == 0 || le32(b, 4) == 4);
    let h = unsafe { &*b.as_ptr().cast::<Multiboot2BasicHeader>() };
    assert!(h.header_magic() == le32(b, 0));
    assert!(h.arch() as u32 == le32(b, 4));
    assert!((h.arch() == HeaderTagISA::I386) == (le32(b, 4) == 0));
    assert!((h.arch() == HeaderTagISA::MIPS32) == (le32(b, 4) == 4));
    assert!(h.length() == le32(b, 8));
    assert!(h.checksum() == le32(b, 12));
    kani::cover!(le32(b, 4) == 4 && le32(b, 0) == 0x1234_5678);
}

// ---------------------------------------------------------------- C10 load
#[kani::proof]
pub fn k_mb2hdr_load_null() {
    let r = unsafe { Multiboot2Header::load(core::ptr::null()) };
    assert!(matches!(r, Err(LoadError::Memory(MemoryError::Null))));
}

fn check_load(b: &[u8; 64]) {
    let (magic, arch, length, checksum) = (le32(b, 0), le32(b, 4), le32(b, 8), le32(b, 12));
    let r = unsafe { Multiboot2Header::load(b.as_ptr().cast()) };
    if length < 16 {
        assert!(matches!(r, Err(LoadError::Memory(MemoryError::ShorterThanHeader))));
    } else if length % 8 != 0 {
        assert!(matches!(r, Err(LoadError::Memory(MemoryError::MissingPadding))));
    } else if magic != 0xE852_50D6 {
        assert!(matches!(r, Err(LoadError::MagicNotFound)));
    } else if !spec_sum_ok(magic, arch, length, checksum) {
        assert!(matches!(r, Err(LoadError::ChecksumMismatch)));
    } else {
        match r {
            Ok(h) => {
                // same address, exactly the declared extent
                assert!(core::ptr::addr_of!(*h.0).cast::<u8>() == b.as_ptr());
                assert!(core::mem::size_of_val(h.0) == length as usize);
                assert!(h.0.payload().len() == length as usize - 16);
                assert!(h.0.payload().as_ptr() == b[16..].as_ptr());
                // C11 accessors of the loaded header
                assert!(h.header_magic() == magic);
                assert!(h.arch() as u32 == arch);
                assert!(h.length() == length);
                assert!(h.checksum() == checksum);
                assert!(h.verify_checksum());
            }
            Err(_) => assert!(false),
        }
    }
}
// all header contents with architecture in {0,4} and 16 <= length <= 64 (the
// load reads `length` bytes, the region has 64): complete for this domain.
#[kani::proof]
pub fn k_mb2hdr_load() {
    let region = AlignedBytes(kani::any::<[u8; 64]>());
    let b = &region.0;
    kani::assume(le32(b, 4) == 0 || le32(b, 4) == 4);
    kani::assume(le32(b, 8) >= 16 && le32(b, 8) <= 64);
    check_load(b);
    let ok = le32(b, 0) == SPEC_MAGIC && spec_sum_ok(le32(b, 0), le32(b, 4), le32(b, 8), le32(b, 12));
    kani::cover!(ok && le32(b, 8) == 64);
    kani::cover!(ok && le32(b, 8) == 16);
    kani::cover!(le32(b, 8) == 20);
    kani::cover!(le32(b, 0) == SPEC_MAGIC && le32(b, 8) == 24 && !ok);
}
// declared length 0..=15: must be reported as too short.
// FAILS on the current tree: payload_len computes length - 16 unguarded.
#[kani::proof]
pub fn k_mb2hdr_load_short() {
    let region = AlignedBytes(kani::any::<[u8; 64]>());
    let b = &region.0;
    kani::assume(le32(b, 4) == 0 || le32(b, 4) == 4);
    kani::assume(le32(b, 8) < 16);
    check_load(b);
}

// ---------------------------------------------------------------- C11/C09 tag walk
/// the spec walk over a well-formed header of N bytes (at most 4 tags recorded)
struct Walk {
    n: usize,
    off: [usize; 4],
    typ: [u16; 4],
    size: [usize; 4],
}
/// sizes the spec allows for each header tag type
fn spec_size_ok(typ: u16, size: usize) -> bool {
    match typ {
        0 | 6 | 7 => size == 8,
        1 => size >= 8 && (size - 8) % 4 == 0,
        2 | 10 => size == 24,
        3 | 4 | 8 | 9 => size == 12,
        5 => size == 20,
        _ => false,
    }
}
/// Constrain the N-byte region to a valid header with a well-formed tag sequence
/// (kani::assume) and return the specification's walk over it.  `only` restricts
/// the tag types to two kinds (typed-getter harnesses); None = all 11 types.
fn spec_walk<const N: usize>(b: &[u8; N], only: Option<(u16, u16)>) -> Walk {
    kani::assume(le32(b, 0) == SPEC_MAGIC);
    kani::assume(le32(b, 4) == 0 || le32(b, 4) == 4);
    kani::assume(le32(b, 8) as usize == N);
    kani::assume(spec_sum_ok(le32(b, 0), le32(b, 4), le32(b, 8), le32(b, 12)));
    let mut w = Walk {
        n: 0,
        off: [0; 4],
        typ: [0; 4],
        size: [0; 4],
    };
    let mut off = 16;
    while off < N {
        let typ = le16(b, off);
        let flags = le16(b, off + 2);
        let size = le32(b, off + 4) as usize;
        // enumerated fields hold defined values; sizes valid for the kind; inside the region
        kani::assume(typ <= 10 && flags <= 1);
        if let Some((wanted, other)) = only {
            kani::assume(typ == wanted || typ == other);
        }
        kani::assume(spec_size_ok(typ, size));
        kani::assume(off + round8(size) <= N);
        if typ == 4 {
            kani::assume(le32(b, off + 8) <= 1);
        }
        if typ == 10 {
            kani::assume(le32(b, off + 20) <= 2);
        }
        w.off[w.n] = off;
        w.typ[w.n] = typ;
        w.size[w.n] = size;
        w.n += 1;
        off += round8(size);
    }
    w
}
fn first_of(w: &Walk, typ: u16) -> Option<usize> {
    let mut k = 0;
    while k < 4 {
        if k < w.n && w.typ[k] == typ {
            return Some(w.off[k]);
        }
        k += 1;
    }
    None
}

/// iter() reproduces the spec walk: same tags, same order, same extents, then None
fn check_iter<const N: usize>() {
    let region = AlignedBytes(kani::any::<[u8; N]>());
    let b = &region.0;
    let w = spec_walk(b, None);
    let h = unsafe { Multiboot2Header::load(b.as_ptr().cast()) }.unwrap();
    let mut it = h.iter();
    let mut k = 0;
    while k < 4 {
        if k < w.n {
            let t = it.next().unwrap();
            assert!(core::ptr::addr_of!(*t).cast::<u8>() == b[w.off[k]..].as_ptr());
            assert!(core::mem::size_of_val(t) == round8(w.size[k]));
            assert!(t.header().typ() as u16 == w.typ[k]);
            assert!(t.header().flags() as u16 == le16(b, w.off[k] + 2));
            assert!(t.header().size() as usize == w.size[k]);
            assert!(t.payload().len() == w.size[k] - 8);
        }
        k += 1;
    }
    assert!(it.next().is_none());
    assert!(it.next().is_none());
    kani::cover!(w.n == (N - 16) / 8);
    kani::cover!(w.n == 1);
    kani::cover!(w.n >= 1 && w.typ[0] == 1 && w.size[0] == 12);
}
#[kani::proof]
#[kani::unwind(6)]
pub fn k_mb2hdr_iter_32() {
    check_iter::<32>();
}
#[kani::proof]
#[kani::unwind(6)]
pub fn k_mb2hdr_iter_40() {
    check_iter::<40>();
}
#[kani::proof]
#[kani::unwind(6)]
pub fn k_mb2hdr_iter_48() {
    check_iter::<48>();
}

// Typed getters: each returns the FIRST tag of its type in walk order and None
// when absent.  One harness per getter and region length (40 and 48 bytes =
// up to 3 / 4 tags); tag types symbolic among {wanted, other}, sizes symbolic
// but valid for the kind (other = information request => sizes 8, 12, 16, ...;
// for the information-request getter other = module alignment).
// Bounded by the region length; all contents.
macro_rules! getter_body {
    ($n:expr, $getter:ident, $wanted:expr, $other:expr, $t:ident, $b:ident, $off:ident, $extra:block) => {{
        let region = AlignedBytes(kani::any::<[u8; $n]>());
        let $b = &region.0;
        let w = spec_walk($b, Some(($wanted, $other)));
        let h = unsafe { Multiboot2Header::load($b.as_ptr().cast()) }.unwrap();
        let exp = first_of(&w, $wanted);
        match (h.$getter(), exp) {
            (None, None) => {}
            (Some($t), Some($off)) => {
                assert!(core::ptr::addr_of!(*$t).cast::<u8>() == $b[$off..].as_ptr());
                assert!($t.typ() as u16 == $wanted);
                assert!($t.size() == le32($b, $off + 4));
                assert!(core::mem::size_of_val($t) == round8(le32($b, $off + 4) as usize));
                $extra
            }
            _ => assert!(false),
        }
        (w, exp)
    }};
}
#[kani::proof]
#[kani::unwind(6)]
pub fn k_mb2hdr_get_inforeq_40() {
    let (w, exp) = getter_body!(40, information_request_tag, 1, 6, t, b, off, {
        assert!(t.requests().len() == (le32(b, off + 4) as usize - 8) / 4);
        assert!(t.requests().as_ptr().cast::<u8>() == b[off + 8..].as_ptr());
    });
    kani::cover!(exp.is_none() && w.n >= 1); // absent
    kani::cover!(exp == Some(16)); // present as the first tag
    kani::cover!(exp.is_some() && w.typ[0] != 1); // first of its type is not the first tag
    kani::cover!(w.n >= 2 && w.typ[0] == 1 && w.typ[1] == 1); // duplicate: the first one wins
}
#[kani::proof]
#[kani::unwind(6)]
pub fn k_mb2hdr_get_inforeq_48() {
    let (w, exp) = getter_body!(48, information_request_tag, 1, 6, t, b, off, {
        assert!(t.requests().len() == (le32(b, off + 4) as usize - 8) / 4);
        assert!(t.requests().as_ptr().cast::<u8>() == b[off + 8..].as_ptr());
    });
    kani::cover!(exp.is_none() && w.n >= 1); // absent
    kani::cover!(exp == Some(16)); // present as the first tag
    kani::cover!(exp.is_some() && w.typ[0] != 1); // first of its type is not the first tag
    kani::cover!(w.n >= 2 && w.typ[0] == 1 && w.typ[1] == 1); // duplicate: the first one wins
}
#[kani::proof]
#[kani::unwind(6)]
pub fn k_mb2hdr_get_address_40() {
    let (w, exp) = getter_body!(40, address_tag, 2, 1, t, b, off, {
        assert!(t.bss_end_addr() == le32(b, off + 20) && t.header_addr() == le32(b, off + 8));
    });
    kani::cover!(exp.is_none() && w.n >= 1); // absent
    kani::cover!(exp == Some(16)); // present as the first tag
}
#[kani::proof]
#[kani::unwind(6)]
pub fn k_mb2hdr_get_address_48() {
    let (w, exp) = getter_body!(48, address_tag, 2, 1, t, b, off, {
        assert!(t.bss_end_addr() == le32(b, off + 20) && t.header_addr() == le32(b, off + 8));
    });
    kani::cover!(exp.is_none() && w.n >= 1); // absent
    kani::cover!(exp == Some(16)); // present as the first tag
    kani::cover!(exp.is_some() && w.typ[0] != 2); // first of its type is not the first tag
}
#[kani::proof]
#[kani::unwind(6)]
pub fn k_mb2hdr_get_entry_40() {
    let (w, exp) = getter_body!(40, entry_address_tag, 3, 1, t, b, off, {});
    kani::cover!(exp.is_none() && w.n >= 1); // absent
    kani::cover!(exp == Some(16)); // present as the first tag
    kani::cover!(exp.is_some() && w.typ[0] != 3); // first of its type is not the first tag
}
#[kani::proof]
#[kani::unwind(6)]
pub fn k_mb2hdr_get_entry_48() {
    let (w, exp) = getter_body!(48, entry_address_tag, 3, 1, t, b, off, {});
    kani::cover!(exp.is_none() && w.n >= 1); // absent
    kani::cover!(exp == Some(16)); // present as the first tag
    kani::cover!(exp.is_some() && w.typ[0] != 3); // first of its type is not the first tag
    kani::cover!(w.n >= 2 && w.typ[0] == 3 && w.typ[1] == 3); // duplicate: the first one wins
}
#[kani::proof]
#[kani::unwind(6)]
pub fn k_mb2hdr_get_console_40() {
    let (w, exp) = getter_body!(40, console_flags_tag, 4, 1, t, b, off, {
        assert!(t.console_flags() as u32 == le32(b, off + 8));
    });
    kani::cover!(exp.is_none() && w.n >= 1); // absent
    kani::cover!(exp == Some(16)); // present as the first tag
    kani::cover!(exp.is_some() && w.typ[0] != 4); // first of its type is not the first tag
}
#[kani::proof]
#[kani::unwind(6)]
pub fn k_mb2hdr_get_console_48() {
    let (w, exp) = getter_body!(48, console_flags_tag, 4, 1, t, b, off, {
        assert!(t.console_flags() as u32 == le32(b, off + 8));
    });
    kani::cover!(exp.is_none() && w.n >= 1); // absent
    kani::cover!(exp == Some(16)); // present as the first tag
    kani::cover!(exp.is_some() && w.typ[0] != 4); // first of its type is not the first tag
    kani::cover!(w.n >= 2 && w.typ[0] == 4 && w.typ[1] == 4); // duplicate: the first one wins
}
#[kani::proof]
#[kani::unwind(6)]
pub fn k_mb2hdr_get_framebuffer_40() {
    let (w, exp) = getter_body!(40, framebuffer_tag, 5, 1, t, b, off, {});
    kani::cover!(exp.is_none() && w.n >= 1); // absent
    kani::cover!(exp == Some(16)); // present as the first tag
}
#[kani::proof]
#[kani::unwind(6)]
pub fn k_mb2hdr_get_framebuffer_48() {
    let (w, exp) = getter_body!(48, framebuffer_tag, 5, 1, t, b, off, {});
    kani::cover!(exp.is_none() && w.n >= 1); // absent
    kani::cover!(exp == Some(16)); // present as the first tag
    kani::cover!(exp.is_some() && w.typ[0] != 5); // first of its type is not the first tag
}
#[kani::proof]
#[kani::unwind(6)]
pub fn k_mb2hdr_get_module_align_40() {
    let (w, exp) = getter_body!(40, module_align_tag, 6, 1, t, b, off, {});
    kani::cover!(exp.is_none() && w.n >= 1); // absent
    kani::cover!(exp == Some(16)); // present as the first tag
    kani::cover!(exp.is_some() && w.typ[0] != 6); // first of its type is not the first tag
    kani::cover!(w.n >= 2 && w.typ[0] == 6 && w.typ[1] == 6); // duplicate: the first one wins
}
#[kani::proof]
#[kani::unwind(6)]
pub fn k_mb2hdr_get_module_align_48() {
    let (w, exp) = getter_body!(48, module_align_tag, 6, 1, t, b, off, {});
    kani::cover!(exp.is_none() && w.n >= 1); // absent
    kani::cover!(exp == Some(16)); // present as the first tag
    kani::cover!(exp.is_some() && w.typ[0] != 6); // first of its type is not the first tag
    kani::cover!(w.n >= 2 && w.typ[0] == 6 && w.typ[1] == 6); // duplicate: the first one wins
}
#[kani::proof]
#[kani::unwind(6)]
pub fn k_mb2hdr_get_efi_bs_40() {
    let (w, exp) = getter_body!(40, efi_boot_services_tag, 7, 1, t, b, off, {});
    kani::cover!(exp.is_none() && w.n >= 1); // absent
    kani::cover!(exp == Some(16)); // present as the first tag
    kani::cover!(exp.is_some() && w.typ[0] != 7); // first of its type is not the first tag
    kani::cover!(w.n >= 2 && w.typ[0] == 7 && w.typ[1] == 7); // duplicate: the first one wins
}
#[kani::proof]
#[kani::unwind(6)]
pub fn k_mb2hdr_get_efi_bs_48() {
    let (w, exp) = getter_body!(48, efi_boot_services_tag, 7, 1, t, b, off, {});
    kani::cover!(exp.is_none() && w.n >= 1); // absent
    kani::cover!(exp == Some(16)); // present as the first tag
    kani::cover!(exp.is_some() && w.typ[0] != 7); // first of its type is not the first tag
    kani::cover!(w.n >= 2 && w.typ[0] == 7 && w.typ[1] == 7); // duplicate: the first one wins
}
#[kani::proof]
#[kani::unwind(6)]
pub fn k_mb2hdr_get_efi32_40() {
    let (w, exp) = getter_body!(40, entry_address_efi32_tag, 8, 1, t, b, off, {});
    kani::cover!(exp.is_none() && w.n >= 1); // absent
    kani::cover!(exp == Some(16)); // present as the first tag
    kani::cover!(exp.is_some() && w.typ[0] != 8); // first of its type is not the first tag
}
#[kani::proof]
#[kani::unwind(6)]
pub fn k_mb2hdr_get_efi32_48() {
    let (w, exp) = getter_body!(48, entry_address_efi32_tag, 8, 1, t, b, off, {});
    kani::cover!(exp.is_none() && w.n >= 1); // absent
    kani::cover!(exp == Some(16)); // present as the first tag
    kani::cover!(exp.is_some() && w.typ[0] != 8); // first of its type is not the first tag
    kani::cover!(w.n >= 2 && w.typ[0] == 8 && w.typ[1] == 8); // duplicate: the first one wins
}
#[kani::proof]
#[kani::unwind(6)]
pub fn k_mb2hdr_get_efi64_40() {
    let (w, exp) = getter_body!(40, entry_address_efi64_tag, 9, 1, t, b, off, {});
    kani::cover!(exp.is_none() && w.n >= 1); // absent
    kani::cover!(exp == Some(16)); // present as the first tag
    kani::cover!(exp.is_some() && w.typ[0] != 9); // first of its type is not the first tag
}
#[kani::proof]
#[kani::unwind(6)]
pub fn k_mb2hdr_get_efi64_48() {
    let (w, exp) = getter_body!(48, entry_address_efi64_tag, 9, 1, t, b, off, {});
    kani::cover!(exp.is_none() && w.n >= 1); // absent
    kani::cover!(exp == Some(16)); // present as the first tag
    kani::cover!(exp.is_some() && w.typ[0] != 9); // first of its type is not the first tag
    kani::cover!(w.n >= 2 && w.typ[0] == 9 && w.typ[1] == 9); // duplicate: the first one wins
}
#[kani::proof]
#[kani::unwind(6)]
pub fn k_mb2hdr_get_relocatable_40() {
    let (w, exp) = getter_body!(40, relocatable_tag, 10, 1, t, b, off, {
        assert!(t.preference() as u32 == le32(b, off + 20) && t.min_addr() == le32(b, off + 8));
    });
    kani::cover!(exp.is_none() && w.n >= 1); // absent
    kani::cover!(exp == Some(16)); // present as the first tag
}
#[kani::proof]
#[kani::unwind(6)]
pub fn k_mb2hdr_get_relocatable_48() {
    let (w, exp) = getter_body!(48, relocatable_tag, 10, 1, t, b, off, {
        assert!(t.preference() as u32 == le32(b, off + 20) && t.min_addr() == le32(b, off + 8));
    });
    kani::cover!(exp.is_none() && w.n >= 1); // absent
    kani::cover!(exp == Some(16)); // present as the first tag
    kani::cover!(exp.is_some() && w.typ[0] != 10); // first of its type is not the first tag
}

// ---------------------------------------------------------------- C09 malformed tag sizes
// valid 32-byte header, first tag with ANY declared size >= 8: if the iterator
// hands out a tag, the size must have been inside the region (otherwise an
// index panic of the iterator = controlled panic; registry: allow assert/panic).
#[kani::proof]
pub fn k_mb2hdr_iter_tag_size_beyond_region() {
    let region = AlignedBytes(kani::any::<[u8; 32]>());
    let b = &region.0;
    kani::assume(le32(b, 0) == SPEC_MAGIC && (le32(b, 4) == 0 || le32(b, 4) == 4));
    kani::assume(le32(b, 8) == 32 && spec_sum_ok(le32(b, 0), le32(b, 4), 32, le32(b, 12)));
    kani::assume(le16(b, 16) <= 10 && le16(b, 18) <= 1);
    let size = le32(b, 20) as usize;
    kani::assume(size >= 8);
    let h = unsafe { Multiboot2Header::load(b.as_ptr().cast()) }.unwrap();
    let mut it = h.iter();
    let t = it.next();
    assert!(16 + round8(size) <= 32);
    let t = t.unwrap();
    assert!(core::mem::size_of_val(t) == round8(size));
    assert!(core::ptr::addr_of!(*t).cast::<u8>() == b[16..].as_ptr());
    kani::cover!(size == 16);
    kani::cover!(size == 9);
}
// ... and any declared size 0..=7: error or controlled panic required.
// FAILS on the current tree: HeaderTagHeader::payload_len computes size - 8
// unguarded (arithmetic overflow; wraps in release builds).
#[kani::proof]
pub fn k_mb2hdr_iter_tag_size_below_header() {
    let region = AlignedBytes(kani::any::<[u8; 32]>());
    let b = &region.0;
    kani::assume(le32(b, 0) == SPEC_MAGIC && (le32(b, 4) == 0 || le32(b, 4) == 4));
    kani::assume(le32(b, 8) == 32 && spec_sum_ok(le32(b, 0), le32(b, 4), 32, le32(b, 12)));
    kani::assume(le16(b, 16) <= 10 && le16(b, 18) <= 1);
    let size = le32(b, 20) as usize;
    kani::assume(size < 8);
    let h = unsafe { Multiboot2Header::load(b.as_ptr().cast()) }.unwrap();
    let mut it = h.iter();
    let _t = it.next();
    // returning normally with a tag of size < 8 is not acceptable
    assert!(false);
}

// ---------------------------------------------------------------- C13 find_header
/// independent scan + expected result for `buf`
fn check_find_header(buf: &[u8]) {
    let len = buf.len();
    let mut first: Option<usize> = None;
    let mut i = 0;
    while i + 4 <= len && i + 4 <= 8192 {
        if first.is_none() && le32(buf, i) == 0xE852_50D6 {
            first = Some(i);
        }
        i += 1;
    }
    let r = Multiboot2Header::find_header(buf);
    match first {
        None => assert!(matches!(r, Ok(None))),
        Some(i) => {
            if i % 8 != 0 {
                assert!(r.is_err());
            } else if i + 12 > len {
                assert!(r.is_err());
            } else {
                let hl = le32(buf, i + 8) as usize;
                if i + hl > len {
                    assert!(r.is_err());
                } else {
                    match r {
                        Ok(Some((s, idx))) => {
                            assert!(idx as usize == i);
                            assert!(s.as_ptr() == buf[i..].as_ptr());
                            assert!(s.len() == hl);
                        }
                        _ => assert!(false),
                    }
                }
            }
        }
    }
}
// bounded: every buffer length 0..=48, all contents (unwind 50 >= 46 windows + 1).
// FAILS on the current tree: `buffer[0..8192]` panics for every buffer shorter
// than 8192 bytes.
#[kani::proof]
#[kani::unwind(50)]
pub fn k_mb2hdr_find_header_small() {
    let region = AlignedBytes(kani::any::<[u8; 48]>());
    let len: usize = kani::any();
    kani::assume(len <= 48);
    check_find_header(&region.0[..len]);
}

// ---- C11: the typed getters follow the spec walk to the declared length: a tag that comes AFTER an
// inner end tag (type 0, size 8) is still "the first tag of its type in walk order"
#[kani::proof]
#[kani::unwind(6)]
pub fn k_mb2hdr_get_after_inner_end() {
    let region = AlignedBytes(kani::any::<[u8; 48]>());
    let b = &region.0;
    kani::assume(le32(b, 0) == SPEC_MAGIC);
    kani::assume(le32(b, 4) == 0 || le32(b, 4) == 4);
    kani::assume(le32(b, 8) == 48);
    kani::assume(spec_sum_ok(le32(b, 0), le32(b, 4), le32(b, 8), le32(b, 12)));
    // [End @16][EntryAddress (type 3, flags 0/1, size 12) @24][End @40]
    kani::assume(le16(b, 16) == 0 && le16(b, 18) <= 1 && le32(b, 20) == 8);
    kani::assume(le16(b, 24) == 3 && le16(b, 26) <= 1 && le32(b, 28) == 12);
    kani::assume(le16(b, 40) == 0 && le16(b, 42) <= 1 && le32(b, 44) == 8);
    let h = unsafe { Multiboot2Header::load(b.as_ptr().cast()) }.unwrap();
    let t = h.entry_address_tag();
    assert!(t.is_some());
    let t = t.unwrap();
    assert!(core::ptr::addr_of!(*t).cast::<u8>() as usize == b.as_ptr() as usize + 24);
    assert!(t.entry_addr() == le32(b, 32));
    assert!(h.address_tag().is_none());
}
