// Engine K harnesses for multiboot2-header/src/information_request.rs
// (C11 decode, C05 extent, C07 constructor, C09 malformed sizes).
// Spec 3.1.4 "Multiboot2 information request": u16 type = 1, u16 flags,
// u32 size = 8 + 4*n, u32 mbi_tag_types[n] @8.
use super::*;
use multiboot2_common::test_utils::AlignedBytes;
use multiboot2_common::DynSizedStructure;

fn le32(b: &[u8], o: usize) -> u32 {
    u32::from_le_bytes([b[o], b[o + 1], b[o + 2], b[o + 3]])
}
fn le16(b: &[u8], o: usize) -> u16 {
    u16::from_le_bytes([b[o], b[o + 1]])
}
fn any_flag() -> (HeaderTagFlag, u16) {
    if kani::any() {
        (HeaderTagFlag::Required, 0)
    } else {
        (HeaderTagFlag::Optional, 1)
    }
}
fn round8(n: usize) -> usize {
    (n + 7) / 8 * 8
}

/// shared checks of a decoded information-request tag against the bytes it came from
fn check_decoded(tag: &InformationRequestHeaderTag, b: &[u8], size: usize) {
    let n = (size - 8) / 4;
    assert!(core::ptr::addr_of!(*tag).cast::<u8>() == b.as_ptr());
    assert!(core::mem::size_of_val(tag) == round8(size));
    assert!(core::mem::align_of_val(tag) == 8);
    assert!(tag.typ() as u16 == 1 && tag.typ() == HeaderTagType::InformationRequest);
    assert!(tag.flags() as u16 == le16(b, 2));
    assert!(tag.size() as usize == size);
    // C05: exactly (size-8)/4 elements starting at offset 8: no padding, no neighbour
    let reqs = tag.requests();
    assert!(reqs.len() == n);
    assert!(reqs.as_ptr().cast::<u8>() == b[8..].as_ptr());
    if n > 0 {
        assert!(u32::from(reqs[0]) == le32(b, 8));
    }
    if n > 1 {
        assert!(u32::from(reqs[1]) == le32(b, 12));
    }
    if n > 2 {
        assert!(u32::from(reqs[2]) == le32(b, 16));
    }
    if n > 3 {
        assert!(u32::from(reqs[3]) == le32(b, 20));
    }
}

// ---- C11/C05 decode, well-formed sizes 8, 12, 16, 20, 24 (n = 0..=4), all
// bytes symbolic including padding; the slice handed over is exactly
// round8(size) long, so any read beyond it is a failed pointer check.
#[kani::proof]
pub fn k_inforeq_decode() {
    let bytes = AlignedBytes(kani::any::<[u8; 24]>());
    let b = &bytes.0;
    let size = le32(b, 4) as usize;
    kani::assume(le16(b, 0) == 1);
    kani::assume(le16(b, 2) <= 1);
    kani::assume(size >= 8 && size <= 24 && (size - 8) % 4 == 0);
    let region = &b[..round8(size)];
    let generic = DynSizedStructure::<HeaderTagHeader>::ref_from_slice(region).unwrap();
    let tag = generic.cast::<InformationRequestHeaderTag>();
    check_decoded(tag, region, size);
    kani::cover!(size == 8);
    kani::cover!(size == 12);
    kani::cover!(size == 24 && le32(b, 20) == 0xdead_beef);
}

// ---- C05/C09 "a size leaving a remainder is rejected by a controlled panic":
// all sizes 8..=24 (every residue mod 4).  If the cast returns, the size must
// have been well-formed.  For sizes with a remainder the code's own assert_eq!
// in dst_len fires (registry: allow assert/panic).
#[kani::proof]
pub fn k_inforeq_decode_remainder_rejected() {
    let bytes = AlignedBytes(kani::any::<[u8; 24]>());
    let b = &bytes.0;
    let size = le32(b, 4) as usize;
    kani::assume(le16(b, 0) == 1);
    kani::assume(le16(b, 2) <= 1);
    kani::assume(size >= 8 && size <= 24);
    let region = &b[..round8(size)];
    let generic = DynSizedStructure::<HeaderTagHeader>::ref_from_slice(region).unwrap();
    let tag = generic.cast::<InformationRequestHeaderTag>();
    assert!((size - 8) % 4 == 0);
    check_decoded(tag, region, size);
    kani::cover!(size == 16);
}

// ---- C05/C09 "a size smaller than the fixed part is rejected by a controlled
// panic" (or an error): all sizes 0..=7.  On the current tree the generic layer
// computes size - 8 unguarded (HeaderTagHeader::payload_len): arithmetic
// overflow, not a controlled panic -> FAILING.
#[kani::proof]
pub fn k_inforeq_decode_undersize_rejected() {
    let bytes = AlignedBytes(kani::any::<[u8; 8]>());
    let b = &bytes.0;
    let size = le32(b, 4) as usize;
    kani::assume(le16(b, 0) == 1);
    kani::assume(le16(b, 2) <= 1);
    kani::assume(size < 8);
    let r = DynSizedStructure::<HeaderTagHeader>::ref_from_slice(&b[..]);
    // an error is fine; returning a structure is not
    assert!(r.is_err());
}

// ---- C07 constructor, n = 0..=4 requests with symbolic values
fn check_new(n: usize) {
    let (flags, fnum) = any_flag();
    let vals: [u32; 4] = kani::any();
    let reqs = [
        MbiTagTypeId::new(vals[0]),
        MbiTagTypeId::new(vals[1]),
        MbiTagTypeId::new(vals[2]),
        MbiTagTypeId::new(vals[3]),
    ];
    let tag = InformationRequestHeaderTag::new(flags, &reqs[..n]);
    let size = 8 + 4 * n;
    assert!(tag.typ() as u16 == 1);
    assert!(InformationRequestHeaderTag::ID as u16 == 1 && tag.typ() == InformationRequestHeaderTag::ID);
    assert!(tag.flags() == flags && tag.flags() as u16 == fnum);
    assert!(tag.size() as usize == size);
    assert!(tag.header().size() as usize == size);
    assert!(InformationRequestHeaderTag::BASE_SIZE == 8);
    // read back
    let back = tag.requests();
    assert!(back.len() == n);
    // spec image
    let br = tag.as_bytes();
    let bytes: &[u8] = &br;
    assert!(bytes.len() == round8(size));
    assert!(bytes.as_ptr() == core::ptr::addr_of!(*tag).cast::<u8>());
    assert!(le16(bytes, 0) == 1);
    assert!(le16(bytes, 2) == fnum);
    assert!(le32(bytes, 4) as usize == size);
    if n > 0 {
        assert!(le32(bytes, 8) == vals[0] && u32::from(back[0]) == vals[0]);
    }
    if n > 1 {
        assert!(le32(bytes, 12) == vals[1] && u32::from(back[1]) == vals[1]);
    }
    if n > 2 {
        assert!(le32(bytes, 16) == vals[2] && u32::from(back[2]) == vals[2]);
    }
    if n > 3 {
        assert!(le32(bytes, 20) == vals[3] && u32::from(back[3]) == vals[3]);
    }
}
#[kani::proof]
#[kani::unwind(6)]
pub fn k_inforeq_new_0() {
    check_new(0);
}
#[kani::proof]
#[kani::unwind(6)]
pub fn k_inforeq_new_1() {
    check_new(1);
}
#[kani::proof]
#[kani::unwind(6)]
pub fn k_inforeq_new_2() {
    check_new(2);
}
#[kani::proof]
#[kani::unwind(6)]
pub fn k_inforeq_new_3() {
    check_new(3);
}
#[kani::proof]
#[kani::unwind(6)]
pub fn k_inforeq_new_4() {
    check_new(4);
}
