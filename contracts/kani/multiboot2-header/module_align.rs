// Engine K harnesses for multiboot2-header/src/module_align.rs (C11 decode, C07 constructor).
// Spec 3.1.11 "Module alignment tag": u16 type = 6, u16 flags, u32 size = 8.
// Loop-free over fixed-size symbolic data => complete proofs.
use super::*;
use multiboot2_common::test_utils::AlignedBytes;
use multiboot2_common::DynSizedStructure;

fn le32(b: &[u8], o: usize) -> u32 {
    u32::from_le_bytes([b[o], b[o + 1], b[o + 2], b[o + 3]])
}
fn le16(b: &[u8], o: usize) -> u16 {
    u16::from_le_bytes([b[o], b[o + 1]])
}
fn any_flag() -> (HeaderTagFlag, u16) {
    if kani::any() {
        (HeaderTagFlag::Required, 0)
    } else {
        (HeaderTagFlag::Optional, 1)
    }
}
/// a tag placed behind a 4-byte field inside an 8-aligned structure
#[repr(C, align(8))]
struct KPlaced<T> {
    pad: u32,
    tag: T,
}
/// independent encoder: the spec image of the tag (up to its size 8)
fn spec_image(fnum: u16) -> [u8; 8] {
    let mut exp = [0u8; 8];
    exp[0..2].copy_from_slice(&6u16.to_le_bytes());
    exp[2..4].copy_from_slice(&fnum.to_le_bytes());
    exp[4..8].copy_from_slice(&8u32.to_le_bytes());
    exp
}

#[kani::proof]
pub fn k_module_align_decode() {
    let bytes = AlignedBytes(kani::any::<[u8; 8]>());
    let b = &bytes.0;
    kani::assume(le16(b, 0) == 6);
    kani::assume(le16(b, 2) <= 1);
    kani::assume(le32(b, 4) == 8);
    let generic = DynSizedStructure::<HeaderTagHeader>::ref_from_slice(&b[..]).unwrap();
    let tag = generic.cast::<ModuleAlignHeaderTag>();
    assert!(core::ptr::addr_of!(*tag).cast::<u8>() == b.as_ptr());
    assert!(core::mem::size_of_val(tag) == 8);
    assert!(tag.typ() as u16 == 6 && tag.typ() == HeaderTagType::ModuleAlign);
    assert!(tag.flags() as u16 == le16(b, 2));
    assert!(tag.size() == 8);
    assert!(tag.header().size() == 8 && tag.header().typ() as u16 == 6);
    kani::cover!(le16(b, 2) == 1);
}

#[kani::proof]
pub fn k_module_align_new() {
    let (flags, fnum) = any_flag();
    let tag = ModuleAlignHeaderTag::new(flags);
    let exp = spec_image(fnum);
    // header: literal spec numbers
    assert!(tag.typ() as u16 == 6);
    assert!(ModuleAlignHeaderTag::ID as u16 == 6 && tag.typ() == ModuleAlignHeaderTag::ID);
    assert!(tag.flags() == flags && tag.flags() as u16 == fnum);
    assert!(tag.size() == 8);
    assert!(tag.header().size() == 8 && tag.header().typ() as u16 == 6);
    // spec image
    let br = tag.as_bytes();
    let bytes: &[u8] = &br;
    assert!(bytes.len() == 8);
    assert!(bytes.as_ptr() == core::ptr::addr_of!(tag).cast::<u8>());
    assert!(bytes[..8] == exp[..]);
}

// C07 "the tag's byte view is obtainable wherever the tag is placed"
#[kani::proof]
pub fn k_module_align_placement() {
    assert!(core::mem::align_of::<ModuleAlignHeaderTag>() == 8);
    assert!(core::mem::size_of::<ModuleAlignHeaderTag>() == 8);
    assert!(ModuleAlignHeaderTag::BASE_SIZE == 8);
    let (flags, fnum) = any_flag();
    let tag = ModuleAlignHeaderTag::new(flags);
    let exp = spec_image(fnum);
    let arr = [tag, tag];
    let b1 = arr[1].as_bytes();
    assert!(b1.len() == 8 && b1.as_ptr() == core::ptr::addr_of!(arr[1]).cast::<u8>());
    assert!(b1[..8] == exp[..]);
    let placed = KPlaced { pad: 0, tag };
    let b2 = placed.tag.as_bytes();
    assert!(b2.len() == 8 && b2.as_ptr() == core::ptr::addr_of!(placed.tag).cast::<u8>());
    assert!(b2[..8] == exp[..]);
}
