// Engine K harnesses for multiboot2-header/src/relocatable.rs (C11 decode, C07 constructor).
// Spec 3.1.13 "Relocatable header tag": u16 type = 10, u16 flags, u32 size = 24, u32 min_addr @8, u32 max_addr @12, u32 align @16, u32 preference @20 (0 none, 1 lowest, 2 highest).
// Loop-free over fixed-size symbolic data => complete proofs.
use super::*;
use multiboot2_common::test_utils::AlignedBytes;
use multiboot2_common::DynSizedStructure;

fn le32(b: &[u8], o: usize) -> u32 {
    u32::from_le_bytes([b[o], b[o + 1], b[o + 2], b[o + 3]])
}
fn le16(b: &[u8], o: usize) -> u16 {
    u16::from_le_bytes([b[o], b[o + 1]])
}
fn any_flag() -> (HeaderTagFlag, u16) {
    if kani::any() {
        (HeaderTagFlag::Required, 0)
    } else {
        (HeaderTagFlag::Optional, 1)
    }
}
/// spec table number -> variant, symbolic choice
fn any_preference() -> (RelocatableHeaderTagPreference, u32) {
    let n: u32 = kani::any();
    kani::assume(n <= 2);
    (spec_preference(n), n)
}
fn spec_preference(n: u32) -> RelocatableHeaderTagPreference {
    match n {
        0 => RelocatableHeaderTagPreference::None,
        1 => RelocatableHeaderTagPreference::Low,
        _ => RelocatableHeaderTagPreference::High,
    }
}
/// a tag placed behind a 4-byte field inside an 8-aligned structure
#[repr(C, align(8))]
struct KPlaced<T> {
    pad: u32,
    tag: T,
}
/// independent encoder: the spec image of the tag (up to its size 24)
fn spec_image(fnum: u16, min_addr: u32, max_addr: u32, align: u32, preference: u32) -> [u8; 24] {
    let mut exp = [0u8; 24];
    exp[0..2].copy_from_slice(&10u16.to_le_bytes());
    exp[2..4].copy_from_slice(&fnum.to_le_bytes());
    exp[4..8].copy_from_slice(&24u32.to_le_bytes());
    exp[8..12].copy_from_slice(&min_addr.to_le_bytes());
    exp[12..16].copy_from_slice(&max_addr.to_le_bytes());
    exp[16..20].copy_from_slice(&align.to_le_bytes());
    exp[20..24].copy_from_slice(&preference.to_le_bytes());
    exp
}

#[kani::proof]
pub fn k_relocatable_decode() {
    // the preference word is a 32-bit field
    assert!(core::mem::size_of::<RelocatableHeaderTagPreference>() == 4);
    let bytes = AlignedBytes(kani::any::<[u8; 24]>());
    let b = &bytes.0;
    kani::assume(le16(b, 0) == 10);
    kani::assume(le16(b, 2) <= 1);
    kani::assume(le32(b, 4) == 24);
    kani::assume(le32(b, 20) <= 2); // enumerated field holds a defined value
    let generic = DynSizedStructure::<HeaderTagHeader>::ref_from_slice(&b[..]).unwrap();
    let tag = generic.cast::<RelocatableHeaderTag>();
    assert!(core::ptr::addr_of!(*tag).cast::<u8>() == b.as_ptr());
    assert!(core::mem::size_of_val(tag) == 24);
    assert!(tag.typ() as u16 == 10 && tag.typ() == HeaderTagType::Relocatable);
    assert!(tag.flags() as u16 == le16(b, 2));
    assert!(tag.size() == 24);
    assert!(tag.header().size() == 24 && tag.header().typ() as u16 == 10);
    assert!(tag.min_addr() == le32(b, 8));
    assert!(tag.max_addr() == le32(b, 12));
    assert!(tag.align() == le32(b, 16));
    assert!(tag.preference() as u32 == le32(b, 20));
    assert!(tag.preference() == spec_preference(le32(b, 20)));
    kani::cover!(le16(b, 2) == 1 && le32(b, 20) == 2);
}

#[kani::proof]
pub fn k_relocatable_new() {
    let (flags, fnum) = any_flag();
    let min_addr: u32 = kani::any();
    let max_addr: u32 = kani::any();
    let align: u32 = kani::any();
    let (preference, preference_num) = any_preference();
    let tag = RelocatableHeaderTag::new(flags, min_addr, max_addr, align, preference);
    let exp = spec_image(fnum, min_addr, max_addr, align, preference_num);
    // header: literal spec numbers
    assert!(tag.typ() as u16 == 10);
    assert!(RelocatableHeaderTag::ID as u16 == 10 && tag.typ() == RelocatableHeaderTag::ID);
    assert!(tag.flags() == flags && tag.flags() as u16 == fnum);
    assert!(tag.size() == 24);
    assert!(tag.header().size() == 24 && tag.header().typ() as u16 == 10);
    // accessors read back
    assert!(tag.min_addr() == min_addr);
    assert!(tag.max_addr() == max_addr);
    assert!(tag.align() == align);
    assert!(tag.preference() == preference && tag.preference() as u32 == preference_num);
    // spec image
    let br = tag.as_bytes();
    let bytes: &[u8] = &br;
    assert!(bytes.len() == 24);
    assert!(bytes.as_ptr() == core::ptr::addr_of!(tag).cast::<u8>());
    assert!(bytes[..24] == exp[..]);
}

// C07 "the tag's byte view is obtainable wherever the tag is placed"
#[kani::proof]
pub fn k_relocatable_placement() {
    assert!(core::mem::align_of::<RelocatableHeaderTag>() == 8);
    assert!(core::mem::size_of::<RelocatableHeaderTag>() == 24);
    assert!(RelocatableHeaderTag::BASE_SIZE == 24);
    let (flags, fnum) = any_flag();
    let min_addr: u32 = kani::any();
    let max_addr: u32 = kani::any();
    let align: u32 = kani::any();
    let (preference, preference_num) = any_preference();
    let tag = RelocatableHeaderTag::new(flags, min_addr, max_addr, align, preference);
    let exp = spec_image(fnum, min_addr, max_addr, align, preference_num);
    let arr = [tag, tag];
    let b1 = arr[1].as_bytes();
    assert!(b1.len() == 24 && b1.as_ptr() == core::ptr::addr_of!(arr[1]).cast::<u8>());
    assert!(b1[..24] == exp[..]);
    let placed = KPlaced { pad: 0, tag };
    let b2 = placed.tag.as_bytes();
    assert!(b2.len() == 24 && b2.as_ptr() == core::ptr::addr_of!(placed.tag).cast::<u8>());
    assert!(b2[..24] == exp[..]);
}
