// Engine K harnesses for multiboot2-header/src/tags.rs (C20 numeric values,
// C11/C07 HeaderTagHeader layout, C09 payload_len).  All loop-free => complete.
use super::*;
use multiboot2_common::test_utils::AlignedBytes;

// ---- C20: numeric values of the enums (Multiboot2 spec 3.1.2 / 3.1.3 and the
// header-tag table of the example multiboot2.h)
#[kani::proof]
pub fn k_hdr_isa_values() {
    assert!(HeaderTagISA::I386 as u32 == 0);
    assert!(HeaderTagISA::MIPS32 as u32 == 4);
    assert!(mem::size_of::<HeaderTagISA>() == 4);
}

#[kani::proof]
pub fn k_hdr_tag_type_values() {
    assert!(HeaderTagType::End as u16 == 0);
    assert!(HeaderTagType::InformationRequest as u16 == 1);
    assert!(HeaderTagType::Address as u16 == 2);
    assert!(HeaderTagType::EntryAddress as u16 == 3);
    assert!(HeaderTagType::ConsoleFlags as u16 == 4);
    assert!(HeaderTagType::Framebuffer as u16 == 5);
    assert!(HeaderTagType::ModuleAlign as u16 == 6);
    assert!(HeaderTagType::EfiBS as u16 == 7);
    assert!(HeaderTagType::EntryAddressEFI32 as u16 == 8);
    assert!(HeaderTagType::EntryAddressEFI64 as u16 == 9);
    assert!(HeaderTagType::Relocatable as u16 == 10);
    assert!(HeaderTagType::count() == 11);
    assert!(mem::size_of::<HeaderTagType>() == 2);
}

#[kani::proof]
pub fn k_hdr_tag_flag_values() {
    assert!(HeaderTagFlag::Required as u16 == 0);
    assert!(HeaderTagFlag::Optional as u16 == 1);
    assert!(mem::size_of::<HeaderTagFlag>() == 2);
}

/// spec table number -> variant
pub(crate) fn k_spec_type(v: u16) -> HeaderTagType {
    match v {
        0 => HeaderTagType::End,
        1 => HeaderTagType::InformationRequest,
        2 => HeaderTagType::Address,
        3 => HeaderTagType::EntryAddress,
        4 => HeaderTagType::ConsoleFlags,
        5 => HeaderTagType::Framebuffer,
        6 => HeaderTagType::ModuleAlign,
        7 => HeaderTagType::EfiBS,
        8 => HeaderTagType::EntryAddressEFI32,
        9 => HeaderTagType::EntryAddressEFI64,
        _ => HeaderTagType::Relocatable,
    }
}
pub(crate) fn k_spec_flag(v: u16) -> HeaderTagFlag {
    if v == 0 {
        HeaderTagFlag::Required
    } else {
        HeaderTagFlag::Optional
    }
}

// ---- C11: decode of the 8-byte tag header: type u16 @0, flags u16 @2, size u32 @4
#[kani::proof]
pub fn k_hdr_tag_header_decode() {
    let bytes = AlignedBytes(kani::any::<[u8; 8]>());
    let b = &bytes.0;
    let typ = u16::from_le_bytes([b[0], b[1]]);
    let flags = u16::from_le_bytes([b[2], b[3]]);
    let size = u32::from_le_bytes([b[4], b[5], b[6], b[7]]);
    kani::assume(typ <= 10 && flags <= 1);
    let h = unsafe { &*b.as_ptr().cast::<HeaderTagHeader>() };
    assert!(mem::size_of::<HeaderTagHeader>() == 8);
    assert!(h.typ() as u16 == typ);
    assert!(h.typ() == k_spec_type(typ));
    assert!(h.flags() as u16 == flags);
    assert!(h.flags() == k_spec_flag(flags));
    assert!(h.size() == size);
    kani::cover!(typ == 10 && flags == 1 && size == 0xdead_beef);
}

// ---- C07: HeaderTagHeader::new emits the spec image
#[kani::proof]
pub fn k_hdr_tag_header_new() {
    let typ: u16 = kani::any();
    let flags: u16 = kani::any();
    let size: u32 = kani::any();
    kani::assume(typ <= 10 && flags <= 1);
    let h = HeaderTagHeader::new(k_spec_type(typ), k_spec_flag(flags), size);
    assert!(h.typ() as u16 == typ && h.flags() as u16 == flags && h.size() == size);
    let raw: [u8; 8] = unsafe { mem::transmute(h) };
    let t = typ.to_le_bytes();
    let f = flags.to_le_bytes();
    let s = size.to_le_bytes();
    assert!(raw == [t[0], t[1], f[0], f[1], s[0], s[1], s[2], s[3]]);
    kani::cover!(typ == 7 && flags == 1);
}

// ---- C09: payload_len = size - 8 for size >= 8; total_size == size; set_size
#[kani::proof]
pub fn k_hdr_tag_header_payload_len_wellformed() {
    let size: u32 = kani::any();
    kani::assume(size >= 8);
    let mut h = HeaderTagHeader::new(HeaderTagType::Address, HeaderTagFlag::Required, size);
    assert!(h.payload_len() == size as usize - 8);
    assert!(h.total_size() == size as usize);
    let n: u32 = kani::any();
    h.set_size(n as usize);
    assert!(h.size() == n);
    assert!(h.typ() == HeaderTagType::Address && h.flags() == HeaderTagFlag::Required);
}

// C09 "a malformed ... tag size leads to an error or a controlled panic":
// if payload_len returns at all, the size must have been >= 8.
// On the current tree the subtraction is unguarded -> arithmetic overflow
// (not a controlled panic): listed in FAILING.
#[kani::proof]
pub fn k_hdr_tag_header_payload_len_all() {
    let size: u32 = kani::any();
    let h = HeaderTagHeader::new(HeaderTagType::End, HeaderTagFlag::Required, size);
    let p = h.payload_len();
    assert!(size >= 8);
    assert!(p == size as usize - 8);
}

// ---- C14 for the header kind whose natural alignment is 4 (HeaderTagHeader): a slice that starts at an
// address 4 mod 8 is rejected with WrongAlignment -- the required alignment is the fixed 8 of the
// Multiboot2 structures, not the header type's own.  All 16 slice bytes symbolic; loop-free => complete.
#[kani::proof]
pub fn k_hdrtag_ref_from_slice_4mod8() {
    let bytes = AlignedBytes(kani::any::<[u8; 24]>());
    let b = &bytes.0;
    let r = multiboot2_common::DynSizedStructure::<HeaderTagHeader>::ref_from_slice(&b[4..20]);
    assert!(matches!(r, Err(multiboot2_common::MemoryError::WrongAlignment)));
    kani::cover!(b[8] == 0x10 && b[4] == 1);
}
