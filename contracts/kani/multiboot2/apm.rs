// Engine K harnesses for multiboot2/src/apm.rs (C04 decode, C07 constructor,
// C20 ID table).  Oracle: Multiboot2 spec 3.6.11 "APM table": type = 10,
// size = 28, fields (all little endian):
//   u16 version @8, u16 cseg @10, u32 offset @12, u16 cseg_16 @16, u16 dseg @18,
//   u16 flags @20, u16 cseg_len @22, u16 cseg_16_len @24, u16 dseg_len @26.
// All harnesses are loop-free over fixed-size symbolic data: complete proofs.
use super::*;
use multiboot2_common::test_utils::AlignedBytes;
use crate::TagTypeId;
use multiboot2_common::DynSizedStructure;

const SPEC_TYPE: u32 = 10;
const SPEC_SIZE: usize = 28;
const PADDED: usize = 32; // round8(28)

fn le16(b: &[u8], o: usize) -> u16 {
    u16::from_le_bytes([b[o], b[o + 1]])
}
fn le32(b: &[u8], o: usize) -> u32 {
    u32::from_le_bytes([b[o], b[o + 1], b[o + 2], b[o + 3]])
}

// ---- C20 (ID table)
#[kani::proof]
pub fn k_apm_id() {
    assert!(u32::from(<ApmTag as Tag>::ID) == 10);
    assert!(u32::from(TagTypeId::from(<ApmTag as Tag>::ID)) == 10);
}

// ---- C04: decode every field of a spec-conformant APM tag (all 20 payload bytes symbolic)
#[kani::proof]
pub fn k_apm_decode() {
    let bytes = AlignedBytes(kani::any::<[u8; PADDED]>());
    let b = &bytes.0;
    kani::assume(le32(b, 0) == SPEC_TYPE);
    kani::assume(le32(b, 4) == SPEC_SIZE as u32);
    let generic = DynSizedStructure::<TagHeader>::ref_from_slice(&b[..]).unwrap();
    let tag = generic.cast::<ApmTag>();
    // placement / extent
    assert!(core::ptr::addr_of!(*tag).cast::<u8>() == b.as_ptr());
    assert!(core::mem::size_of_val(tag) == PADDED);
    // header
    assert!(u32::from(tag.header().typ) == SPEC_TYPE);
    assert!(tag.header().size == SPEC_SIZE as u32);
    // fields
    assert!(tag.version() == le16(b, 8));
    assert!(tag.cseg() == le16(b, 10));
    assert!(tag.offset() == le32(b, 12));
    assert!(tag.cset_16() == le16(b, 16));
    assert!(tag.dseg() == le16(b, 18));
    assert!(tag.flags() == le16(b, 20));
    assert!(tag.cseg_len() == le16(b, 22));
    assert!(tag.cseg_16_len() == le16(b, 24));
    assert!(tag.dseg_len() == le16(b, 26));
    kani::cover!(tag.version() == 0x0102 && tag.dseg_len() == 0xfffe);
}

fn check_image(
    by: &[u8],
    version: u16,
    cseg: u16,
    offset: u32,
    cseg_16: u16,
    dseg: u16,
    flags: u16,
    cseg_len: u16,
    cseg_16_len: u16,
    dseg_len: u16,
) {
    assert!(by.len() >= SPEC_SIZE);
    assert!(by[0..4] == 10u32.to_le_bytes());
    assert!(by[8..10] == version.to_le_bytes());
    assert!(by[10..12] == cseg.to_le_bytes());
    assert!(by[12..16] == offset.to_le_bytes());
    assert!(by[16..18] == cseg_16.to_le_bytes());
    assert!(by[18..20] == dseg.to_le_bytes());
    assert!(by[20..22] == flags.to_le_bytes());
    assert!(by[22..24] == cseg_len.to_le_bytes());
    assert!(by[24..26] == cseg_16_len.to_le_bytes());
    assert!(by[26..28] == dseg_len.to_le_bytes());
}

// ---- C07 (everything except the size field): type, payload image, read back,
// byte view obtainable for a local and for an array element
#[kani::proof]
pub fn k_apm_new_image() {
    let (version, cseg, offset, cseg_16, dseg): (u16, u16, u32, u16, u16) = kani::any();
    let (flags, cseg_len, cseg_16_len, dseg_len): (u16, u16, u16, u16) = kani::any();
    let tag = ApmTag::new(
        version, cseg, offset, cseg_16, dseg, flags, cseg_len, cseg_16_len, dseg_len,
    );
    assert!(core::mem::align_of::<ApmTag>() == 8);
    assert!(u32::from(tag.header().typ) == 10);
    assert!(tag.header().typ == <ApmTag as Tag>::ID);
    let by = tag.as_bytes();
    check_image(
        &by, version, cseg, offset, cseg_16, dseg, flags, cseg_len, cseg_16_len, dseg_len,
    );
    assert!(tag.version() == version);
    assert!(tag.cseg() == cseg);
    assert!(tag.offset() == offset);
    assert!(tag.cset_16() == cseg_16);
    assert!(tag.dseg() == dseg);
    assert!(tag.flags() == flags);
    assert!(tag.cseg_len() == cseg_len);
    assert!(tag.cseg_16_len() == cseg_16_len);
    assert!(tag.dseg_len() == dseg_len);
    // placed as element 1 of an array
    let arr = [
        ApmTag::new(0, 0, 0, 0, 0, 0, 0, 0, 0),
        ApmTag::new(
            version, cseg, offset, cseg_16, dseg, flags, cseg_len, cseg_16_len, dseg_len,
        ),
    ];
    let by1 = arr[1].as_bytes();
    check_image(
        &by1, version, cseg, offset, cseg_16, dseg, flags, cseg_len, cseg_16_len, dseg_len,
    );
}

// ---- C07 (size field): the size field is the unpadded byte count of the spec (28)
#[kani::proof]
pub fn k_apm_new_size() {
    let (version, cseg, offset, cseg_16, dseg): (u16, u16, u32, u16, u16) = kani::any();
    let (flags, cseg_len, cseg_16_len, dseg_len): (u16, u16, u16, u16) = kani::any();
    let tag = ApmTag::new(
        version, cseg, offset, cseg_16, dseg, flags, cseg_len, cseg_16_len, dseg_len,
    );
    assert!(tag.header().size == 28);
    let by = tag.as_bytes();
    assert!(by[4..8] == 28u32.to_le_bytes());
}
