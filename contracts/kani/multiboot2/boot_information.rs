// Engine K harnesses for multiboot2/src/boot_information.rs (C02, C03, C04, C01).
// Bounded: the region is a fixed array; its declared size is symbolic.
use super::*;
use multiboot2_common::test_utils::AlignedBytes;

fn le32(b: &[u8], o: usize) -> u32 {
    u32::from_le_bytes([b[o], b[o + 1], b[o + 2], b[o + 3]])
}

// ---- C02: load() on compiled code: every declared total size (any u32) behind a
// 64-byte region, every content.  Total: no panic of any kind allowed.
#[kani::proof]
#[kani::unwind(3)]
pub fn k_load_accepts_exactly() {
    let region = AlignedBytes(kani::any::<[u8; 64]>());
    let b = &region.0;
    let ts = le32(b, 0) as usize;
    // the caller's promise: the declared bytes are readable (region is 64 bytes)
    kani::assume(ts <= 64);
    let r = unsafe { BootInformation::load(b.as_ptr().cast()) };
    let ok = r.is_ok();
    if ts < 8 {
        assert!(matches!(r, Err(LoadError::Memory(MemoryError::ShorterThanHeader))));
    } else if ts % 8 != 0 {
        assert!(matches!(r, Err(LoadError::Memory(MemoryError::MissingPadding))));
    } else if !(le32(b, ts - 8) == 0 && le32(b, ts - 4) == 8) {
        assert!(matches!(r, Err(LoadError::NoEndTag)));
    } else {
        let bi = r.unwrap();
        assert!(bi.start_address() == b.as_ptr() as usize);
        assert!(bi.end_address() == b.as_ptr() as usize + ts);
        assert!(bi.total_size() == ts);
        assert!(bi.as_ptr() == b.as_ptr().cast());
    }
    kani::cover!(ts == 24 && ok);
    kani::cover!(ts == 3);
}

#[kani::proof]
pub fn k_load_null() {
    let r = unsafe { BootInformation::load(core::ptr::null()) };
    assert!(matches!(r, Err(LoadError::Memory(MemoryError::Null))));
}

// ---- C03: the tag walk on compiled code.  Region of 48 bytes, every content;
// tag sizes symbolic.  Partial: a walk that leaves the region or meets a size
// below 8 ends in the code's own assert/unwrap (allowed classes: assert, panic).
#[kani::proof]
#[kani::unwind(7)]
pub fn k_tags_walk() {
    let region = AlignedBytes(kani::any::<[u8; 48]>());
    let b = &region.0;
    kani::assume(le32(b, 0) == 48);
    kani::assume(le32(b, 40) == 0 && le32(b, 44) == 8);
    let bi = unsafe { BootInformation::load(b.as_ptr().cast()) }.unwrap();
    let mut it = bi.tags();
    let mut off = 8usize; // spec walk: first tag at offset 8
    let mut n = 0;
    while let Some(t) = it.next() {
        // located at that very address, stored type and size, exactly size-8 payload bytes
        assert!(core::ptr::addr_of!(*t).cast::<u8>() == unsafe { b.as_ptr().add(off) });
        let sz = le32(b, off + 4) as usize;
        assert!(u32::from(t.header().typ) == le32(b, off));
        assert!(t.header().size as usize == sz);
        assert!(sz >= 8);
        assert!(t.payload().len() == sz - 8);
        assert!(off + sz <= 48);
        off += (sz + 7) / 8 * 8;
        n += 1;
        assert!(n <= 5);
    }
    // ended exactly at the end of the region; stays exhausted
    assert!(off == 48);
    assert!(it.next().is_none());
    kani::cover!(n == 3);
}

// ---- C04: typed getters select the FIRST matching tag in walk order / None when absent.
// 48-byte region with up to four 8..16-byte tags of symbolic type.
#[kani::proof]
#[kani::unwind(7)]
pub fn k_get_tag_first_match() {
    let region = AlignedBytes(kani::any::<[u8; 56]>());
    let b = &region.0;
    kani::assume(le32(b, 0) == 56);
    // three 12-byte tags (padded to 16) of symbolic type at 8, 24; end tag at 48 preceded by an 8-byte tag at 40
    kani::assume(le32(b, 12) == 12 && le32(b, 28) == 12 && le32(b, 44) == 8);
    kani::assume(le32(b, 48) == 0 && le32(b, 52) == 8);
    let (t1, t2, t3) = (le32(b, 8), le32(b, 24), le32(b, 40));
    kani::assume(t1 != 0 && t2 != 0 && t3 > 21);   // third tag: a custom type no getter looks for
    let bi = unsafe { BootInformation::load(b.as_ptr().cast()) }.unwrap();
    // ImageLoadPhysAddrTag: type 21, size 12
    let got = bi.load_base_addr_tag();
    let first = if t1 == 21 { Some(8usize) } else if t2 == 21 { Some(24usize) } else { None };
    match (got, first) {
        (Some(t), Some(off)) => {
            assert!(core::ptr::addr_of!(*t).cast::<u8>() == unsafe { b.as_ptr().add(off) });
            assert!(t.load_base_addr() == le32(b, off + 8));
        }
        (None, None) => {}
        _ => assert!(false),
    }
    // EFI sdt32: type 11, size 12
    let got = bi.efi_sdt32_tag();
    let first = if t1 == 11 { Some(8usize) } else if t2 == 11 { Some(24usize) } else { None };
    assert!(got.is_some() == first.is_some());
    if let (Some(t), Some(off)) = (got, first) {
        assert!(core::ptr::addr_of!(*t).cast::<u8>() == unsafe { b.as_ptr().add(off) });
    }
    kani::cover!(t1 == 21 && t2 == 21);
    kani::cover!(t1 != 21 && t2 == 21);
}

// ---- C04: the EFI memory map is withheld while a boot-services-not-exited tag is present,
// whichever of the two comes first in the region
#[kani::proof]
#[kani::unwind(7)]
pub fn k_efi_mmap_withheld() {
    let region = AlignedBytes(kani::any::<[u8; 48]>());
    let b = &region.0;
    kani::assume(le32(b, 0) == 48);
    // X: 8-byte tag at 8, Y: EFI memory map (type 17, size 16 = empty map) at 16, Z: 8-byte tag at 32, end tag at 40
    kani::assume(le32(b, 12) == 8 && le32(b, 16) == 17 && le32(b, 20) == 16 && le32(b, 36) == 8);
    kani::assume(le32(b, 40) == 0 && le32(b, 44) == 8);
    let (tx, tz) = (le32(b, 8), le32(b, 32));
    // each 8-byte tag is either the boot-services-not-exited tag (18) or a custom tag nobody looks for
    kani::assume((tx == 18 || tx > 21) && (tz == 18 || tz > 21));
    let bi = unsafe { BootInformation::load(b.as_ptr().cast()) }.unwrap();
    let bs_present = tx == 18 || tz == 18;
    assert!(bi.efi_memory_map_tag().is_some() == !bs_present);
    assert!(bi.efi_bs_not_exited_tag().is_some() == bs_present);
    if let Some(m) = bi.efi_memory_map_tag() {
        assert!(core::ptr::addr_of!(*m).cast::<u8>() == unsafe { b.as_ptr().add(16) });
    }
    kani::cover!(tx == 18 && tz != 18);
    kani::cover!(tz == 18 && tx != 18);
    kani::cover!(!bs_present);
}
