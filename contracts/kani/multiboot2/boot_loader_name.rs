// Engine K harnesses for multiboot2/src/boot_loader_name.rs (C04/C05/C07/C17).
// Spec (Multiboot2 3.6.4 "Boot loader name"): u32 type = 2, u32 size, then a
// zero-terminated UTF-8 string starting at byte 8 of the tag.
use super::*;
use multiboot2_common::test_utils::AlignedBytes;
use multiboot2_common::DynSizedStructure;

fn round8(n: usize) -> usize {
    (n + 7) / 8 * 8
}
fn le32(b: &[u8], o: usize) -> u32 {
    u32::from_le_bytes([b[o], b[o + 1], b[o + 2], b[o + 3]])
}
/// independent oracle: index of the first NUL in s, if any
fn first_nul(s: &[u8]) -> Option<usize> {
    let mut i = 0;
    while i < s.len() {
        if s[i] == 0 {
            return Some(i);
        }
        i += 1;
    }
    None
}
/// independent oracle: well-formed UTF-8 per the Unicode Standard, table 3-7
fn utf8_valid(s: &[u8]) -> bool {
    let mut i = 0;
    while i < s.len() {
        let a = s[i];
        let n = if a < 0x80 {
            0
        } else if a >= 0xC2 && a <= 0xDF {
            1
        } else if a >= 0xE0 && a <= 0xEF {
            2
        } else if a >= 0xF0 && a <= 0xF4 {
            3
        } else {
            return false;
        };
        if i + n >= s.len() {
            return false;
        }
        if n >= 1 {
            let (lo, hi) = match a {
                0xE0 => (0xA0, 0xBF),
                0xED => (0x80, 0x9F),
                0xF0 => (0x90, 0xBF),
                0xF4 => (0x80, 0x8F),
                _ => (0x80, 0xBF),
            };
            if s[i + 1] < lo || s[i + 1] > hi {
                return false;
            }
        }
        if n >= 2 && (s[i + 2] < 0x80 || s[i + 2] > 0xBF) {
            return false;
        }
        if n >= 3 && (s[i + 3] < 0x80 || s[i + 3] > 0xBF) {
            return false;
        }
        i += n + 1;
    }
    true
}
fn is_ascii(s: &[u8]) -> bool {
    let mut i = 0;
    while i < s.len() {
        if s[i] >= 0x80 {
            return false;
        }
        i += 1;
    }
    true
}

// ---- C05 (a): extent of the string part for every well-formed declared size
// 8..=24 in a 32-byte region (all 32 bytes symbolic: padding and the following
// 8 bytes -- the neighbouring tag -- hold arbitrary marker values).
#[kani::proof]
pub fn k_blname_extent() {
    let bytes = AlignedBytes(kani::any::<[u8; 32]>());
    let b = &bytes.0;
    kani::assume(le32(b, 0) == 2);
    let size = le32(b, 4) as usize;
    kani::assume(size >= 8 && size <= 24);
    let generic = DynSizedStructure::<TagHeader>::ref_from_slice(&b[..round8(size)]).unwrap();
    let tag = generic.cast::<BootLoaderNameTag>();
    assert!(tag.header.typ == TagType::BootLoaderName);
    assert!(tag.header.size as usize == size);
    assert!(tag.typ() == TagType::BootLoaderName && tag.size() == size);
    // variable part: starts at byte 8, ends exactly at the declared size
    assert!(tag.name.as_ptr() == b[8..].as_ptr());
    assert!(tag.name.len() == size - 8);
    kani::cover!(size == 13);
    kani::cover!(size == 8);
}

// ---- C05 (b): every declared size (any u32) in a 24-byte region: if the
// typed view is produced at all the size was >= 8 (fixed part) and fits;
// smaller sizes are rejected by the guarded payload_len (controlled panic),
// larger ones by Err(InvalidReportedTotalSize).
#[kani::proof]
pub fn k_blname_size_any() {
    let bytes = AlignedBytes(kani::any::<[u8; 24]>());
    let b = &bytes.0;
    kani::assume(le32(b, 0) == 2);
    let size = le32(b, 4) as usize;
    match DynSizedStructure::<TagHeader>::ref_from_slice(&b[..]) {
        Ok(generic) => {
            let tag = generic.cast::<BootLoaderNameTag>();
            assert!(size >= 8 && size <= 24);
            assert!(tag.name.as_ptr() == b[8..].as_ptr());
            assert!(tag.name.len() == size - 8);
        }
        Err(e) => {
            assert!(size > 24);
            assert!(e == multiboot2_common::MemoryError::InvalidReportedTotalSize);
        }
    }
}

// ---- C17/C04: name() on a parsed tag == bytes before the first NUL INSIDE
// the declared size; a NUL that exists only in the padding / next tag does not
// count.  Declared size SIZE (concrete per harness), all 24 region bytes
// symbolic (string part, padding, neighbouring tag), all byte values; full
// UTF-8 oracle (Unicode table 3-7).
fn parse_check<const SIZE: usize>() {
    let bytes = AlignedBytes(kani::any::<[u8; 24]>());
    let b = &bytes.0;
    kani::assume(le32(b, 0) == 2);
    kani::assume(le32(b, 4) as usize == SIZE);
    let generic = DynSizedStructure::<TagHeader>::ref_from_slice(&b[..round8(SIZE)]).unwrap();
    let tag = generic.cast::<BootLoaderNameTag>();
    let content = &b[8..SIZE];
    let r = tag.name();
    match first_nul(content) {
        None => assert!(matches!(r, Err(StringError::MissingNul(_)))),
        Some(n) => {
            if utf8_valid(&content[..n]) {
                match r {
                    Ok(s) => {
                        assert!(s.as_ptr() == b[8..].as_ptr());
                        assert!(s.len() == n);
                    }
                    Err(_) => assert!(false),
                }
            } else {
                assert!(matches!(r, Err(StringError::Utf8(_))));
            }
        }
    }
    // NUL only in the padding: must be MissingNul
    kani::cover!(first_nul(content).is_none() && b[SIZE] == 0);
    kani::cover!(matches!(r, Ok(s) if s.len() == SIZE - 9));
    kani::cover!(matches!(r, Err(StringError::Utf8(_))));
}
#[kani::proof]
#[kani::unwind(7)]
pub fn k_blname_parse_size11() {
    parse_check::<11>();
}
#[kani::proof]
#[kani::unwind(7)]
pub fn k_blname_parse_size13() {
    parse_check::<13>();
}

// ---- C07/C17: constructor.  Bounded: ASCII text (NUL allowed anywhere) of
// symbolic length 0..=9 (every padding residue), all byte values 0..=0x7f.
#[kani::proof]
#[kani::unwind(12)]
pub fn k_blname_new() {
    let raw: [u8; 9] = kani::any();
    let len: usize = kani::any();
    kani::assume(len <= 9);
    let sb = &raw[..len];
    kani::assume(is_ascii(sb));
    // ASCII is valid UTF-8
    let s = unsafe { core::str::from_utf8_unchecked(sb) };
    let tag = BootLoaderNameTag::new(s);
    let ends_nul = len > 0 && sb[len - 1] == 0;
    let want = 8 + len + if ends_nul { 0 } else { 1 };
    assert!(u32::from(tag.header.typ) == 2);
    assert!(tag.header.typ == BootLoaderNameTag::ID);
    assert!(tag.header.size as usize == want);
    let ab = tag.as_bytes();
    let img: &[u8] = *ab;
    assert!(img.len() == round8(want));
    assert!(img.as_ptr() as usize % 8 == 0);
    assert!(le32(img, 0) == 2);
    assert!(le32(img, 4) as usize == want);
    let mut i = 0;
    while i < len {
        assert!(img[8 + i] == sb[i]);
        i += 1;
    }
    assert!(img[want - 1] == 0);
    kani::cover!(len == 9 && !ends_nul);
    kani::cover!(len == 5 && ends_nul);
    kani::cover!(len == 0);
}

// ---- C17: constructor read-back.  ASCII text of exact length LEN (one
// harness per length), all byte values 0..=0x7f (NUL allowed anywhere).
fn new_readback<const LEN: usize>() {
    let raw: [u8; LEN] = kani::any();
    let sb = &raw[..];
    kani::assume(is_ascii(sb));
    let s = unsafe { core::str::from_utf8_unchecked(sb) };
    let tag = BootLoaderNameTag::new(s);
    let r = tag.name();
    match first_nul(sb) {
        // NUL-free text reads back exactly
        None => assert!(r == Ok(s)),
        // text with NUL: reads back up to the first NUL
        Some(n) => assert!(matches!(r, Ok(t) if t.len() == n && t.as_bytes() == &sb[..n])),
    }
    kani::cover!(first_nul(sb).is_none());
    kani::cover!(LEN <= 1 || first_nul(sb) == Some(1));
}
#[kani::proof]
#[kani::unwind(8)]
pub fn k_blname_new_readback_len0() {
    new_readback::<0>();
}
#[kani::proof]
#[kani::unwind(8)]
pub fn k_blname_new_readback_len3() {
    new_readback::<3>();
}
#[kani::proof]
#[kani::unwind(8)]
pub fn k_blname_new_readback_len4() {
    new_readback::<4>();
}

// ---- C05/C17: the accessor does not look past the DECLARED size.  Declared size
// SIZE with a string part of concrete non-NUL ASCII bytes; the padding up to the next
// 8-byte boundary and the neighbouring tag are symbolic: whatever they contain (a NUL
// in particular) the result is MissingNul.  Unwinding 14 covers a scan of the padded extent and beyond,
// so an accessor that reads the padded extent or beyond fails the assertion, not the bound.
fn no_nul_inside_declared<const SIZE: usize>() {
    let mut bytes = AlignedBytes([0u8; 24]);
    let mut k = SIZE;
    while k < 24 {
        bytes.0[k] = kani::any();
        k += 1;
    }
    bytes.0[0..4].copy_from_slice(&2u32.to_le_bytes());
    bytes.0[4..8].copy_from_slice(&(SIZE as u32).to_le_bytes());
    let mut i = 8;
    while i < SIZE {
        bytes.0[i] = b'a' + (i as u8 % 7);
        i += 1;
    }
    let b = &bytes.0;
    let generic = DynSizedStructure::<TagHeader>::ref_from_slice(&b[..round8(SIZE)]).unwrap();
    let tag = generic.cast::<BootLoaderNameTag>();
    let r = tag.name();
    assert!(matches!(r, Err(StringError::MissingNul(_))));
    kani::cover!(b[SIZE] == 0);
    kani::cover!(b[round8(SIZE)] == 0);
}
#[kani::proof]
#[kani::unwind(14)]
pub fn k_blname_padding_nul_not_counted_a() {
    no_nul_inside_declared::<11>();
}
#[kani::proof]
#[kani::unwind(14)]
pub fn k_blname_padding_nul_not_counted_b() {
    no_nul_inside_declared::<13>();
}
