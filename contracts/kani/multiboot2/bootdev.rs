// Engine K harnesses for multiboot2/src/bootdev.rs (C04 decode, C07 constructor,
// C20 ID table).  Oracle: Multiboot2 spec 3.6.6 "BIOS Boot device": type = 5,
// size = 20, u32 biosdev @8, u32 partition (slice) @12, u32 sub_partition (part) @16.
// All harnesses are loop-free over fixed-size symbolic data: complete proofs.
use super::*;
use crate::TagTypeId;
use multiboot2_common::test_utils::AlignedBytes;
use multiboot2_common::DynSizedStructure;

fn le32(b: &[u8], o: usize) -> u32 {
    u32::from_le_bytes([b[o], b[o + 1], b[o + 2], b[o + 3]])
}

// ---- C20 (ID table)
#[kani::proof]
pub fn k_bootdev_id() {
    assert!(u32::from(<BootdevTag as Tag>::ID) == 5);
    assert!(u32::from(TagTypeId::from(<BootdevTag as Tag>::ID)) == 5);
}

// ---- C04
#[kani::proof]
pub fn k_bootdev_decode() {
    let bytes = AlignedBytes(kani::any::<[u8; 24]>()); // round8(20)
    let b = &bytes.0;
    kani::assume(le32(b, 0) == 5);
    kani::assume(le32(b, 4) == 20);
    let generic = DynSizedStructure::<TagHeader>::ref_from_slice(&b[..]).unwrap();
    let tag = generic.cast::<BootdevTag>();
    assert!(core::ptr::addr_of!(*tag).cast::<u8>() == b.as_ptr());
    assert!(core::mem::size_of_val(tag) == 24);
    assert!(u32::from(tag.header().typ) == 5);
    assert!(tag.header().size == 20);
    assert!(tag.biosdev() == le32(b, 8));
    assert!(tag.slice() == le32(b, 12));
    assert!(tag.part() == le32(b, 16));
    kani::cover!(tag.biosdev() == 0x80 && tag.slice() == 1 && tag.part() == 0xffff_ffff);
}

fn check_image(by: &[u8], biosdev: u32, slice: u32, part: u32) {
    assert!(by.len() >= 20);
    assert!(by[0..4] == 5u32.to_le_bytes());
    assert!(by[8..12] == biosdev.to_le_bytes());
    assert!(by[12..16] == slice.to_le_bytes());
    assert!(by[16..20] == part.to_le_bytes());
}

// ---- C07 (everything except the size field)
#[kani::proof]
pub fn k_bootdev_new_image() {
    let (biosdev, slice, part): (u32, u32, u32) = kani::any();
    let tag = BootdevTag::new(biosdev, slice, part);
    assert!(core::mem::align_of::<BootdevTag>() == 8);
    assert!(u32::from(tag.header().typ) == 5);
    assert!(tag.header().typ == <BootdevTag as Tag>::ID);
    check_image(&tag.as_bytes(), biosdev, slice, part);
    assert!(tag.biosdev() == biosdev);
    assert!(tag.slice() == slice);
    assert!(tag.part() == part);
    let arr = [BootdevTag::new(0, 0, 0), BootdevTag::new(biosdev, slice, part)];
    check_image(&arr[1].as_bytes(), biosdev, slice, part);
}

// ---- C07 (size field): unpadded byte count of the spec (20)
#[kani::proof]
pub fn k_bootdev_new_size() {
    let (biosdev, slice, part): (u32, u32, u32) = kani::any();
    let tag = BootdevTag::new(biosdev, slice, part);
    assert!(tag.header().size == 20);
    let by = tag.as_bytes();
    assert!(by[4..8] == 20u32.to_le_bytes());
}
