// Engine K harnesses for multiboot2/src/command_line.rs (C04/C05/C07/C17).
// Spec (Multiboot2 3.6.3 "Boot command line"): u32 type = 1, u32 size, then a
// zero-terminated UTF-8 string starting at byte 8 of the tag.
use super::*;
use multiboot2_common::test_utils::AlignedBytes;
use multiboot2_common::DynSizedStructure;

fn round8(n: usize) -> usize {
    (n + 7) / 8 * 8
}
fn le32(b: &[u8], o: usize) -> u32 {
    u32::from_le_bytes([b[o], b[o + 1], b[o + 2], b[o + 3]])
}
/// independent oracle: index of the first NUL in s, if any
fn first_nul(s: &[u8]) -> Option<usize> {
    let mut i = 0;
    while i < s.len() {
        if s[i] == 0 {
            return Some(i);
        }
        i += 1;
    }
    None
}
fn is_ascii(s: &[u8]) -> bool {
    let mut i = 0;
    while i < s.len() {
        if s[i] >= 0x80 {
            return false;
        }
        i += 1;
    }
    true
}

// ---- C05 (a): extent of the string part for every well-formed declared size
// 8..=24 in a 32-byte region (all 32 bytes symbolic: padding and the following
// 8 bytes -- the neighbouring tag -- hold arbitrary marker values).
#[kani::proof]
pub fn k_cmdline_extent() {
    let bytes = AlignedBytes(kani::any::<[u8; 32]>());
    let b = &bytes.0;
    kani::assume(le32(b, 0) == 1);
    let size = le32(b, 4) as usize;
    kani::assume(size >= 8 && size <= 24);
    let generic = DynSizedStructure::<TagHeader>::ref_from_slice(&b[..round8(size)]).unwrap();
    let tag = generic.cast::<CommandLineTag>();
    assert!(tag.header.typ == TagType::Cmdline);
    assert!(tag.header.size as usize == size);
    // variable part: starts at byte 8, ends exactly at the declared size
    assert!(tag.cmdline.as_ptr() == b[8..].as_ptr());
    assert!(tag.cmdline.len() == size - 8);
    kani::cover!(size == 13);
    kani::cover!(size == 8);
}

// ---- C05 (b): every declared size (any u32) in a 24-byte region: if the
// typed view is produced at all the size was >= 8 (fixed part) and fits;
// smaller sizes are rejected by the guarded payload_len (controlled panic),
// larger ones by Err(InvalidReportedTotalSize).
#[kani::proof]
pub fn k_cmdline_size_any() {
    let bytes = AlignedBytes(kani::any::<[u8; 24]>());
    let b = &bytes.0;
    kani::assume(le32(b, 0) == 1);
    let size = le32(b, 4) as usize;
    match DynSizedStructure::<TagHeader>::ref_from_slice(&b[..]) {
        Ok(generic) => {
            let tag = generic.cast::<CommandLineTag>();
            assert!(size >= 8 && size <= 24);
            assert!(tag.cmdline.as_ptr() == b[8..].as_ptr());
            assert!(tag.cmdline.len() == size - 8);
        }
        Err(e) => {
            assert!(size > 24);
            assert!(e == multiboot2_common::MemoryError::InvalidReportedTotalSize);
        }
    }
}

// ---- C17/C04: cmdline() on a parsed tag == bytes before the first NUL INSIDE
// the declared size; a NUL that exists only in the padding / next tag does not
// count.  Bounded: string part 0..=6 bytes (size 8..=14), all byte values;
// UTF-8 oracle: ASCII-only text is valid (=> Ok), text containing a byte
// 0xC0/0xC1/0xF5..=0xFF (never valid in UTF-8) or ending in a lone lead byte
// is invalid (=> Err(Utf8)); other non-ASCII texts are only required not to
// panic and to return a prefix of the tag when Ok.
#[kani::proof]
#[kani::unwind(9)]
pub fn k_cmdline_parse() {
    let bytes = AlignedBytes(kani::any::<[u8; 24]>());
    let b = &bytes.0;
    kani::assume(le32(b, 0) == 1);
    let size = le32(b, 4) as usize;
    kani::assume(size >= 8 && size <= 14);
    let generic = DynSizedStructure::<TagHeader>::ref_from_slice(&b[..round8(size)]).unwrap();
    let tag = generic.cast::<CommandLineTag>();
    let content = &b[8..size];
    let r = tag.cmdline();
    match first_nul(content) {
        None => assert!(matches!(r, Err(StringError::MissingNul(_)))),
        Some(n) => {
            let text = &content[..n];
            match r {
                Ok(s) => {
                    assert!(s.as_ptr() == b[8..].as_ptr());
                    assert!(s.len() == n);
                }
                Err(StringError::Utf8(_)) => assert!(!is_ascii(text)),
                Err(StringError::MissingNul(_)) => assert!(false),
            }
            if is_ascii(text) {
                assert!(r.is_ok());
            }
            if n > 0 {
                let l = text[n - 1];
                let never_valid = |x: u8| x == 0xC0 || x == 0xC1 || x >= 0xF5;
                if l >= 0xC2 || never_valid(text[0]) || (text[0] >= 0x80 && text[0] < 0xC0) {
                    // last byte is a lead byte (or invalid), or text starts with
                    // a continuation byte / never-valid byte
                    assert!(matches!(r, Err(StringError::Utf8(_))));
                }
            }
        }
    }
    // NUL only in the padding: must be MissingNul
    kani::cover!(size == 13 && first_nul(content).is_none() && b[13] == 0);
    kani::cover!(size == 14 && matches!(r, Ok(s) if s.len() == 5));
    kani::cover!(matches!(r, Err(StringError::Utf8(_))));
}

// ---- C07/C17: constructor.  Bounded: ASCII text (NUL allowed anywhere) of
// symbolic length 0..=9 (every padding residue), all byte values 0..=0x7f.
#[kani::proof]
#[kani::unwind(12)]
pub fn k_cmdline_new() {
    let raw: [u8; 9] = kani::any();
    let len: usize = kani::any();
    kani::assume(len <= 9);
    let sb = &raw[..len];
    kani::assume(is_ascii(sb));
    // ASCII is valid UTF-8
    let s = unsafe { core::str::from_utf8_unchecked(sb) };
    let tag = CommandLineTag::new(s);
    let ends_nul = len > 0 && sb[len - 1] == 0;
    let want = 8 + len + if ends_nul { 0 } else { 1 };
    assert!(u32::from(tag.header.typ) == 1);
    assert!(tag.header.typ == CommandLineTag::ID);
    assert!(tag.header.size as usize == want);
    let ab = tag.as_bytes();
    let img: &[u8] = *ab;
    assert!(img.len() == round8(want));
    assert!(img.as_ptr() as usize % 8 == 0);
    assert!(le32(img, 0) == 1);
    assert!(le32(img, 4) as usize == want);
    let mut i = 0;
    while i < len {
        assert!(img[8 + i] == sb[i]);
        i += 1;
    }
    assert!(img[want - 1] == 0);
    // read back
    let r = tag.cmdline();
    match first_nul(sb) {
        None => assert!(r == Ok(s)),
        Some(n) => assert!(matches!(r, Ok(t) if t.len() == n && t.as_bytes() == &sb[..n])),
    }
    kani::cover!(len == 9 && !ends_nul);
    kani::cover!(len == 5 && ends_nul);
    kani::cover!(len == 0);
}
