// Engine K harnesses for multiboot2/src/efi.rs (C04 decode, C07 constructor,
// C20 ID table).  Oracle: Multiboot2 spec
//   3.6.12 EFI 32-bit system table pointer: type 11, size 12, u32 pointer @8
//   3.6.13 EFI 64-bit system table pointer: type 12, size 16, u64 pointer @8
//   3.6.19 EFI boot services not terminated: type 18, size 8
//   3.6.20 EFI 32-bit image handle pointer:  type 19, size 12, u32 pointer @8
//   3.6.21 EFI 64-bit image handle pointer:  type 20, size 16, u64 pointer @8
// The accessors return `usize`; Kani compiles for a 64-bit target, so the oracle
// is the zero-extended little-endian field value.
// Loop-free, complete proofs.
use super::*;
use crate::TagTypeId;
use multiboot2_common::test_utils::AlignedBytes;
use multiboot2_common::DynSizedStructure;

fn le32(b: &[u8], o: usize) -> u32 {
    u32::from_le_bytes([b[o], b[o + 1], b[o + 2], b[o + 3]])
}
fn le64(b: &[u8], o: usize) -> u64 {
    u64::from_le_bytes([
        b[o],
        b[o + 1],
        b[o + 2],
        b[o + 3],
        b[o + 4],
        b[o + 5],
        b[o + 6],
        b[o + 7],
    ])
}

// ---- C20 (ID table)
#[kani::proof]
pub fn k_efi_ids() {
    assert!(u32::from(<EFISdt32Tag as Tag>::ID) == 11);
    assert!(u32::from(<EFISdt64Tag as Tag>::ID) == 12);
    assert!(u32::from(<EFIBootServicesNotExitedTag as Tag>::ID) == 18);
    assert!(u32::from(<EFIImageHandle32Tag as Tag>::ID) == 19);
    assert!(u32::from(<EFIImageHandle64Tag as Tag>::ID) == 20);
    assert!(u32::from(TagTypeId::from(<EFISdt32Tag as Tag>::ID)) == 11);
    assert!(u32::from(TagTypeId::from(<EFISdt64Tag as Tag>::ID)) == 12);
    assert!(u32::from(TagTypeId::from(<EFIBootServicesNotExitedTag as Tag>::ID)) == 18);
    assert!(u32::from(TagTypeId::from(<EFIImageHandle32Tag as Tag>::ID)) == 19);
    assert!(u32::from(TagTypeId::from(<EFIImageHandle64Tag as Tag>::ID)) == 20);
}

// ---- C04: decode
#[kani::proof]
pub fn k_efi_sdt32_decode() {
    let bytes = AlignedBytes(kani::any::<[u8; 16]>()); // round8(12)
    let b = &bytes.0;
    kani::assume(le32(b, 0) == 11);
    kani::assume(le32(b, 4) == 12);
    let generic = DynSizedStructure::<TagHeader>::ref_from_slice(&b[..]).unwrap();
    let tag = generic.cast::<EFISdt32Tag>();
    assert!(core::ptr::addr_of!(*tag).cast::<u8>() == b.as_ptr());
    assert!(core::mem::size_of_val(tag) == 16);
    assert!(u32::from(tag.header().typ) == 11);
    assert!(tag.header().size == 12);
    assert!(tag.sdt_address() == le32(b, 8) as usize);
    kani::cover!(tag.sdt_address() == 0xfedc_ba98);
}

#[kani::proof]
pub fn k_efi_sdt64_decode() {
    let bytes = AlignedBytes(kani::any::<[u8; 16]>());
    let b = &bytes.0;
    kani::assume(le32(b, 0) == 12);
    kani::assume(le32(b, 4) == 16);
    let generic = DynSizedStructure::<TagHeader>::ref_from_slice(&b[..]).unwrap();
    let tag = generic.cast::<EFISdt64Tag>();
    assert!(core::ptr::addr_of!(*tag).cast::<u8>() == b.as_ptr());
    assert!(core::mem::size_of_val(tag) == 16);
    assert!(u32::from(tag.header().typ) == 12);
    assert!(tag.header().size == 16);
    assert!(tag.sdt_address() == le64(b, 8) as usize);
    assert!(tag.sdt_address() as u64 == le64(b, 8));
    kani::cover!(tag.sdt_address() == 0x0123_4567_89ab_cdef);
}

#[kani::proof]
pub fn k_efi_ih32_decode() {
    let bytes = AlignedBytes(kani::any::<[u8; 16]>()); // round8(12)
    let b = &bytes.0;
    kani::assume(le32(b, 0) == 19);
    kani::assume(le32(b, 4) == 12);
    let generic = DynSizedStructure::<TagHeader>::ref_from_slice(&b[..]).unwrap();
    let tag = generic.cast::<EFIImageHandle32Tag>();
    assert!(core::ptr::addr_of!(*tag).cast::<u8>() == b.as_ptr());
    assert!(core::mem::size_of_val(tag) == 16);
    assert!(u32::from(tag.header().typ) == 19);
    assert!(tag.header().size == 12);
    assert!(tag.image_handle() == le32(b, 8) as usize);
    kani::cover!(tag.image_handle() == 0xfedc_ba98);
}

#[kani::proof]
pub fn k_efi_ih64_decode() {
    let bytes = AlignedBytes(kani::any::<[u8; 16]>());
    let b = &bytes.0;
    kani::assume(le32(b, 0) == 20);
    kani::assume(le32(b, 4) == 16);
    let generic = DynSizedStructure::<TagHeader>::ref_from_slice(&b[..]).unwrap();
    let tag = generic.cast::<EFIImageHandle64Tag>();
    assert!(core::ptr::addr_of!(*tag).cast::<u8>() == b.as_ptr());
    assert!(core::mem::size_of_val(tag) == 16);
    assert!(u32::from(tag.header().typ) == 20);
    assert!(tag.header().size == 16);
    assert!(tag.image_handle() == le64(b, 8) as usize);
    assert!(tag.image_handle() as u64 == le64(b, 8));
    kani::cover!(tag.image_handle() == 0x0123_4567_89ab_cdef);
}

#[kani::proof]
pub fn k_efi_bs_decode() {
    let bytes = AlignedBytes(kani::any::<[u8; 8]>());
    let b = &bytes.0;
    kani::assume(le32(b, 0) == 18);
    kani::assume(le32(b, 4) == 8);
    let generic = DynSizedStructure::<TagHeader>::ref_from_slice(&b[..]).unwrap();
    let tag = generic.cast::<EFIBootServicesNotExitedTag>();
    assert!(core::ptr::addr_of!(*tag).cast::<u8>() == b.as_ptr());
    assert!(core::mem::size_of_val(tag) == 8);
    assert!(u32::from(tag.header().typ) == 18);
    assert!(tag.header().size == 8);
    assert!(tag.payload().is_empty());
    kani::cover!(true);
}

// ---- C07: constructors
fn check32(by: &[u8], typ: u32, p: u32) {
    assert!(by.len() >= 12);
    assert!(by[0..4] == typ.to_le_bytes());
    assert!(by[4..8] == 12u32.to_le_bytes());
    assert!(by[8..12] == p.to_le_bytes());
}
fn check64(by: &[u8], typ: u32, p: u64) {
    assert!(by.len() >= 16);
    assert!(by[0..4] == typ.to_le_bytes());
    assert!(by[4..8] == 16u32.to_le_bytes());
    assert!(by[8..16] == p.to_le_bytes());
}

#[kani::proof]
pub fn k_efi_sdt32_new_image() {
    let p: u32 = kani::any();
    let tag = EFISdt32Tag::new(p);
    assert!(core::mem::align_of::<EFISdt32Tag>() == 8);
    assert!(u32::from(tag.header().typ) == 11);
    assert!(tag.header().typ == <EFISdt32Tag as Tag>::ID);
    assert!(tag.header().size == 12);
    check32(&tag.as_bytes(), 11, p);
    assert!(tag.sdt_address() == p as usize);
    let arr = [EFISdt32Tag::new(0), EFISdt32Tag::new(p)];
    check32(&arr[1].as_bytes(), 11, p);
}

#[kani::proof]
pub fn k_efi_sdt64_new_image() {
    let p: u64 = kani::any();
    let tag = EFISdt64Tag::new(p);
    assert!(core::mem::align_of::<EFISdt64Tag>() == 8);
    assert!(u32::from(tag.header().typ) == 12);
    assert!(tag.header().typ == <EFISdt64Tag as Tag>::ID);
    assert!(tag.header().size == 16);
    check64(&tag.as_bytes(), 12, p);
    assert!(tag.sdt_address() as u64 == p);
    let arr = [EFISdt64Tag::new(0), EFISdt64Tag::new(p)];
    check64(&arr[1].as_bytes(), 12, p);
}

#[kani::proof]
pub fn k_efi_ih32_new_image() {
    let p: u32 = kani::any();
    let tag = EFIImageHandle32Tag::new(p);
    assert!(core::mem::align_of::<EFIImageHandle32Tag>() == 8);
    assert!(u32::from(tag.header().typ) == 19);
    assert!(tag.header().typ == <EFIImageHandle32Tag as Tag>::ID);
    assert!(tag.header().size == 12);
    check32(&tag.as_bytes(), 19, p);
    assert!(tag.image_handle() == p as usize);
    let arr = [EFIImageHandle32Tag::new(0), EFIImageHandle32Tag::new(p)];
    check32(&arr[1].as_bytes(), 19, p);
}

#[kani::proof]
pub fn k_efi_ih64_new_image() {
    let p: u64 = kani::any();
    let tag = EFIImageHandle64Tag::new(p);
    assert!(core::mem::align_of::<EFIImageHandle64Tag>() == 8);
    assert!(u32::from(tag.header().typ) == 20);
    assert!(tag.header().typ == <EFIImageHandle64Tag as Tag>::ID);
    assert!(tag.header().size == 16);
    check64(&tag.as_bytes(), 20, p);
    assert!(tag.image_handle() as u64 == p);
    let arr = [EFIImageHandle64Tag::new(0), EFIImageHandle64Tag::new(p)];
    check64(&arr[1].as_bytes(), 20, p);
}

#[kani::proof]
pub fn k_efi_bs_new_image() {
    let tag = EFIBootServicesNotExitedTag::new();
    let dft = EFIBootServicesNotExitedTag::default();
    assert!(core::mem::align_of::<EFIBootServicesNotExitedTag>() == 8);
    assert!(u32::from(tag.header().typ) == 18);
    assert!(tag.header().typ == <EFIBootServicesNotExitedTag as Tag>::ID);
    assert!(tag.header().size == 8);
    let by = tag.as_bytes();
    assert!(by.len() == 8);
    assert!(by[0..4] == 18u32.to_le_bytes());
    assert!(by[4..8] == 8u32.to_le_bytes());
    let arr = [dft, tag];
    let by1 = arr[1].as_bytes();
    assert!(by1[0..4] == 18u32.to_le_bytes());
    assert!(by1[4..8] == 8u32.to_le_bytes());
    let by0 = arr[0].as_bytes();
    assert!(by0[0..4] == 18u32.to_le_bytes());
    assert!(by0[4..8] == 8u32.to_le_bytes());
}
