// Engine K harnesses for multiboot2/src/elf_sections.rs (C19, C20, C01).
// Kani cannot compile anything that mentions ElfSectionsTag (ICE on its layout),
// but ElfSection / ElfSectionIter do not mention the tag type: they are built
// directly over symbolic bytes here (fields are visible to this child module).
use super::*;
use multiboot2_common::test_utils::AlignedBytes;

fn le32(b: &[u8], o: usize) -> u32 {
    u32::from_le_bytes([b[o], b[o + 1], b[o + 2], b[o + 3]])
}
fn le64(b: &[u8], o: usize) -> u64 {
    u64::from_le_bytes([b[o], b[o + 1], b[o + 2], b[o + 3], b[o + 4], b[o + 5], b[o + 6], b[o + 7]])
}

/// specification oracle (ELF gABI sh_type values and reserved ranges)
fn spec_type(t: u32) -> ElfSectionType {
    match t {
        0 => ElfSectionType::Unused,
        1 => ElfSectionType::ProgramSection,
        2 => ElfSectionType::LinkerSymbolTable,
        3 => ElfSectionType::StringTable,
        4 => ElfSectionType::RelaRelocation,
        5 => ElfSectionType::SymbolHashTable,
        6 => ElfSectionType::DynamicLinkingTable,
        7 => ElfSectionType::Note,
        8 => ElfSectionType::Uninitialized,
        9 => ElfSectionType::RelRelocation,
        10 => ElfSectionType::Reserved,
        11 => ElfSectionType::DynamicLoaderSymbolTable,
        0x6000_0000..=0x6FFF_FFFF => ElfSectionType::EnvironmentSpecific,
        0x7000_0000..=0x7FFF_FFFF => ElfSectionType::ProcessorSpecific,
        _ => ElfSectionType::Unused,
    }
}

// ---- C19: ELF32 entry (40 bytes): every accessor decodes the Elf32_Shdr field at its
// specified offset: name 0, type 4, flags 8, addr 12, offset 16, size 20, link 24, info 28,
// addralign 32, entsize 36.  Loop-free over all 40 bytes: complete.
#[kani::proof]
pub fn k_elf32_entry_decode() {
    let e = AlignedBytes(kani::any::<[u8; 40]>());
    let b = &e.0;
    let s = ElfSection { inner: b.as_ptr(), string_section: b.as_ptr(), entry_size: 40, _phantom: PhantomData };
    assert!(s.section_type_raw() == le32(b, 4));
    assert!(s.section_type() == spec_type(le32(b, 4)));
    assert!(s.flags().bits() == (le32(b, 8) as u64) & 0x7);
    assert!(s.start_address() == le32(b, 12) as u64);
    assert!(s.size() == le32(b, 20) as u64);
    assert!(s.addralign() == le32(b, 32) as u64);
    assert!(s.is_allocated() == (le32(b, 8) & 0x2 != 0));
    // end_address adds two u32-derived values: cannot overflow for ELF32
    assert!(s.end_address() == le32(b, 12) as u64 + le32(b, 20) as u64);
}

// ---- C19: ELF64 entry (64 bytes): Elf64_Shdr offsets: name 0, type 4, flags 8, addr 16,
// offset 24, size 32, link 40, info 44, addralign 48, entsize 56.
#[kani::proof]
pub fn k_elf64_entry_decode() {
    let e = AlignedBytes(kani::any::<[u8; 64]>());
    let b = &e.0;
    let s = ElfSection { inner: b.as_ptr(), string_section: b.as_ptr(), entry_size: 64, _phantom: PhantomData };
    assert!(s.section_type_raw() == le32(b, 4));
    assert!(s.section_type() == spec_type(le32(b, 4)));
    assert!(s.flags().bits() == le64(b, 8) & 0x7);
    assert!(s.start_address() == le64(b, 16));
    assert!(s.size() == le64(b, 32));
    assert!(s.addralign() == le64(b, 48));
    assert!(s.is_allocated() == (le64(b, 8) & 0x2 != 0));
}

// ---- C19/C20: classification of ALL raw types; entry sizes other than 40/64 are a controlled panic
#[kani::proof]
pub fn k_elf_entry_size_rejected() {
    let e = AlignedBytes(kani::any::<[u8; 64]>());
    let es: u32 = kani::any();
    let s = ElfSection { inner: e.0.as_ptr(), string_section: e.0.as_ptr(), entry_size: es, _phantom: PhantomData };
    let _ = s.section_type_raw();
    assert!(es == 40 || es == 64);   // if it returns, the entry size was one of the two layouts
}

// ---- C19: iteration over three entries built directly: yields, in order, exactly the entries
// whose raw type is a recognised in-use type; each item points at base + k*entry_size.
#[kani::proof]
#[kani::unwind(5)]
pub fn k_elf_iter_order_64() {
    let e = AlignedBytes(kani::any::<[u8; 192]>());
    let b = &e.0;
    let mut it = ElfSectionIter { current_section: b.as_ptr(), remaining_sections: 3, entry_size: 64,
        string_section: b.as_ptr(), _phantom_data: PhantomData };
    let mut expect = 0usize;
    let mut yielded = 0;
    while let Some(s) = it.next() {
        // skip the unused ones in the oracle
        while expect < 3 && spec_type(le32(b, expect * 64 + 4)) == ElfSectionType::Unused {
            expect += 1;
        }
        assert!(expect < 3);
        assert!(s.inner == unsafe { b.as_ptr().add(expect * 64) });
        assert!(s.entry_size == 64);
        assert!(s.section_type_raw() == le32(b, expect * 64 + 4));
        expect += 1;
        yielded += 1;
    }
    while expect < 3 && spec_type(le32(b, expect * 64 + 4)) == ElfSectionType::Unused {
        expect += 1;
    }
    assert!(expect == 3);
    assert!(it.next().is_none());
    kani::cover!(yielded == 2);
}

#[kani::proof]
#[kani::unwind(5)]
pub fn k_elf_iter_order_32() {
    let e = AlignedBytes(kani::any::<[u8; 120]>());
    let b = &e.0;
    let mut it = ElfSectionIter { current_section: b.as_ptr(), remaining_sections: 3, entry_size: 40,
        string_section: b.as_ptr(), _phantom_data: PhantomData };
    let mut expect = 0usize;
    while let Some(s) = it.next() {
        while expect < 3 && spec_type(le32(b, expect * 40 + 4)) == ElfSectionType::Unused {
            expect += 1;
        }
        assert!(expect < 3);
        assert!(s.inner == unsafe { b.as_ptr().add(expect * 40) });
        assert!(s.addralign() == le32(b, expect * 40 + 32) as u64);
        expect += 1;
    }
    while expect < 3 && spec_type(le32(b, expect * 40 + 4)) == ElfSectionType::Unused {
        expect += 1;
    }
    assert!(expect == 3);
}

// ---- C19: provided Iterator methods (nth / skip / count / last) agree with repeated next()
#[kani::proof]
#[kani::unwind(5)]
pub fn k_elf_iter_provided_methods() {
    let e = AlignedBytes(kani::any::<[u8; 192]>());
    let b = &e.0;
    let mk = || ElfSectionIter { current_section: b.as_ptr(), remaining_sections: 3, entry_size: 64,
        string_section: b.as_ptr(), _phantom_data: PhantomData };
    // oracle: indices of the in-use entries, in order
    let used = [spec_type(le32(b, 4)) != ElfSectionType::Unused, spec_type(le32(b, 68)) != ElfSectionType::Unused,
                spec_type(le32(b, 132)) != ElfSectionType::Unused];
    let mut idx = [3usize; 3];
    let mut c = 0;
    let mut j = 0;
    while j < 3 {
        if used[j] {
            idx[c] = j;
            c += 1;
        }
        j += 1;
    }
    assert!(mk().count() == c);
    let n: usize = kani::any();
    kani::assume(n <= 3);
    let got = mk().nth(n).map(|s| s.inner as usize);
    let want = if n < c { Some(b.as_ptr() as usize + idx[n] * 64) } else { None };
    assert!(got == want);
    assert!(mk().skip(c).next().is_none());
    assert!(mk().last().map(|s| s.inner as usize) == if c > 0 { Some(b.as_ptr() as usize + idx[c - 1] * 64) } else { None });
    // a clone taken after one step is the same iterator state (position, count, entry size, string-table entry)
    let mut it2 = mk();
    let _ = it2.next();
    let cl = it2.clone();
    assert!(cl.current_section == it2.current_section);
    assert!(cl.remaining_sections == it2.remaining_sections);
    assert!(cl.entry_size == it2.entry_size);
    assert!(cl.string_section == it2.string_section);
    kani::cover!(c == 2 && n == 1 && !used[0]);
}
