// Engine K harnesses for multiboot2/src/end.rs (C04 decode, C07 constructor,
// C20 ID table).  Oracle: Multiboot2 spec 3.6.2 terminating tag: type = 0, size = 8.
// Loop-free, complete proofs.
use super::*;
use crate::TagTypeId;
use multiboot2_common::test_utils::AlignedBytes;
use multiboot2_common::DynSizedStructure;

fn le32(b: &[u8], o: usize) -> u32 {
    u32::from_le_bytes([b[o], b[o + 1], b[o + 2], b[o + 3]])
}

// ---- C20 (ID table)
#[kani::proof]
pub fn k_end_id() {
    assert!(u32::from(<EndTag as Tag>::ID) == 0);
    assert!(u32::from(TagTypeId::from(<EndTag as Tag>::ID)) == 0);
}

// ---- C04
#[kani::proof]
pub fn k_end_decode() {
    let bytes = AlignedBytes(kani::any::<[u8; 8]>());
    let b = &bytes.0;
    kani::assume(le32(b, 0) == 0);
    kani::assume(le32(b, 4) == 8);
    let generic = DynSizedStructure::<TagHeader>::ref_from_slice(&b[..]).unwrap();
    let tag = generic.cast::<EndTag>();
    assert!(core::ptr::addr_of!(*tag).cast::<u8>() == b.as_ptr());
    assert!(core::mem::size_of_val(tag) == 8);
    assert!(u32::from(tag.header().typ) == 0);
    assert!(tag.header().size == 8);
    assert!(tag.payload().is_empty());
    kani::cover!(true);
}

// ---- C07
#[kani::proof]
pub fn k_end_default_image() {
    let tag = EndTag::default();
    assert!(core::mem::align_of::<EndTag>() == 8);
    assert!(u32::from(tag.header().typ) == 0);
    assert!(tag.header().typ == <EndTag as Tag>::ID);
    assert!(tag.header().size == 8);
    let by = tag.as_bytes();
    assert!(by.len() == 8);
    assert!(by[0..4] == 0u32.to_le_bytes());
    assert!(by[4..8] == 8u32.to_le_bytes());
    let arr = [EndTag::default(), EndTag::default()];
    let by1 = arr[1].as_bytes();
    assert!(by1[0..4] == 0u32.to_le_bytes());
    assert!(by1[4..8] == 8u32.to_le_bytes());
}
