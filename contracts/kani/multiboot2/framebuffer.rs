// Engine K harnesses for multiboot2/src/framebuffer.rs (C01/C04/C05/C07).
//
// Oracle = Multiboot2 spec 3.6.12 "Framebuffer info":
//   u32 type = 8 @0, u32 size @4, u64 framebuffer_addr @8, u32 framebuffer_pitch @16,
//   u32 framebuffer_width @20, u32 framebuffer_height @24, u8 framebuffer_bpp @28,
//   u8 framebuffer_type @29, reserved, then color_info.
// Source for the width of `reserved` and of the palette count: the table in the
// prose of 3.6.12 prints "u8 reserved" and "u32 framebuffer_palette_num_colors",
// but the normative C header of the same document (section 4.1, multiboot2.h,
// `struct multiboot_tag_framebuffer_common` / `struct multiboot_tag_framebuffer`)
// declares `multiboot_uint16_t reserved;` and
// `multiboot_uint16_t framebuffer_palette_num_colors; struct multiboot_color
// framebuffer_palette[0];` (multiboot_color = three u8 red, green, blue), and
// that is what GRUB and Limine emit.  The harnesses follow the C header:
// reserved = u16 @30, color_info starts at byte 32;
//   type 0 (indexed): u16 num_colors @32, then num_colors x {u8 r, u8 g, u8 b} from @34
//   type 1 (RGB): u8 red_pos @32, red_size @33, green_pos @34, green_size @35, blue_pos @36, blue_size @37
//   type 2 (EGA text): nothing.
use super::*;
use multiboot2_common::test_utils::AlignedBytes;
use multiboot2_common::DynSizedStructure;

fn round8(n: usize) -> usize {
    (n + 7) / 8 * 8
}
fn le32(b: &[u8], o: usize) -> u32 {
    u32::from_le_bytes([b[o], b[o + 1], b[o + 2], b[o + 3]])
}
fn le64(b: &[u8], o: usize) -> u64 {
    u64::from_le_bytes([b[o], b[o + 1], b[o + 2], b[o + 3], b[o + 4], b[o + 5], b[o + 6], b[o + 7]])
}
fn le16(b: &[u8], o: usize) -> u16 {
    u16::from_le_bytes([b[o], b[o + 1]])
}

fn view<const N: usize>(bytes: &AlignedBytes<N>, size: usize) -> &FramebufferTag {
    let generic = DynSizedStructure::<TagHeader>::ref_from_slice(&bytes.0[..round8(size)]).unwrap();
    generic.cast::<FramebufferTag>()
}

// ---- C04/C05 (a): fixed fields and extent of the colour info for every
// well-formed declared size 32..=48 in a 56-byte region (all bytes symbolic:
// padding and the neighbouring 8 bytes hold arbitrary marker values).
#[kani::proof]
pub fn k_fb_decode_extent() {
    let bytes = AlignedBytes(kani::any::<[u8; 56]>());
    let b = &bytes.0;
    kani::assume(le32(b, 0) == 8);
    let size = le32(b, 4) as usize;
    kani::assume(size >= 32 && size <= 48);
    kani::assume(b[29] <= 2); // the field is enum typed
    let tag = view(&bytes, size);
    assert!(tag.header.typ == TagType::Framebuffer);
    assert!(tag.header.size as usize == size);
    assert!(tag.address() == le64(b, 8));
    assert!(tag.pitch() == le32(b, 16));
    assert!(tag.width() == le32(b, 20));
    assert!(tag.height() == le32(b, 24));
    assert!(tag.bpp() == b[28]);
    assert!(tag.framebuffer_type as u8 == b[29]);
    assert!(tag.buffer.as_ptr() == b[32..].as_ptr());
    assert!(tag.buffer.len() == size - 32);
    kani::cover!(size == 38);
    kani::cover!(size == 32);
}

// ---- C05 (b): every declared size (any u32) in a 40-byte region: a typed view
// is only produced for 32 <= size <= 40.
#[kani::proof]
pub fn k_fb_size_any() {
    let bytes = AlignedBytes(kani::any::<[u8; 40]>());
    let b = &bytes.0;
    kani::assume(le32(b, 0) == 8);
    kani::assume(b[29] <= 2);
    let size = le32(b, 4) as usize;
    match DynSizedStructure::<TagHeader>::ref_from_slice(&b[..]) {
        Ok(generic) => {
            let tag = generic.cast::<FramebufferTag>();
            assert!(size >= 32 && size <= 40);
            assert!(tag.buffer.as_ptr() == b[32..].as_ptr());
            assert!(tag.buffer.len() == size - 32);
        }
        Err(e) => {
            assert!(size > 40);
            assert!(e == multiboot2_common::MemoryError::InvalidReportedTotalSize);
        }
    }
}

// ---- C04: buffer_type() for ALL 256 values of the type byte (tag of size 40,
// i.e. 8 bytes of colour info, all bytes symbolic): Err(UnknownFramebufferType(b))
// iff b > 2, never a known type for b > 2; known types for 0, 1, 2.
// NOTE (tool limit): the type byte is read through an enum-typed field; Kani
// models that read as a plain byte read (no valid-value check available), so
// this harness checks the source-level logic only, not what an optimising
// compiler may do with the undefined behaviour for b > 2.
#[kani::proof]
#[kani::unwind(4)]
pub fn k_fb_type_all_bytes() {
    let bytes = AlignedBytes(kani::any::<[u8; 40]>());
    let b = &bytes.0;
    kani::assume(le32(b, 0) == 8);
    kani::assume(le32(b, 4) == 40);
    kani::assume(le16(b, 32) <= 2); // palette (if indexed) fits
    let tag = view(&bytes, 40);
    let t = b[29];
    let r = tag.buffer_type();
    match r {
        Err(UnknownFramebufferType(x)) => assert!(t > 2 && x == t),
        Ok(FramebufferType::Indexed { .. }) => assert!(t == 0),
        Ok(FramebufferType::RGB { .. }) => assert!(t == 1),
        Ok(FramebufferType::Text) => assert!(t == 2),
    }
    kani::cover!(t == 3);
    kani::cover!(t == 255);
    kani::cover!(t == 2);
}

// ---- C04/C05 (a): indexed palette, well-formed: stored count n with
// 34 + 3n <= size; size 34..=48: the palette is the n triples from byte 34.
#[kani::proof]
#[kani::unwind(6)]
pub fn k_fb_indexed_wellformed() {
    let bytes = AlignedBytes(kani::any::<[u8; 56]>());
    let b = &bytes.0;
    kani::assume(le32(b, 0) == 8);
    let size = le32(b, 4) as usize;
    kani::assume(size >= 34 && size <= 48);
    kani::assume(b[29] == 0);
    let n = le16(b, 32) as usize;
    kani::assume(34 + 3 * n <= size);
    let tag = view(&bytes, size);
    match tag.buffer_type() {
        Ok(FramebufferType::Indexed { palette }) => {
            assert!(palette.len() == n);
            assert!(palette.as_ptr().cast::<u8>() == b[34..].as_ptr());
            let mut i = 0;
            while i < n {
                assert!(palette[i].red == b[34 + 3 * i]);
                assert!(palette[i].green == b[35 + 3 * i]);
                assert!(palette[i].blue == b[36 + 3 * i]);
                i += 1;
            }
        }
        _ => assert!(false),
    }
    kani::cover!(n == 4 && size == 46);
    kani::cover!(n == 0 && size == 34);
}

// ---- C01/C05 (b): indexed palette, ALL stored counts (any u16) and all
// declared sizes 32..=48: whatever slice is handed out must lie entirely
// inside the tag (34 + 3 * len <= size); otherwise a controlled panic.
#[kani::proof]
pub fn k_fb_indexed_palette_inside_tag() {
    let bytes = AlignedBytes(kani::any::<[u8; 56]>());
    let b = &bytes.0;
    kani::assume(le32(b, 0) == 8);
    let size = le32(b, 4) as usize;
    kani::assume(size >= 32 && size <= 48);
    kani::assume(b[29] == 0);
    let tag = view(&bytes, size);
    match tag.buffer_type() {
        Ok(FramebufferType::Indexed { palette }) => {
            assert!(size >= 34);
            assert!(palette.as_ptr().cast::<u8>() == b[34..].as_ptr());
            assert!(34 + 3 * palette.len() <= size);
        }
        _ => assert!(false),
    }
}

// ---- C04 (a): RGB colour info decodes from bytes 32..38 (size 38..=48).
#[kani::proof]
pub fn k_fb_rgb_decode() {
    let bytes = AlignedBytes(kani::any::<[u8; 56]>());
    let b = &bytes.0;
    kani::assume(le32(b, 0) == 8);
    let size = le32(b, 4) as usize;
    kani::assume(size >= 38 && size <= 48);
    kani::assume(b[29] == 1);
    let tag = view(&bytes, size);
    match tag.buffer_type() {
        Ok(FramebufferType::RGB { red, green, blue }) => {
            assert!(red.position == b[32] && red.size == b[33]);
            assert!(green.position == b[34] && green.size == b[35]);
            assert!(blue.position == b[36] && blue.size == b[37]);
        }
        _ => assert!(false),
    }
    kani::cover!(size == 38);
}

// ---- C05 (b): RGB colour info with any declared size 32..=48: a result is
// only produced if the six bytes lie inside the tag (size >= 38); otherwise
// the bounds-checked Reader panics (controlled).
#[kani::proof]
pub fn k_fb_rgb_size_any() {
    let bytes = AlignedBytes(kani::any::<[u8; 56]>());
    let b = &bytes.0;
    kani::assume(le32(b, 0) == 8);
    let size = le32(b, 4) as usize;
    kani::assume(size >= 32 && size <= 48);
    kani::assume(b[29] == 1);
    let tag = view(&bytes, size);
    let r = tag.buffer_type();
    assert!(size >= 38);
    assert!(matches!(r, Ok(FramebufferType::RGB { .. })));
}

// ---- C04: EGA text has no colour info, any size 32..=48.
#[kani::proof]
pub fn k_fb_text() {
    let bytes = AlignedBytes(kani::any::<[u8; 56]>());
    let b = &bytes.0;
    kani::assume(le32(b, 0) == 8);
    let size = le32(b, 4) as usize;
    kani::assume(size >= 32 && size <= 48);
    kani::assume(b[29] == 2);
    let tag = view(&bytes, size);
    assert!(matches!(tag.buffer_type(), Ok(FramebufferType::Text)));
}

fn check_fixed(img: &[u8], want: usize, address: u64, pitch: u32, width: u32, height: u32, bpp: u8, ty: u8) {
    assert!(img.len() == round8(want));
    assert!(img.as_ptr() as usize % 8 == 0);
    assert!(le32(img, 0) == 8);
    assert!(le32(img, 4) as usize == want);
    assert!(le64(img, 8) == address);
    assert!(le32(img, 16) == pitch);
    assert!(le32(img, 20) == width);
    assert!(le32(img, 24) == height);
    assert!(img[28] == bpp);
    assert!(img[29] == ty);
    assert!(img[30] == 0 && img[31] == 0);
}

// ---- C07: constructor, EGA text: all argument values; size 32.
#[kani::proof]
#[kani::unwind(10)]
pub fn k_fb_new_text() {
    let (address, pitch, width, height, bpp): (u64, u32, u32, u32, u8) = kani::any();
    let tag = FramebufferTag::new(address, pitch, width, height, bpp, FramebufferType::Text);
    assert!(u32::from(tag.header.typ) == 8);
    assert!(tag.header.typ == FramebufferTag::ID);
    assert!(tag.header.size == 32);
    let ab = tag.as_bytes();
    check_fixed(*ab, 32, address, pitch, width, height, bpp, 2);
    assert!(tag.address() == address && tag.pitch() == pitch && tag.width() == width);
    assert!(tag.height() == height && tag.bpp() == bpp);
    assert!(matches!(tag.buffer_type(), Ok(FramebufferType::Text)));
}

// ---- C07: constructor, RGB: all argument values; size 38.
#[kani::proof]
#[kani::unwind(10)]
pub fn k_fb_new_rgb() {
    let (address, pitch, width, height, bpp): (u64, u32, u32, u32, u8) = kani::any();
    let f: [u8; 6] = kani::any();
    let ty = FramebufferType::RGB {
        red: FramebufferField { position: f[0], size: f[1] },
        green: FramebufferField { position: f[2], size: f[3] },
        blue: FramebufferField { position: f[4], size: f[5] },
    };
    let tag = FramebufferTag::new(address, pitch, width, height, bpp, ty.clone());
    assert!(u32::from(tag.header.typ) == 8);
    assert!(tag.header.size == 38);
    let ab = tag.as_bytes();
    let img: &[u8] = *ab;
    check_fixed(img, 38, address, pitch, width, height, bpp, 1);
    assert!(img[32] == f[0] && img[33] == f[1] && img[34] == f[2]);
    assert!(img[35] == f[3] && img[36] == f[4] && img[37] == f[5]);
    assert!(tag.address() == address && tag.pitch() == pitch && tag.width() == width);
    assert!(tag.height() == height && tag.bpp() == bpp);
    assert!(tag.buffer_type() == Ok(ty));
}

// ---- C07: constructor, indexed: all argument values, palette of symbolic
// length 0..=3 with symbolic colours; size 34 + 3n.
#[kani::proof]
#[kani::unwind(12)]
pub fn k_fb_new_indexed() {
    let (address, pitch, width, height, bpp): (u64, u32, u32, u32, u8) = kani::any();
    let c: [u8; 9] = kani::any();
    let colors = [
        FramebufferColor { red: c[0], green: c[1], blue: c[2] },
        FramebufferColor { red: c[3], green: c[4], blue: c[5] },
        FramebufferColor { red: c[6], green: c[7], blue: c[8] },
    ];
    let n: usize = kani::any();
    kani::assume(n <= 3);
    let ty = FramebufferType::Indexed { palette: &colors[..n] };
    let tag = FramebufferTag::new(address, pitch, width, height, bpp, ty);
    let want = 34 + 3 * n;
    assert!(u32::from(tag.header.typ) == 8);
    assert!(tag.header.size as usize == want);
    let ab = tag.as_bytes();
    let img: &[u8] = *ab;
    check_fixed(img, want, address, pitch, width, height, bpp, 0);
    assert!(le16(img, 32) as usize == n);
    let mut i = 0;
    while i < 3 * n {
        assert!(img[34 + i] == c[i]);
        i += 1;
    }
    match tag.buffer_type() {
        Ok(FramebufferType::Indexed { palette }) => {
            assert!(palette.len() == n);
            let mut i = 0;
            while i < n {
                assert!(palette[i] == colors[i]);
                i += 1;
            }
        }
        _ => assert!(false),
    }
    kani::cover!(n == 3);
    kani::cover!(n == 0);
}

// ---- C04: BootInformation::framebuffer_tag() on a loaded boot information
// { total_size = 56, reserved, framebuffer tag (size 40), end tag } for all 256
// type bytes: Some(Ok(tag at offset 8)) iff byte <= 2, Some(Err(Unknown(b)))
// otherwise.  (Same tool limit as k_fb_type_all_bytes.)
#[kani::proof]
#[kani::unwind(6)]
pub fn k_fb_bootinfo_getter() {
    let mut bytes = AlignedBytes(kani::any::<[u8; 56]>());
    {
        let b = &bytes.0;
        kani::assume(le32(b, 0) == 56);
        kani::assume(le32(b, 8) == 8 && le32(b, 12) == 40);
        kani::assume(le16(b, 40) <= 2);
        kani::assume(le32(b, 48) == 0 && le32(b, 52) == 8);
    }
    let b = &bytes.0;
    let bi = unsafe { crate::BootInformation::load(b.as_ptr().cast()) }.unwrap();
    let t = b[8 + 29];
    match bi.framebuffer_tag() {
        None => assert!(false),
        Some(Ok(tag)) => {
            assert!(t <= 2);
            assert!(core::ptr::addr_of!(*tag).cast::<u8>() == b[8..].as_ptr());
            assert!(tag.buffer.len() == 8);
            assert!(tag.pitch() == le32(b, 8 + 16));
        }
        Some(Err(UnknownFramebufferType(x))) => assert!(t > 2 && x == t),
    }
    kani::cover!(t == 7);
    kani::cover!(t == 1);
}
