// Engine K harnesses for multiboot2/src/image_load_addr.rs (C04 decode, C07
// constructor, C20 ID table).  Oracle: Multiboot2 spec 3.6.16 "Image load base
// physical address": type = 21, size = 12, u32 load_base_addr @8.
// Loop-free, complete proofs.
use super::*;
use crate::TagTypeId;
use multiboot2_common::test_utils::AlignedBytes;
use multiboot2_common::DynSizedStructure;

fn le32(b: &[u8], o: usize) -> u32 {
    u32::from_le_bytes([b[o], b[o + 1], b[o + 2], b[o + 3]])
}

// ---- C20 (ID table)
#[kani::proof]
pub fn k_loadaddr_id() {
    assert!(u32::from(<ImageLoadPhysAddrTag as Tag>::ID) == 21);
    assert!(u32::from(TagTypeId::from(<ImageLoadPhysAddrTag as Tag>::ID)) == 21);
}

// ---- C04
#[kani::proof]
pub fn k_loadaddr_decode() {
    let bytes = AlignedBytes(kani::any::<[u8; 16]>()); // round8(12)
    let b = &bytes.0;
    kani::assume(le32(b, 0) == 21);
    kani::assume(le32(b, 4) == 12);
    let generic = DynSizedStructure::<TagHeader>::ref_from_slice(&b[..]).unwrap();
    let tag = generic.cast::<ImageLoadPhysAddrTag>();
    assert!(core::ptr::addr_of!(*tag).cast::<u8>() == b.as_ptr());
    assert!(core::mem::size_of_val(tag) == 16);
    assert!(u32::from(tag.header().typ) == 21);
    assert!(tag.header().size == 12);
    assert!(tag.load_base_addr() == le32(b, 8));
    kani::cover!(tag.load_base_addr() == 0x0010_0000);
}

fn check_image(by: &[u8], addr: u32) {
    assert!(by.len() >= 12);
    assert!(by[0..4] == 21u32.to_le_bytes());
    assert!(by[4..8] == 12u32.to_le_bytes());
    assert!(by[8..12] == addr.to_le_bytes());
}

// ---- C07
#[kani::proof]
pub fn k_loadaddr_new_image() {
    let addr: u32 = kani::any();
    let tag = ImageLoadPhysAddrTag::new(addr);
    assert!(core::mem::align_of::<ImageLoadPhysAddrTag>() == 8);
    assert!(u32::from(tag.header().typ) == 21);
    assert!(tag.header().typ == <ImageLoadPhysAddrTag as Tag>::ID);
    assert!(tag.header().size == 12);
    check_image(&tag.as_bytes(), addr);
    assert!(tag.load_base_addr() == addr);
    let arr = [ImageLoadPhysAddrTag::new(0), ImageLoadPhysAddrTag::new(addr)];
    check_image(&arr[1].as_bytes(), addr);
}
