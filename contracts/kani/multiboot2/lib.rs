// Engine K harnesses for multiboot2/src/lib.rs (C20: exported magic)
use super::*;

#[kani::proof]
pub fn k_mbi_magic() {
    assert!(MAGIC == 0x36d7_6289);
}
