use super::*;

// ---- BEGIN sized section
// Engine K harnesses for the FIXED-SIZE parts of multiboot2/src/memory_map.rs:
// BasicMemoryInfoTag (C04, C07, C20 ID), the 24-byte MemoryArea entry (C04, C07)
// and MemoryAreaType <-> MemoryAreaTypeId (C20).  Oracle: Multiboot2 spec
//   3.6.3 "Basic memory information": type = 4, size = 16, u32 mem_lower @8, u32 mem_upper @12
//   3.6.8 "Memory map" entry (24 bytes): u64 base_addr @0, u64 length @8, u32 type @16,
//         u32 reserved @20 (zero); type 1 available, 2 reserved, 3 ACPI reclaimable,
//         4 NVS (preserve on hibernation), 5 defective RAM, everything else custom.
// All harnesses are loop-free over full-domain symbolic data: complete proofs.
// (No `use` lines and only `sz_`-prefixed helpers in this section, so that it
// cannot clash with the other section of this file.)

fn sz_le32(b: &[u8], o: usize) -> u32 {
    u32::from_le_bytes([b[o], b[o + 1], b[o + 2], b[o + 3]])
}
fn sz_le64(b: &[u8], o: usize) -> u64 {
    u64::from_le_bytes([
        b[o],
        b[o + 1],
        b[o + 2],
        b[o + 3],
        b[o + 4],
        b[o + 5],
        b[o + 6],
        b[o + 7],
    ])
}

/// specification table: number -> named variant
fn sz_spec_area_type(v: u32) -> MemoryAreaType {
    match v {
        1 => MemoryAreaType::Available,
        2 => MemoryAreaType::Reserved,
        3 => MemoryAreaType::AcpiAvailable,
        4 => MemoryAreaType::ReservedHibernate,
        5 => MemoryAreaType::Defective,
        c => MemoryAreaType::Custom(c),
    }
}

// ---- C20 (ID table)
#[kani::proof]
pub fn k_basicmem_id() {
    assert!(u32::from(<BasicMemoryInfoTag as Tag>::ID) == 4);
    assert!(u32::from(TagTypeId::from(<BasicMemoryInfoTag as Tag>::ID)) == 4);
}

// ---- C04: BasicMemoryInfoTag decode
#[kani::proof]
pub fn k_basicmem_decode() {
    let bytes = multiboot2_common::test_utils::AlignedBytes(kani::any::<[u8; 16]>());
    let b = &bytes.0;
    kani::assume(sz_le32(b, 0) == 4);
    kani::assume(sz_le32(b, 4) == 16);
    let generic =
        multiboot2_common::DynSizedStructure::<TagHeader>::ref_from_slice(&b[..]).unwrap();
    let tag = generic.cast::<BasicMemoryInfoTag>();
    assert!(core::ptr::addr_of!(*tag).cast::<u8>() == b.as_ptr());
    assert!(core::mem::size_of_val(tag) == 16);
    assert!(u32::from(tag.header().typ) == 4);
    assert!(tag.header().size == 16);
    assert!(tag.memory_lower() == sz_le32(b, 8));
    assert!(tag.memory_upper() == sz_le32(b, 12));
    kani::cover!(tag.memory_lower() == 640 && tag.memory_upper() == 0x000f_fc00);
}

fn sz_check_basicmem(by: &[u8], lower: u32, upper: u32) {
    assert!(by.len() >= 16);
    assert!(by[0..4] == 4u32.to_le_bytes());
    assert!(by[4..8] == 16u32.to_le_bytes());
    assert!(by[8..12] == lower.to_le_bytes());
    assert!(by[12..16] == upper.to_le_bytes());
}

// ---- C07: BasicMemoryInfoTag constructor
#[kani::proof]
pub fn k_basicmem_new_image() {
    let (lower, upper): (u32, u32) = kani::any();
    let tag = BasicMemoryInfoTag::new(lower, upper);
    assert!(core::mem::align_of::<BasicMemoryInfoTag>() == 8);
    assert!(u32::from(tag.header().typ) == 4);
    assert!(tag.header().typ == <BasicMemoryInfoTag as Tag>::ID);
    assert!(tag.header().size == 16);
    sz_check_basicmem(&tag.as_bytes(), lower, upper);
    assert!(tag.memory_lower() == lower);
    assert!(tag.memory_upper() == upper);
    let arr = [BasicMemoryInfoTag::new(0, 0), BasicMemoryInfoTag::new(lower, upper)];
    sz_check_basicmem(&arr[1].as_bytes(), lower, upper);
}

// ---- C04: MemoryArea entry decode: 24 symbolic bytes viewed as an entry
#[kani::proof]
pub fn k_memarea_decode() {
    let bytes = multiboot2_common::test_utils::AlignedBytes(kani::any::<[u8; 24]>());
    let b = &bytes.0;
    assert!(core::mem::size_of::<MemoryArea>() == 24);
    assert!(core::mem::align_of::<MemoryArea>() == 8);
    let area: &MemoryArea = unsafe { &*b.as_ptr().cast::<MemoryArea>() };
    assert!(area.start_address() == sz_le64(b, 0));
    assert!(area.size() == sz_le64(b, 8));
    assert!(u32::from(area.typ()) == sz_le32(b, 16));
    assert!(MemoryAreaType::from(area.typ()) == sz_spec_area_type(sz_le32(b, 16)));
    // end address, whenever it is representable
    let end = sz_le64(b, 0) as u128 + sz_le64(b, 8) as u128;
    if end <= u64::MAX as u128 {
        assert!(area.end_address() as u128 == end);
    }
    kani::cover!(area.start_address() == 0x10_0000 && area.size() == 0x7ee_0000 && u32::from(area.typ()) == 1);
}

// ---- C04: end_address() for EVERY entry content, including an area that ends
// exactly at (or wraps past) 2^64: the accessor must not panic.
#[kani::proof]
pub fn k_memarea_end_address_total() {
    let (base, length): (u64, u64) = kani::any();
    let area = MemoryArea::new(base, length, 1u32);
    let end = area.end_address();
    assert!(end == base.wrapping_add(length));
}

fn sz_area_bytes(a: &MemoryArea) -> &[u8] {
    unsafe { core::slice::from_raw_parts((a as *const MemoryArea).cast::<u8>(), 24) }
}
fn sz_check_area(a: &MemoryArea, base: u64, length: u64, typ: u32) {
    let by = sz_area_bytes(a);
    assert!(by[0..8] == base.to_le_bytes());
    assert!(by[8..16] == length.to_le_bytes());
    assert!(by[16..20] == typ.to_le_bytes());
    assert!(by[20..24] == [0u8; 4]);
    assert!(a.start_address() == base);
    assert!(a.size() == length);
    assert!(u32::from(a.typ()) == typ);
}

// ---- C07: MemoryArea::new with the type given as number, as id, and as symbolic type
#[kani::proof]
pub fn k_memarea_new_image() {
    let (base, length, typ): (u64, u64, u32) = kani::any();
    let a = MemoryArea::new(base, length, typ);
    sz_check_area(&a, base, length, typ);
    let a = MemoryArea::new(base, length, MemoryAreaTypeId::from(typ));
    sz_check_area(&a, base, length, typ);
    let a = MemoryArea::new(base, length, sz_spec_area_type(typ));
    sz_check_area(&a, base, length, typ);
    let arr = [MemoryArea::new(0, 0, 0u32), MemoryArea::new(base, length, typ)];
    sz_check_area(&arr[1], base, length, typ);
}

// ---- C20: MemoryAreaType <-> MemoryAreaTypeId for all 2^32 values
#[kani::proof]
pub fn k_memareatype_roundtrip_all_u32() {
    let v: u32 = kani::any();
    let id = MemoryAreaTypeId::from(v);
    assert!(u32::from(id) == v);
    let t = MemoryAreaType::from(id);
    // specified numbers map to named variants, everything else to Custom
    assert!(t == sz_spec_area_type(v));
    if (1..=5).contains(&v) {
        assert!(!matches!(t, MemoryAreaType::Custom(_)));
    } else {
        assert!(matches!(t, MemoryAreaType::Custom(c) if c == v));
    }
    // lossless
    let back = MemoryAreaTypeId::from(t);
    assert!(u32::from(back) == v);
    assert!(back == id);
}

#[kani::proof]
pub fn k_memareatype_equalities_agree() {
    let a: u32 = kani::any();
    let b: u32 = kani::any();
    let (ia, ib) = (MemoryAreaTypeId::from(a), MemoryAreaTypeId::from(b));
    let (ta, tb) = (MemoryAreaType::from(ia), MemoryAreaType::from(ib));
    let eq = a == b;
    assert!((ia == ib) == eq);
    assert!((ta == tb) == eq);
    assert!((ta == ib) == eq);
    assert!((ia == tb) == eq);
}

/// a symbolic MemoryAreaType *value* (including non-canonical Custom(1..=5)) still
/// converts to its number and compares with ids by number
#[kani::proof]
pub fn k_memareatype_custom_noncanonical() {
    let c: u32 = kani::any();
    let other: u32 = kani::any();
    let t = MemoryAreaType::Custom(c);
    assert!(u32::from(MemoryAreaTypeId::from(t)) == c);
    let id = MemoryAreaTypeId::from(other);
    assert!((t == id) == (c == other));
    assert!((id == t) == (c == other));
}
// ---- END sized section
