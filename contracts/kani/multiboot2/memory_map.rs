use super::*;

// ---- BEGIN sized section
// Engine K harnesses for the FIXED-SIZE parts of multiboot2/src/memory_map.rs:
// BasicMemoryInfoTag (C04, C07, C20 ID), the 24-byte MemoryArea entry (C04, C07)
// and MemoryAreaType <-> MemoryAreaTypeId (C20).  Oracle: Multiboot2 spec
//   3.6.3 "Basic memory information": type = 4, size = 16, u32 mem_lower @8, u32 mem_upper @12
//   3.6.8 "Memory map" entry (24 bytes): u64 base_addr @0, u64 length @8, u32 type @16,
//         u32 reserved @20 (zero); type 1 available, 2 reserved, 3 ACPI reclaimable,
//         4 NVS (preserve on hibernation), 5 defective RAM, everything else custom.
// All harnesses are loop-free over full-domain symbolic data: complete proofs.
// (No `use` lines and only `sz_`-prefixed helpers in this section, so that it
// cannot clash with the other section of this file.)

fn sz_le32(b: &[u8], o: usize) -> u32 {
    u32::from_le_bytes([b[o], b[o + 1], b[o + 2], b[o + 3]])
}
fn sz_le64(b: &[u8], o: usize) -> u64 {
    u64::from_le_bytes([
        b[o],
        b[o + 1],
        b[o + 2],
        b[o + 3],
        b[o + 4],
        b[o + 5],
        b[o + 6],
        b[o + 7],
    ])
}

/// specification table: number -> named variant
fn sz_spec_area_type(v: u32) -> MemoryAreaType {
    match v {
        1 => MemoryAreaType::Available,
        2 => MemoryAreaType::Reserved,
        3 => MemoryAreaType::AcpiAvailable,
        4 => MemoryAreaType::ReservedHibernate,
        5 => MemoryAreaType::Defective,
        c => MemoryAreaType::Custom(c),
    }
}

// ---- C20 (ID table)
#[kani::proof]
pub fn k_basicmem_id() {
    assert!(u32::from(<BasicMemoryInfoTag as Tag>::ID) == 4);
    assert!(u32::from(TagTypeId::from(<BasicMemoryInfoTag as Tag>::ID)) == 4);
}

// ---- C04: BasicMemoryInfoTag decode
#[kani::proof]
pub fn k_basicmem_decode() {
    let bytes = multiboot2_common::test_utils::AlignedBytes(kani::any::<[u8; 16]>());
    let b = &bytes.0;
    kani::assume(sz_le32(b, 0) == 4);
    kani::assume(sz_le32(b, 4) == 16);
    let generic =
        multiboot2_common::DynSizedStructure::<TagHeader>::ref_from_slice(&b[..]).unwrap();
    let tag = generic.cast::<BasicMemoryInfoTag>();
    assert!(core::ptr::addr_of!(*tag).cast::<u8>() == b.as_ptr());
    assert!(core::mem::size_of_val(tag) == 16);
    assert!(u32::from(tag.header().typ) == 4);
    assert!(tag.header().size == 16);
    assert!(tag.memory_lower() == sz_le32(b, 8));
    assert!(tag.memory_upper() == sz_le32(b, 12));
    kani::cover!(tag.memory_lower() == 640 && tag.memory_upper() == 0x000f_fc00);
}

fn sz_check_basicmem(by: &[u8], lower: u32, upper: u32) {
    assert!(by.len() >= 16);
    assert!(by[0..4] == 4u32.to_le_bytes());
    assert!(by[4..8] == 16u32.to_le_bytes());
    assert!(by[8..12] == lower.to_le_bytes());
    assert!(by[12..16] == upper.to_le_bytes());
}

// ---- C07: BasicMemoryInfoTag constructor
#[kani::proof]
pub fn k_basicmem_new_image() {
    let (lower, upper): (u32, u32) = kani::any();
    let tag = BasicMemoryInfoTag::new(lower, upper);
    assert!(core::mem::align_of::<BasicMemoryInfoTag>() == 8);
    assert!(u32::from(tag.header().typ) == 4);
    assert!(tag.header().typ == <BasicMemoryInfoTag as Tag>::ID);
    assert!(tag.header().size == 16);
    sz_check_basicmem(&tag.as_bytes(), lower, upper);
    assert!(tag.memory_lower() == lower);
    assert!(tag.memory_upper() == upper);
    let arr = [BasicMemoryInfoTag::new(0, 0), BasicMemoryInfoTag::new(lower, upper)];
    sz_check_basicmem(&arr[1].as_bytes(), lower, upper);
}

// ---- C04: MemoryArea entry decode: 24 symbolic bytes viewed as an entry
#[kani::proof]
pub fn k_memarea_decode() {
    let bytes = multiboot2_common::test_utils::AlignedBytes(kani::any::<[u8; 24]>());
    let b = &bytes.0;
    assert!(core::mem::size_of::<MemoryArea>() == 24);
    assert!(core::mem::align_of::<MemoryArea>() == 8);
    let area: &MemoryArea = unsafe { &*b.as_ptr().cast::<MemoryArea>() };
    assert!(area.start_address() == sz_le64(b, 0));
    assert!(area.size() == sz_le64(b, 8));
    assert!(u32::from(area.typ()) == sz_le32(b, 16));
    assert!(MemoryAreaType::from(area.typ()) == sz_spec_area_type(sz_le32(b, 16)));
    // end address, whenever it is representable
    let end = sz_le64(b, 0) as u128 + sz_le64(b, 8) as u128;
    if end <= u64::MAX as u128 {
        assert!(area.end_address() as u128 == end);
    }
    kani::cover!(area.start_address() == 0x10_0000 && area.size() == 0x7ee_0000 && u32::from(area.typ()) == 1);
}

// ---- C04: end_address() for EVERY entry content, including an area that ends
// exactly at (or wraps past) 2^64: the accessor must not panic.
#[kani::proof]
pub fn k_memarea_end_address_total() {
    let (base, length): (u64, u64) = kani::any();
    let area = MemoryArea::new(base, length, 1u32);
    let end = area.end_address();
    assert!(end == base.wrapping_add(length));
}

fn sz_area_bytes(a: &MemoryArea) -> &[u8] {
    unsafe { core::slice::from_raw_parts((a as *const MemoryArea).cast::<u8>(), 24) }
}
fn sz_check_area(a: &MemoryArea, base: u64, length: u64, typ: u32) {
    let by = sz_area_bytes(a);
    assert!(by[0..8] == base.to_le_bytes());
    assert!(by[8..16] == length.to_le_bytes());
    assert!(by[16..20] == typ.to_le_bytes());
    assert!(by[20..24] == [0u8; 4]);
    assert!(a.start_address() == base);
    assert!(a.size() == length);
    assert!(u32::from(a.typ()) == typ);
}

// ---- C07: MemoryArea::new with the type given as number, as id, and as symbolic type
#[kani::proof]
pub fn k_memarea_new_image() {
    let (base, length, typ): (u64, u64, u32) = kani::any();
    let a = MemoryArea::new(base, length, typ);
    sz_check_area(&a, base, length, typ);
    let a = MemoryArea::new(base, length, MemoryAreaTypeId::from(typ));
    sz_check_area(&a, base, length, typ);
    let a = MemoryArea::new(base, length, sz_spec_area_type(typ));
    sz_check_area(&a, base, length, typ);
    let arr = [MemoryArea::new(0, 0, 0u32), MemoryArea::new(base, length, typ)];
    sz_check_area(&arr[1], base, length, typ);
}

// ---- C20: MemoryAreaType <-> MemoryAreaTypeId for all 2^32 values
#[kani::proof]
pub fn k_memareatype_roundtrip_all_u32() {
    let v: u32 = kani::any();
    let id = MemoryAreaTypeId::from(v);
    assert!(u32::from(id) == v);
    let t = MemoryAreaType::from(id);
    // specified numbers map to named variants, everything else to Custom
    assert!(t == sz_spec_area_type(v));
    if (1..=5).contains(&v) {
        assert!(!matches!(t, MemoryAreaType::Custom(_)));
    } else {
        assert!(matches!(t, MemoryAreaType::Custom(c) if c == v));
    }
    // lossless
    let back = MemoryAreaTypeId::from(t);
    assert!(u32::from(back) == v);
    assert!(back == id);
}

#[kani::proof]
pub fn k_memareatype_equalities_agree() {
    let a: u32 = kani::any();
    let b: u32 = kani::any();
    let (ia, ib) = (MemoryAreaTypeId::from(a), MemoryAreaTypeId::from(b));
    let (ta, tb) = (MemoryAreaType::from(ia), MemoryAreaType::from(ib));
    let eq = a == b;
    assert!((ia == ib) == eq);
    assert!((ta == tb) == eq);
    assert!((ta == ib) == eq);
    assert!((ia == tb) == eq);
}

/// a symbolic MemoryAreaType *value* (including non-canonical Custom(1..=5)) still
/// converts to its number and compares with ids by number
#[kani::proof]
pub fn k_memareatype_custom_noncanonical() {
    let c: u32 = kani::any();
    let other: u32 = kani::any();
    let t = MemoryAreaType::Custom(c);
    assert!(u32::from(MemoryAreaTypeId::from(t)) == c);
    let id = MemoryAreaTypeId::from(other);
    assert!((t == id) == (c == other));
    assert!((id == t) == (c == other));
}
// ---- END sized section

// ---- BEGIN dst section
// Engine K harnesses for the DYNAMICALLY SIZED parts of multiboot2/src/memory_map.rs:
// MemoryMapTag (C04/C05/C07) and EFIMemoryMapTag / EFIMemoryAreaIter (C05/C07/C18).
// Oracle: Multiboot2 spec
//   3.6.8 "Memory map": u32 type = 6 @0, u32 size @4, u32 entry_size @8, u32 entry_version @12,
//         then (size-16)/entry_size entries of 24 bytes (u64 base_addr, u64 length, u32 type, u32 reserved)
//   3.6.17 "EFI memory map": u32 type = 17 @0, u32 size @4, u32 descriptor_size @8,
//         u32 descriptor_version @12, then the EFI memory map from byte 16 up to size;
//   UEFI spec EFI_MEMORY_DESCRIPTOR (version 1): u32 Type @0, (pad), u64 PhysicalStart @8,
//         u64 VirtualStart @16, u64 NumberOfPages @24, u64 Attribute @32 (40 bytes, align 8).
// (No `use` lines and only `dst_`-prefixed helpers in this section.)

fn dst_round8(n: usize) -> usize {
    (n + 7) / 8 * 8
}
fn dst_le32(b: &[u8], o: usize) -> u32 {
    u32::from_le_bytes([b[o], b[o + 1], b[o + 2], b[o + 3]])
}
fn dst_le64(b: &[u8], o: usize) -> u64 {
    u64::from_le_bytes([b[o], b[o + 1], b[o + 2], b[o + 3], b[o + 4], b[o + 5], b[o + 6], b[o + 7]])
}
fn dst_generic(b: &[u8]) -> &multiboot2_common::DynSizedStructure<TagHeader> {
    multiboot2_common::DynSizedStructure::<TagHeader>::ref_from_slice(b).unwrap()
}

// ---- C04/C05 (a) MemoryMapTag: well-formed sizes 16, 40, 64 in a 72-byte
// region (all bytes symbolic: the 8 bytes after the tag are the neighbour).
#[kani::proof]
#[kani::unwind(4)]
pub fn k_mmap_extent() {
    let bytes = multiboot2_common::test_utils::AlignedBytes::new(kani::any::<[u8; 72]>());
    let b = &bytes.0;
    kani::assume(dst_le32(b, 0) == 6);
    let size = dst_le32(b, 4) as usize;
    kani::assume(size >= 16 && size <= 64 && (size - 16) % 24 == 0);
    kani::assume(dst_le32(b, 8) == 24);
    let tag = dst_generic(&b[..dst_round8(size)]).cast::<MemoryMapTag>();
    assert!(tag.header.typ == TagType::Mmap);
    assert!(tag.header.size as usize == size);
    assert!(tag.entry_size() == 24);
    assert!(tag.entry_version() == dst_le32(b, 12));
    let areas = tag.memory_areas();
    let n = (size - 16) / 24;
    assert!(areas.len() == n);
    assert!(areas.as_ptr().cast::<u8>() == b[16..].as_ptr());
    let mut i = 0;
    while i < n {
        let o = 16 + 24 * i;
        assert!(areas[i].start_address() == dst_le64(b, o));
        assert!(areas[i].size() == dst_le64(b, o + 8));
        assert!(u32::from(areas[i].typ()) == dst_le32(b, o + 16));
        i += 1;
    }
    kani::cover!(n == 2);
    kani::cover!(n == 0);
}

// ---- C05 (b) MemoryMapTag: every declared size (any u32) in a 48-byte region:
// a typed view is only produced when 16 <= size <= 48 and (size-16) % 24 == 0;
// everything else is a controlled panic or Err(InvalidReportedTotalSize).
#[kani::proof]
pub fn k_mmap_size_any() {
    let bytes = multiboot2_common::test_utils::AlignedBytes::new(kani::any::<[u8; 48]>());
    let b = &bytes.0;
    kani::assume(dst_le32(b, 0) == 6);
    let size = dst_le32(b, 4) as usize;
    match multiboot2_common::DynSizedStructure::<TagHeader>::ref_from_slice(&b[..]) {
        Ok(generic) => {
            let tag = generic.cast::<MemoryMapTag>();
            assert!(size >= 16 && size <= 48 && (size - 16) % 24 == 0);
            assert!(tag.areas.len() == (size - 16) / 24);
            assert!(tag.areas.as_ptr().cast::<u8>() == b[16..].as_ptr());
        }
        Err(e) => {
            assert!(size > 48);
            assert!(e == multiboot2_common::MemoryError::InvalidReportedTotalSize);
        }
    }
}

// ---- C05 (b) MemoryMapTag::memory_areas(): any stored entry_size: the slice
// of 24-byte entries is only handed out when entry_size == 24.
#[kani::proof]
pub fn k_mmap_entry_size_checked() {
    let bytes = multiboot2_common::test_utils::AlignedBytes::new(kani::any::<[u8; 40]>());
    let b = &bytes.0;
    kani::assume(dst_le32(b, 0) == 6);
    kani::assume(dst_le32(b, 4) == 40);
    let tag = dst_generic(&b[..]).cast::<MemoryMapTag>();
    assert!(tag.entry_size() == dst_le32(b, 8));
    let areas = tag.memory_areas();
    assert!(dst_le32(b, 8) == 24);
    assert!(areas.len() == 1);
}

// ---- C07 MemoryMapTag::new: 0..=2 areas with symbolic fields.
#[kani::proof]
#[kani::unwind(8)]
pub fn k_mmap_new() {
    let (b0, l0, t0, b1, l1, t1): (u64, u64, u32, u64, u64, u32) = kani::any();
    let all = [MemoryArea::new(b0, l0, t0), MemoryArea::new(b1, l1, t1)];
    let n: usize = kani::any();
    kani::assume(n <= 2);
    let tag = MemoryMapTag::new(&all[..n]);
    let want = 16 + 24 * n;
    assert!(u32::from(tag.header.typ) == 6);
    assert!(tag.header.typ == MemoryMapTag::ID);
    assert!(tag.header.size as usize == want);
    assert!(tag.entry_size() == 24 && tag.entry_version() == 0);
    let ab = tag.as_bytes();
    let img: &[u8] = *ab;
    assert!(img.len() == dst_round8(want));
    assert!(img.as_ptr() as usize % 8 == 0);
    assert!(dst_le32(img, 0) == 6);
    assert!(dst_le32(img, 4) as usize == want);
    assert!(dst_le32(img, 8) == 24);
    assert!(dst_le32(img, 12) == 0);
    if n >= 1 {
        assert!(dst_le64(img, 16) == b0 && dst_le64(img, 24) == l0);
        assert!(dst_le32(img, 32) == t0 && dst_le32(img, 36) == 0);
    }
    if n == 2 {
        assert!(dst_le64(img, 40) == b1 && dst_le64(img, 48) == l1);
        assert!(dst_le32(img, 56) == t1 && dst_le32(img, 60) == 0);
    }
    let areas = tag.memory_areas();
    assert!(areas.len() == n);
    if n >= 1 {
        assert!(areas[0] == all[0]);
    }
    if n == 2 {
        assert!(areas[1] == all[1]);
    }
    kani::cover!(n == 2);
    kani::cover!(n == 0);
}

// ---- C05 (a) EFIMemoryMapTag: extent of the map bytes for every declared size
// 16..=40 in a 48-byte region.
#[kani::proof]
pub fn k_efimmap_extent() {
    let bytes = multiboot2_common::test_utils::AlignedBytes::new(kani::any::<[u8; 48]>());
    let b = &bytes.0;
    kani::assume(dst_le32(b, 0) == 17);
    let size = dst_le32(b, 4) as usize;
    kani::assume(size >= 16 && size <= 40);
    let tag = dst_generic(&b[..dst_round8(size)]).cast::<EFIMemoryMapTag>();
    assert!(tag.header.typ == TagType::EfiMmap);
    assert!(tag.header.size as usize == size);
    assert!(tag.desc_size == dst_le32(b, 8));
    assert!(tag.desc_version == dst_le32(b, 12));
    assert!(tag.memory_map.as_ptr() == b[16..].as_ptr());
    assert!(tag.memory_map.len() == size - 16);
    kani::cover!(size == 29);
    kani::cover!(size == 16);
}

// ---- C05 (b) EFIMemoryMapTag: every declared size (any u32), 24-byte region.
#[kani::proof]
pub fn k_efimmap_size_any() {
    let bytes = multiboot2_common::test_utils::AlignedBytes::new(kani::any::<[u8; 24]>());
    let b = &bytes.0;
    kani::assume(dst_le32(b, 0) == 17);
    let size = dst_le32(b, 4) as usize;
    match multiboot2_common::DynSizedStructure::<TagHeader>::ref_from_slice(&b[..]) {
        Ok(generic) => {
            let tag = generic.cast::<EFIMemoryMapTag>();
            assert!(size >= 16 && size <= 24);
            assert!(tag.memory_map.as_ptr() == b[16..].as_ptr());
            assert!(tag.memory_map.len() == size - 16);
        }
        Err(e) => {
            assert!(size > 24);
            assert!(e == multiboot2_common::MemoryError::InvalidReportedTotalSize);
        }
    }
}

// ---- C07 EFIMemoryMapTag::new_from_map: all (desc_size != 0, desc_version),
// map bytes of symbolic length 0..=9 (every padding residue).
#[kani::proof]
#[kani::unwind(12)]
pub fn k_efimmap_new_from_map() {
    let raw: [u8; 9] = kani::any();
    let len: usize = kani::any();
    kani::assume(len <= 9);
    let (ds, dv): (u32, u32) = kani::any();
    kani::assume(ds != 0);
    let tag = EFIMemoryMapTag::new_from_map(ds, dv, &raw[..len]);
    let want = 16 + len;
    assert!(u32::from(tag.header.typ) == 17);
    assert!(tag.header.typ == EFIMemoryMapTag::ID);
    assert!(tag.header.size as usize == want);
    assert!(tag.desc_size == ds && tag.desc_version == dv);
    assert!(tag.memory_map.len() == len);
    let ab = tag.as_bytes();
    let img: &[u8] = *ab;
    assert!(img.len() == dst_round8(want));
    assert!(img.as_ptr() as usize % 8 == 0);
    assert!(dst_le32(img, 0) == 17);
    assert!(dst_le32(img, 4) as usize == want);
    assert!(dst_le32(img, 8) == ds);
    assert!(dst_le32(img, 12) == dv);
    let mut i = 0;
    while i < len {
        assert!(img[16 + i] == raw[i]);
        i += 1;
    }
    kani::cover!(len == 9);
    kani::cover!(len == 0);
}

// ---- C07 (b): new_from_map documents desc_size != 0.
#[kani::proof]
#[kani::unwind(6)]
pub fn k_efimmap_new_rejects_zero_desc_size() {
    let (ds, dv): (u32, u32) = kani::any();
    let _tag = EFIMemoryMapTag::new_from_map(ds, dv, &[]);
    assert!(ds != 0);
}

// ---- C07/C18 EFIMemoryMapTag::new_from_descs: 0..=2 descriptors with symbolic
// fields: desc_size 40, version 1, each descriptor encoded per UEFI (bytes 4..8
// of a descriptor are compiler padding and not compared); iteration reads the
// descriptors back.
#[kani::proof]
#[kani::unwind(8)]
pub fn k_efimmap_new_from_descs() {
    let (t0, p0, v0, c0, a0): (u32, u64, u64, u64, u64) = kani::any();
    let (t1, p1, v1, c1, a1): (u32, u64, u64, u64, u64) = kani::any();
    let all = [
        EFIMemoryDesc { ty: EFIMemoryAreaType(t0), phys_start: p0, virt_start: v0, page_count: c0, att: EFIMemoryAttribute::from_bits_retain(a0) },
        EFIMemoryDesc { ty: EFIMemoryAreaType(t1), phys_start: p1, virt_start: v1, page_count: c1, att: EFIMemoryAttribute::from_bits_retain(a1) },
    ];
    let n: usize = kani::any();
    kani::assume(n <= 2);
    let tag = EFIMemoryMapTag::new_from_descs(&all[..n]);
    let want = 16 + 40 * n;
    assert!(u32::from(tag.header.typ) == 17);
    assert!(tag.header.size as usize == want);
    let ab = tag.as_bytes();
    let img: &[u8] = *ab;
    assert!(img.len() == dst_round8(want));
    assert!(dst_le32(img, 0) == 17 && dst_le32(img, 4) as usize == want);
    assert!(dst_le32(img, 8) == 40 && dst_le32(img, 12) == 1);
    if n >= 1 {
        assert!(dst_le32(img, 16) == t0 && dst_le64(img, 24) == p0 && dst_le64(img, 32) == v0);
        assert!(dst_le64(img, 40) == c0 && dst_le64(img, 48) == a0);
    }
    if n == 2 {
        assert!(dst_le32(img, 56) == t1 && dst_le64(img, 64) == p1 && dst_le64(img, 72) == v1);
        assert!(dst_le64(img, 80) == c1 && dst_le64(img, 88) == a1);
    }
    let mut it = tag.memory_areas();
    assert!(it.len() == n);
    if n >= 1 {
        let d = it.next().unwrap();
        assert!(d.ty.0 == t0 && d.phys_start == p0 && d.virt_start == v0 && d.page_count == c0 && d.att.bits() == a0);
    }
    if n == 2 {
        let d = it.next().unwrap();
        assert!(d.ty.0 == t1 && d.phys_start == p1 && d.virt_start == v1 && d.page_count == c1 && d.att.bits() == a1);
    }
    assert!(it.next().is_none());
    kani::cover!(n == 2);
}

// ---- C18 (a): version 1, descriptor size d in {40, 48, 56, 64}, map length
// L = k * d <= 128 (k = 0..=3 for d = 40, 0..=2 otherwise), all map bytes
// symbolic (152-byte region incl. 8 neighbour bytes): exactly k descriptors,
// the i-th AT map offset i*d, decoded per UEFI; len() == items still to come
// after every next().
#[kani::proof]
#[kani::unwind(6)]
pub fn k_efi_iter_wellformed() {
    let bytes = multiboot2_common::test_utils::AlignedBytes::new(kani::any::<[u8; 152]>());
    let b = &bytes.0;
    kani::assume(dst_le32(b, 0) == 17);
    let size = dst_le32(b, 4) as usize;
    let d = dst_le32(b, 8) as usize;
    kani::assume(dst_le32(b, 12) == 1);
    kani::assume(d >= 40 && d <= 64 && d % 8 == 0);
    kani::assume(size >= 16 && size <= 16 + 128);
    let l = size - 16;
    kani::assume(l % d == 0);
    let k = l / d;
    let tag = dst_generic(&b[..dst_round8(size)]).cast::<EFIMemoryMapTag>();
    let mut it = tag.memory_areas();
    let mut i = 0;
    while i < k {
        assert!(it.len() == k - i);
        let desc = it.next().unwrap();
        let o = 16 + i * d;
        assert!(core::ptr::addr_of!(*desc).cast::<u8>() == b[o..].as_ptr());
        assert!(desc.ty.0 == dst_le32(b, o));
        assert!(desc.phys_start == dst_le64(b, o + 8));
        assert!(desc.virt_start == dst_le64(b, o + 16));
        assert!(desc.page_count == dst_le64(b, o + 24));
        assert!(desc.att.bits() == dst_le64(b, o + 32));
        i += 1;
    }
    assert!(it.len() == 0);
    assert!(it.next().is_none());
    assert!(it.len() == 0);
    kani::cover!(k == 3 && d == 40);
    kani::cover!(k == 2 && d == 64);
    kani::cover!(k == 0);
}

// ---- C18 (b): ANY version (u32), ANY descriptor size (u32), any declared
// size 16..=144 (map length 0..=128): memory_areas() only returns for
// version 1, d >= 40, d % 8 == 0, L % d == 0 (everything else: controlled
// panic); whatever is then iterated lies inside the tag, is 8-aligned, and
// len() counts down.
#[kani::proof]
#[kani::unwind(6)]
pub fn k_efi_iter_any() {
    let bytes = multiboot2_common::test_utils::AlignedBytes::new(kani::any::<[u8; 152]>());
    let b = &bytes.0;
    kani::assume(dst_le32(b, 0) == 17);
    let size = dst_le32(b, 4) as usize;
    let d = dst_le32(b, 8) as usize;
    let ver = dst_le32(b, 12);
    kani::assume(size >= 16 && size <= 16 + 128);
    let l = size - 16;
    let tag = dst_generic(&b[..dst_round8(size)]).cast::<EFIMemoryMapTag>();
    let mut it = tag.memory_areas();
    assert!(ver == 1 && d >= 40 && d % 8 == 0 && l % d == 0);
    let k = l / d;
    let mut i = 0;
    let mut left = it.len();
    assert!(left == k);
    while let Some(desc) = it.next() {
        let off = core::ptr::addr_of!(*desc).cast::<u8>() as usize - b.as_ptr() as usize;
        assert!(off == 16 + i * d);
        assert!(off % 8 == 0);
        assert!(off + 40 <= size);
        left -= 1;
        assert!(it.len() == left);
        i += 1;
    }
    assert!(i == k);
}

// ---- C18: provided Iterator methods (nth / skip / count / last) of the EFI iterator agree with
// repeated next(): an override added to the impl is checked against the same descriptors.
#[kani::proof]
#[kani::unwind(6)]
pub fn k_efi_iter_provided_methods() {
    let bytes = multiboot2_common::test_utils::AlignedBytes::new(kani::any::<[u8; 152]>());
    let b = &bytes.0;
    kani::assume(dst_le32(b, 0) == 17);
    let size = dst_le32(b, 4) as usize;
    kani::assume(dst_le32(b, 8) == 40 && dst_le32(b, 12) == 1);
    kani::assume(size == 16 || size == 56 || size == 96 || size == 136);
    let k = (size - 16) / 40;
    let tag = dst_generic(&b[..dst_round8(size)]).cast::<EFIMemoryMapTag>();
    let n: usize = kani::any();
    kani::assume(n <= 4);
    let got = tag.memory_areas().nth(n).map(|d| core::ptr::addr_of!(*d).cast::<u8>() as usize);
    let want = if n < k { Some(b.as_ptr() as usize + 16 + n * 40) } else { None };
    assert!(got == want);
    assert!(tag.memory_areas().count() == k);
    assert!(tag.memory_areas().skip(k).next().is_none());
    assert!(tag.memory_areas().last().is_some() == (k > 0));
    // overshooting with nth leaves an exhausted iterator that reports 0 remaining
    let mut it = tag.memory_areas();
    assert!(it.nth(k + 1).is_none());
    assert!(it.len() == 0 && it.next().is_none());
    // a clone taken after one step continues the SAME walk (same remaining length, same next item)
    let mut it2 = tag.memory_areas();
    let _ = it2.next();
    let mut c = it2.clone();
    assert!(c.len() == it2.len());
    let (x, y) = (c.next().map(|d| core::ptr::addr_of!(*d) as usize), it2.next().map(|d| core::ptr::addr_of!(*d) as usize));
    assert!(x == y);
    kani::cover!(k == 3 && n == 3);
}

// ---- C18: len() with a stride larger than the descriptor (d = 48 / 56) and up to 6 entries:
// remaining length == items still to come (only lengths and addresses, no field decoding)
#[kani::proof]
#[kani::unwind(9)]
pub fn k_efi_iter_len_wide_stride() {
    let bytes = multiboot2_common::test_utils::AlignedBytes::new(kani::any::<[u8; 360]>());
    let b = &bytes.0;
    kani::assume(dst_le32(b, 0) == 17 && dst_le32(b, 12) == 1);
    let d = dst_le32(b, 8) as usize;
    kani::assume(d == 48 || d == 56);
    let k: usize = kani::any();
    kani::assume(k <= 6);
    let size = 16 + k * d;
    kani::assume(dst_le32(b, 4) as usize == size);
    let tag = dst_generic(&b[..dst_round8(size)]).cast::<EFIMemoryMapTag>();
    let mut it = tag.memory_areas();
    let mut i = 0;
    while i < k {
        assert!(it.len() == k - i);
        let desc = it.next().unwrap();
        assert!(core::ptr::addr_of!(*desc).cast::<u8>() as usize == b.as_ptr() as usize + 16 + i * d);
        i += 1;
    }
    assert!(it.len() == 0 && it.next().is_none());
    kani::cover!(k == 6 && d == 48);
}

// ---- END dst section
