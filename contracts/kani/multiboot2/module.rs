// Engine K harnesses for multiboot2/src/module.rs (C04/C05/C07/C17, ModuleIter).
// Spec (Multiboot2 3.6.6 "Modules"): u32 type = 3, u32 size, u32 mod_start @8,
// u32 mod_end @12, then a zero-terminated UTF-8 string starting at byte 16.
use super::*;
use multiboot2_common::test_utils::AlignedBytes;
use multiboot2_common::DynSizedStructure;

fn round8(n: usize) -> usize {
    (n + 7) / 8 * 8
}
fn le32(b: &[u8], o: usize) -> u32 {
    u32::from_le_bytes([b[o], b[o + 1], b[o + 2], b[o + 3]])
}
/// independent oracle: index of the first NUL in s, if any
fn first_nul(s: &[u8]) -> Option<usize> {
    let mut i = 0;
    while i < s.len() {
        if s[i] == 0 {
            return Some(i);
        }
        i += 1;
    }
    None
}
/// independent oracle: well-formed UTF-8 per the Unicode Standard, table 3-7
fn utf8_valid(s: &[u8]) -> bool {
    let mut i = 0;
    while i < s.len() {
        let a = s[i];
        let n = if a < 0x80 {
            0
        } else if a >= 0xC2 && a <= 0xDF {
            1
        } else if a >= 0xE0 && a <= 0xEF {
            2
        } else if a >= 0xF0 && a <= 0xF4 {
            3
        } else {
            return false;
        };
        if i + n >= s.len() {
            return false;
        }
        if n >= 1 {
            let (lo, hi) = match a {
                0xE0 => (0xA0, 0xBF),
                0xED => (0x80, 0x9F),
                0xF0 => (0x90, 0xBF),
                0xF4 => (0x80, 0x8F),
                _ => (0x80, 0xBF),
            };
            if s[i + 1] < lo || s[i + 1] > hi {
                return false;
            }
        }
        if n >= 2 && (s[i + 2] < 0x80 || s[i + 2] > 0xBF) {
            return false;
        }
        if n >= 3 && (s[i + 3] < 0x80 || s[i + 3] > 0xBF) {
            return false;
        }
        i += n + 1;
    }
    true
}
fn is_ascii(s: &[u8]) -> bool {
    let mut i = 0;
    while i < s.len() {
        if s[i] >= 0x80 {
            return false;
        }
        i += 1;
    }
    true
}

// ---- C04/C05 (a): fields and extent of the string part for every well-formed
// declared size 16..=32 in a 40-byte region (everything symbolic: padding and
// the neighbouring 8 bytes hold arbitrary marker values).
#[kani::proof]
pub fn k_module_extent() {
    let bytes = AlignedBytes(kani::any::<[u8; 40]>());
    let b = &bytes.0;
    kani::assume(le32(b, 0) == 3);
    let size = le32(b, 4) as usize;
    kani::assume(size >= 16 && size <= 32);
    let generic = DynSizedStructure::<TagHeader>::ref_from_slice(&b[..round8(size)]).unwrap();
    let tag = generic.cast::<ModuleTag>();
    assert!(tag.header.typ == TagType::Module);
    assert!(tag.header.size as usize == size);
    assert!(tag.start_address() == le32(b, 8));
    assert!(tag.end_address() == le32(b, 12));
    if le32(b, 12) >= le32(b, 8) {
        assert!(tag.module_size() == le32(b, 12) - le32(b, 8));
    }
    assert!(tag.cmdline.as_ptr() == b[16..].as_ptr());
    assert!(tag.cmdline.len() == size - 16);
    kani::cover!(size == 21 && le32(b, 12) > le32(b, 8));
    kani::cover!(size == 16);
}

// ---- C01/C04: module_size() for ALL stored (mod_start, mod_end): values or a
// controlled panic, never an arithmetic overflow.
#[kani::proof]
pub fn k_module_size_any_range() {
    let bytes = AlignedBytes(kani::any::<[u8; 24]>());
    let b = &bytes.0;
    kani::assume(le32(b, 0) == 3);
    kani::assume(le32(b, 4) == 17);
    let generic = DynSizedStructure::<TagHeader>::ref_from_slice(&b[..]).unwrap();
    let tag = generic.cast::<ModuleTag>();
    let s = tag.module_size();
    assert!(s == le32(b, 12).wrapping_sub(le32(b, 8)));
}

// ---- C05 (b): every declared size (any u32) in a 24-byte region: a typed view
// is only produced for 16 <= size <= 24; smaller sizes are rejected by a
// controlled panic (payload_len / dst_len assertions), larger by Err.
#[kani::proof]
pub fn k_module_size_any() {
    let bytes = AlignedBytes(kani::any::<[u8; 24]>());
    let b = &bytes.0;
    kani::assume(le32(b, 0) == 3);
    let size = le32(b, 4) as usize;
    match DynSizedStructure::<TagHeader>::ref_from_slice(&b[..]) {
        Ok(generic) => {
            let tag = generic.cast::<ModuleTag>();
            assert!(size >= 16 && size <= 24);
            assert!(tag.cmdline.as_ptr() == b[16..].as_ptr());
            assert!(tag.cmdline.len() == size - 16);
        }
        Err(e) => {
            assert!(size > 24);
            assert!(e == multiboot2_common::MemoryError::InvalidReportedTotalSize);
        }
    }
}

// ---- C17/C04: cmdline() on a parsed tag == bytes before the first NUL INSIDE
// the declared size.  Declared size 19 (3 string bytes, 5 padding bytes, then
// the neighbouring tag), all 32 region bytes symbolic; full UTF-8 oracle.
#[kani::proof]
#[kani::unwind(7)]
pub fn k_module_parse_size19() {
    const SIZE: usize = 19;
    let bytes = AlignedBytes(kani::any::<[u8; 32]>());
    let b = &bytes.0;
    kani::assume(le32(b, 0) == 3);
    kani::assume(le32(b, 4) as usize == SIZE);
    let generic = DynSizedStructure::<TagHeader>::ref_from_slice(&b[..round8(SIZE)]).unwrap();
    let tag = generic.cast::<ModuleTag>();
    let content = &b[16..SIZE];
    let r = tag.cmdline();
    match first_nul(content) {
        None => assert!(matches!(r, Err(StringError::MissingNul(_)))),
        Some(n) => {
            if utf8_valid(&content[..n]) {
                match r {
                    Ok(s) => {
                        assert!(s.as_ptr() == b[16..].as_ptr());
                        assert!(s.len() == n);
                    }
                    Err(_) => assert!(false),
                }
            } else {
                assert!(matches!(r, Err(StringError::Utf8(_))));
            }
        }
    }
    kani::cover!(first_nul(content).is_none() && b[SIZE] == 0);
    kani::cover!(matches!(r, Ok(s) if s.len() == 2));
    kani::cover!(matches!(r, Err(StringError::Utf8(_))));
}

// ---- C07/C17: constructor.  Bounded: all (start, end) with end > start, ASCII
// text (NUL allowed anywhere) of symbolic length 0..=9 (every padding residue).
#[kani::proof]
#[kani::unwind(12)]
pub fn k_module_new() {
    let raw: [u8; 9] = kani::any();
    let len: usize = kani::any();
    kani::assume(len <= 9);
    let sb = &raw[..len];
    kani::assume(is_ascii(sb));
    let s = unsafe { core::str::from_utf8_unchecked(sb) };
    let start: u32 = kani::any();
    let end: u32 = kani::any();
    kani::assume(end > start);
    let tag = ModuleTag::new(start, end, s);
    let ends_nul = len > 0 && sb[len - 1] == 0;
    let want = 16 + len + if ends_nul { 0 } else { 1 };
    assert!(u32::from(tag.header.typ) == 3);
    assert!(tag.header.typ == ModuleTag::ID);
    assert!(tag.header.size as usize == want);
    assert!(tag.start_address() == start && tag.end_address() == end);
    assert!(tag.module_size() == end - start);
    let ab = tag.as_bytes();
    let img: &[u8] = *ab;
    assert!(img.len() == round8(want));
    assert!(img.as_ptr() as usize % 8 == 0);
    assert!(le32(img, 0) == 3);
    assert!(le32(img, 4) as usize == want);
    assert!(le32(img, 8) == start);
    assert!(le32(img, 12) == end);
    let mut i = 0;
    while i < len {
        assert!(img[16 + i] == sb[i]);
        i += 1;
    }
    assert!(img[want - 1] == 0);
    kani::cover!(len == 9 && !ends_nul);
    kani::cover!(len == 5 && ends_nul);
    kani::cover!(len == 0);
}

// ---- C07 (b): the constructor documents `end > start` ("must have a size");
// any other range must be rejected by its controlled panic.
#[kani::proof]
#[kani::unwind(6)]
pub fn k_module_new_rejects_empty_range() {
    let start: u32 = kani::any();
    let end: u32 = kani::any();
    let _tag = ModuleTag::new(start, end, "m");
    assert!(end > start);
}

// ---- C17: constructor read-back, ASCII text of exact length 3, all byte
// values 0..=0x7f (NUL allowed anywhere).
#[kani::proof]
#[kani::unwind(8)]
pub fn k_module_new_readback_len3() {
    let raw: [u8; 3] = kani::any();
    let sb = &raw[..];
    kani::assume(is_ascii(sb));
    let s = unsafe { core::str::from_utf8_unchecked(sb) };
    let tag = ModuleTag::new(1, 2, s);
    let r = tag.cmdline();
    match first_nul(sb) {
        None => assert!(r == Ok(s)),
        Some(n) => assert!(matches!(r, Ok(t) if t.len() == n && t.as_bytes() == &sb[..n])),
    }
    kani::cover!(first_nul(sb).is_none());
    kani::cover!(first_nul(sb) == Some(1));
}

// ---- C04: ModuleIter yields exactly the module tags of the walk, in order.
// Bounded: a 48-byte tag area holding three tags at offsets 0, 24 and 40:
// declared sizes 17..=24 (symbolic), 16, and 8; ANY type numbers for the first
// two (which of them are module tags is symbolic), the third is not a module
// tag (too small); all other bytes symbolic.
#[kani::proof]
#[kani::unwind(6)]
pub fn k_module_iter() {
    let bytes = AlignedBytes(kani::any::<[u8; 48]>());
    let b = &bytes.0;
    let offs = [0usize, 24];
    let s0 = le32(b, 4) as usize;
    kani::assume(s0 >= 17 && s0 <= 24 && le32(b, 28) == 16 && le32(b, 44) == 8);
    kani::assume(le32(b, 40) != 3);
    let is_mod = [le32(b, 0) == 3, le32(b, 24) == 3];
    let mut it = module_iter(TagIter::new(&b[..]));
    let mut k = 0;
    while k < 2 {
        if is_mod[k] {
            let o = offs[k];
            let m = it.next().unwrap();
            assert!(core::ptr::addr_of!(*m).cast::<u8>() == b[o..].as_ptr());
            assert!(m.header.size == le32(b, o + 4));
            assert!(m.start_address() == le32(b, o + 8));
            assert!(m.cmdline.len() == le32(b, o + 4) as usize - 16);
        }
        k += 1;
    }
    assert!(it.next().is_none());
    kani::cover!(is_mod[0] && is_mod[1]);
    kani::cover!(!is_mod[0] && is_mod[1]);
    kani::cover!(!is_mod[0] && !is_mod[1]);
}

// ---- C05/C17: the accessor does not look past the DECLARED size.  Declared size
// SIZE with a string part of concrete non-NUL ASCII bytes; the padding up to the next
// 8-byte boundary and the neighbouring tag are symbolic: whatever they contain (a NUL
// in particular) the result is MissingNul.  Unwinding 14 covers a scan of the padded extent and beyond,
// so an accessor that reads the padded extent or beyond fails the assertion, not the bound.
fn no_nul_inside_declared<const SIZE: usize>() {
    let mut bytes = AlignedBytes([0u8; 32]);
    let mut k = SIZE;
    while k < 32 {
        bytes.0[k] = kani::any();
        k += 1;
    }
    bytes.0[0..4].copy_from_slice(&3u32.to_le_bytes());
    bytes.0[4..8].copy_from_slice(&(SIZE as u32).to_le_bytes());
    let mut i = 16;
    while i < SIZE {
        bytes.0[i] = b'a' + (i as u8 % 7);
        i += 1;
    }
    let b = &bytes.0;
    let generic = DynSizedStructure::<TagHeader>::ref_from_slice(&b[..round8(SIZE)]).unwrap();
    let tag = generic.cast::<ModuleTag>();
    let r = tag.cmdline();
    assert!(matches!(r, Err(StringError::MissingNul(_))));
    kani::cover!(b[SIZE] == 0);
    kani::cover!(b[round8(SIZE)] == 0);
}
#[kani::proof]
#[kani::unwind(14)]
pub fn k_module_padding_nul_not_counted_a() {
    no_nul_inside_declared::<19>();
}
#[kani::proof]
#[kani::unwind(14)]
pub fn k_module_padding_nul_not_counted_b() {
    no_nul_inside_declared::<21>();
}
