// Engine K harnesses for multiboot2/src/network.rs (C05/C07).
// Spec (Multiboot2 3.6.16 "Networking information"): u32 type = 16, u32 size,
// then the DHCP ACK from byte 8 up to size.
use super::*;
use multiboot2_common::test_utils::AlignedBytes;
use multiboot2_common::DynSizedStructure;

fn round8(n: usize) -> usize {
    (n + 7) / 8 * 8
}
fn le32(b: &[u8], o: usize) -> u32 {
    u32::from_le_bytes([b[o], b[o + 1], b[o + 2], b[o + 3]])
}

// ---- C05 (a): extent of the DHCP part for every well-formed declared size
// 8..=24 in a 32-byte region (all bytes symbolic).
#[kani::proof]
pub fn k_network_extent() {
    let bytes = AlignedBytes(kani::any::<[u8; 32]>());
    let b = &bytes.0;
    kani::assume(le32(b, 0) == 16);
    let size = le32(b, 4) as usize;
    kani::assume(size >= 8 && size <= 24);
    let generic = DynSizedStructure::<TagHeader>::ref_from_slice(&b[..round8(size)]).unwrap();
    let tag = generic.cast::<NetworkTag>();
    assert!(tag.typ == TagType::Network);
    assert!(u32::from(tag.typ) == 16);
    assert!(tag.size as usize == size);
    assert!(tag.dhcpack.as_ptr() == b[8..].as_ptr());
    assert!(tag.dhcpack.len() == size - 8);
    kani::cover!(size == 13);
    kani::cover!(size == 8);
}

// ---- C05 (b): every declared size (any u32) in a 24-byte region.
#[kani::proof]
pub fn k_network_size_any() {
    let bytes = AlignedBytes(kani::any::<[u8; 24]>());
    let b = &bytes.0;
    kani::assume(le32(b, 0) == 16);
    let size = le32(b, 4) as usize;
    match DynSizedStructure::<TagHeader>::ref_from_slice(&b[..]) {
        Ok(generic) => {
            let tag = generic.cast::<NetworkTag>();
            assert!(size >= 8 && size <= 24);
            assert!(tag.dhcpack.as_ptr() == b[8..].as_ptr());
            assert!(tag.dhcpack.len() == size - 8);
        }
        Err(e) => {
            assert!(size > 24);
            assert!(e == multiboot2_common::MemoryError::InvalidReportedTotalSize);
        }
    }
}

// ---- C05 (b'): NetworkTag::dst_len itself (it is what `cast` relies on) for
// every header size: a value only for size >= 8, otherwise a controlled panic
// -- never an arithmetic overflow.
#[kani::proof]
pub fn k_network_dst_len_any() {
    let size: u32 = kani::any();
    let h = TagHeader::new(TagType::Network, size);
    let n = <NetworkTag as MaybeDynSized>::dst_len(&h);
    assert!(size >= 8 && n == size as usize - 8);
}

// ---- C07: constructor.  Bounded: DHCP data of symbolic length 0..=9 (every
// padding residue), all byte values.
#[kani::proof]
#[kani::unwind(12)]
pub fn k_network_new() {
    let raw: [u8; 9] = kani::any();
    let len: usize = kani::any();
    kani::assume(len <= 9);
    let dhcp = &raw[..len];
    let tag = NetworkTag::new(dhcp);
    let want = 8 + len;
    assert!(u32::from(tag.typ) == 16);
    assert!(tag.typ == NetworkTag::ID);
    assert!(tag.size as usize == want);
    assert!(tag.header().size as usize == want);
    assert!(tag.dhcpack.len() == len);
    let ab = tag.as_bytes();
    let img: &[u8] = *ab;
    assert!(img.len() == round8(want));
    assert!(img.as_ptr() as usize % 8 == 0);
    assert!(le32(img, 0) == 16);
    assert!(le32(img, 4) as usize == want);
    let mut i = 0;
    while i < len {
        assert!(img[8 + i] == dhcp[i]);
        assert!(tag.dhcpack[i] == dhcp[i]);
        i += 1;
    }
    kani::cover!(len == 9);
    kani::cover!(len == 0);
}
