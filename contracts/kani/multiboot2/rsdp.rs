// Engine K harnesses for multiboot2/src/rsdp.rs (C04 decode incl. checksum
// validity, C07 constructors, C20 ID table, C01 extent of the checksum read).
// Oracle: Multiboot2 spec 3.6.14 "ACPI old RSDP" (type 14, size 8 + 20 = 28) and
// 3.6.15 "ACPI new RSDP" (type 15, size 8 + 36 = 44); the embedded RSDP follows
// the ACPI spec (all little endian), offsets relative to the tag start:
//   signature[8] @8, checksum u8 @16, oem_id[6] @17, revision u8 @23,
//   rsdt_address u32 @24                                    (ACPI 1.0: 20 bytes)
//   length u32 @28, xsdt_address u64 @32, ext_checksum u8 @40, reserved[3] @41
//                                                           (ACPI 2.0: 36 bytes)
// Checksum validity: v1 <=> sum of tag bytes [8, 28) == 0 mod 256,
//                    v2 <=> sum of tag bytes [8, 44) == 0 mod 256.
// Decode/constructor harnesses are loop-free (complete); the checksum and
// string harnesses contain constant-trip-count loops (complete for the stated
// sizes, unwind values are just large enough for them).
use super::*;
use crate::TagTypeId;
use multiboot2_common::test_utils::AlignedBytes;
use multiboot2_common::DynSizedStructure;

fn le32(b: &[u8], o: usize) -> u32 {
    u32::from_le_bytes([b[o], b[o + 1], b[o + 2], b[o + 3]])
}
fn le64(b: &[u8], o: usize) -> u64 {
    u64::from_le_bytes([
        b[o],
        b[o + 1],
        b[o + 2],
        b[o + 3],
        b[o + 4],
        b[o + 5],
        b[o + 6],
        b[o + 7],
    ])
}
/// independent byte sum of b[from..to] mod 256
fn sum8(b: &[u8], from: usize, to: usize) -> u8 {
    let mut s: u32 = 0;
    let mut i = from;
    while i < to {
        s = (s + b[i] as u32) % 256;
        i += 1;
    }
    s as u8
}

fn v1_from(b: &[u8; 32]) -> &RsdpV1Tag {
    DynSizedStructure::<TagHeader>::ref_from_slice(&b[..])
        .unwrap()
        .cast::<RsdpV1Tag>()
}
fn v2_from(b: &[u8; 48]) -> &RsdpV2Tag {
    DynSizedStructure::<TagHeader>::ref_from_slice(&b[..])
        .unwrap()
        .cast::<RsdpV2Tag>()
}

// ---- C20 (ID table)
#[kani::proof]
pub fn k_rsdp_ids() {
    assert!(u32::from(<RsdpV1Tag as Tag>::ID) == 14);
    assert!(u32::from(<RsdpV2Tag as Tag>::ID) == 15);
    assert!(u32::from(TagTypeId::from(<RsdpV1Tag as Tag>::ID)) == 14);
    assert!(u32::from(TagTypeId::from(<RsdpV2Tag as Tag>::ID)) == 15);
}

// ---- C04: v1 scalar fields (loop-free)
#[kani::proof]
pub fn k_rsdpv1_decode() {
    let bytes = AlignedBytes(kani::any::<[u8; 32]>()); // round8(28)
    let b = &bytes.0;
    kani::assume(le32(b, 0) == 14);
    kani::assume(le32(b, 4) == 28);
    let tag = v1_from(b);
    assert!(core::ptr::addr_of!(*tag).cast::<u8>() == b.as_ptr());
    assert!(core::mem::size_of_val(tag) == 32);
    assert!(u32::from(tag.header().typ) == 14);
    assert!(tag.header().size == 28);
    assert!(tag.revision() == b[23]);
    assert!(tag.rsdt_address() == le32(b, 24) as usize);
    // fields without a public accessor (layout facts used by the accessors above/below)
    assert!(tag.checksum == b[16]);
    assert!(tag.signature.as_ptr() == b[8..].as_ptr());
    assert!(tag.oem_id.as_ptr() == b[17..].as_ptr());
    kani::cover!(tag.revision() == 2 && tag.rsdt_address() == 0x000e_0000);
}

// ---- C04: v1 checksum validity <=> sum of the 20 RSDP bytes == 0 (mod 256).  The unwinding bound covers a
// scan of the whole padded struct, so a sum over too many bytes fails the assertion rather than the bound.
#[kani::proof]
#[kani::unwind(34)]
pub fn k_rsdpv1_checksum() {
    let bytes = AlignedBytes(kani::any::<[u8; 32]>());
    let b = &bytes.0;
    kani::assume(le32(b, 0) == 14);
    kani::assume(le32(b, 4) == 28);
    let tag = v1_from(b);
    let valid = tag.checksum_is_valid();
    assert!(valid == (sum8(b, 8, 28) == 0));
    kani::cover!(valid && b[8] == b'R' && b[27] != 0);
    kani::cover!(!valid);
}

// ---- C04: v1 string accessors: Ok(s) => s is exactly the field's bytes (in place);
// Err only if some byte is non-ASCII (split per accessor to keep the solver time low)
#[kani::proof]
#[kani::unwind(10)]
pub fn k_rsdpv1_signature() {
    let bytes = AlignedBytes(kani::any::<[u8; 32]>());
    let b = &bytes.0;
    kani::assume(le32(b, 0) == 14);
    kani::assume(le32(b, 4) == 28);
    let tag = v1_from(b);
    match tag.signature() {
        Ok(s) => {
            assert!(s.len() == 8 && s.as_ptr() == b[8..].as_ptr());
        }
        Err(_) => {
            assert!(b[8] >= 0x80 || b[9] >= 0x80 || b[10] >= 0x80 || b[11] >= 0x80
                || b[12] >= 0x80 || b[13] >= 0x80 || b[14] >= 0x80 || b[15] >= 0x80);
        }
    }
    kani::cover!(tag.signature().is_ok() && b[8] == b'R' && b[15] == b' ');
    kani::cover!(tag.signature().is_err());
}

#[kani::proof]
#[kani::unwind(8)]
pub fn k_rsdpv1_oem_id() {
    let bytes = AlignedBytes(kani::any::<[u8; 32]>());
    let b = &bytes.0;
    kani::assume(le32(b, 0) == 14);
    kani::assume(le32(b, 4) == 28);
    let tag = v1_from(b);
    match tag.oem_id() {
        Ok(s) => {
            assert!(s.len() == 6 && s.as_ptr() == b[17..].as_ptr());
        }
        Err(_) => {
            assert!(b[17] >= 0x80 || b[18] >= 0x80 || b[19] >= 0x80 || b[20] >= 0x80
                || b[21] >= 0x80 || b[22] >= 0x80);
        }
    }
    kani::cover!(tag.oem_id().is_ok() && b[17] == b'B' && b[22] == b'S');
    kani::cover!(tag.oem_id().is_err());
}

// ---- C04: v2 scalar fields (loop-free)
#[kani::proof]
pub fn k_rsdpv2_decode() {
    let bytes = AlignedBytes(kani::any::<[u8; 48]>()); // round8(44)
    let b = &bytes.0;
    kani::assume(le32(b, 0) == 15);
    kani::assume(le32(b, 4) == 44);
    let tag = v2_from(b);
    assert!(core::ptr::addr_of!(*tag).cast::<u8>() == b.as_ptr());
    assert!(core::mem::size_of_val(tag) == 48);
    assert!(u32::from(tag.header().typ) == 15);
    assert!(tag.header().size == 44);
    assert!(tag.revision() == b[23]);
    assert!(tag.xsdt_address() == le64(b, 32) as usize);
    assert!(tag.xsdt_address() as u64 == le64(b, 32));
    assert!(tag.ext_checksum() == b[40]);
    // fields without a public accessor
    assert!(tag.checksum == b[16]);
    assert!(tag.rsdt_address == le32(b, 24));
    assert!(tag.length == le32(b, 28));
    assert!(tag.signature.as_ptr() == b[8..].as_ptr());
    assert!(tag.oem_id.as_ptr() == b[17..].as_ptr());
    kani::cover!(tag.revision() == 2 && tag.xsdt_address() == 0x1_0000_0000 && tag.ext_checksum() == 7);
}

// ---- C04: v2 checksum validity for a conformant RSDP (length field == 36)
#[kani::proof]
#[kani::unwind(50)]
pub fn k_rsdpv2_checksum_len36() {
    let bytes = AlignedBytes(kani::any::<[u8; 48]>());
    let b = &bytes.0;
    kani::assume(le32(b, 0) == 15);
    kani::assume(le32(b, 4) == 44);
    kani::assume(le32(b, 28) == 36);
    let tag = v2_from(b);
    let valid = tag.checksum_is_valid();
    assert!(valid == (sum8(b, 8, 44) == 0));
    kani::cover!(valid && b[8] == b'R');
    kani::cover!(!valid);
}

// ---- C01: v2 checksum computation for EVERY value of the (untrusted) RSDP
// length field 0..=96 (bounded: unwind 100) never reads outside the tag's 48
// bytes (no assertion on the result here: only Kani's memory-safety checks).
#[kani::proof]
#[kani::unwind(100)]
pub fn k_rsdpv2_checksum_extent() {
    let bytes = AlignedBytes(kani::any::<[u8; 48]>());
    let b = &bytes.0;
    kani::assume(le32(b, 0) == 15);
    kani::assume(le32(b, 4) == 44);
    kani::assume(le32(b, 28) <= 96);
    let tag = v2_from(b);
    let _ = tag.checksum_is_valid();
    kani::cover!(le32(b, 28) == 96);
}

// ---- C01/C04: v2 checksum validity for EVERY value of the (untrusted) RSDP
// length field 0..=96 (bounded: unwind 100): the result is decided by the 36
// bytes of the tag and nothing outside the tag's 48 bytes is read.
#[kani::proof]
#[kani::unwind(100)]
pub fn k_rsdpv2_checksum_any_length() {
    let bytes = AlignedBytes(kani::any::<[u8; 48]>());
    let b = &bytes.0;
    kani::assume(le32(b, 0) == 15);
    kani::assume(le32(b, 4) == 44);
    kani::assume(le32(b, 28) <= 96);
    let tag = v2_from(b);
    let valid = tag.checksum_is_valid();
    // ACPI: the extended checksum covers `length` bytes of the RSDP.  The tag
    // embeds 36 of them; a spec-conformant tag has length == 36 (C04).  A longer
    // length cannot be validated from the tag and must not be read (C01).
    let len = le32(b, 28) as usize;
    if len == 36 {
        assert!(valid == (sum8(b, 8, 44) == 0));
    } else if len > 36 {
        assert!(!valid);
    } else {
        assert!(valid == (sum8(b, 8, 8 + len) == 0));
    }
    kani::cover!(le32(b, 28) == 96);
    kani::cover!(le32(b, 28) == 36 && valid);
}

// ---- C04: v2 string accessors: Ok(s) => s is exactly the field's bytes (in place);
// Err only if some byte is non-ASCII (split per accessor to keep the solver time low)
#[kani::proof]
#[kani::unwind(10)]
pub fn k_rsdpv2_signature() {
    let bytes = AlignedBytes(kani::any::<[u8; 48]>());
    let b = &bytes.0;
    kani::assume(le32(b, 0) == 15);
    kani::assume(le32(b, 4) == 44);
    let tag = v2_from(b);
    match tag.signature() {
        Ok(s) => {
            assert!(s.len() == 8 && s.as_ptr() == b[8..].as_ptr());
        }
        Err(_) => {
            assert!(b[8] >= 0x80 || b[9] >= 0x80 || b[10] >= 0x80 || b[11] >= 0x80
                || b[12] >= 0x80 || b[13] >= 0x80 || b[14] >= 0x80 || b[15] >= 0x80);
        }
    }
    kani::cover!(tag.signature().is_ok() && b[8] == b'R' && b[15] == b' ');
    kani::cover!(tag.signature().is_err());
}

#[kani::proof]
#[kani::unwind(8)]
pub fn k_rsdpv2_oem_id() {
    let bytes = AlignedBytes(kani::any::<[u8; 48]>());
    let b = &bytes.0;
    kani::assume(le32(b, 0) == 15);
    kani::assume(le32(b, 4) == 44);
    let tag = v2_from(b);
    match tag.oem_id() {
        Ok(s) => {
            assert!(s.len() == 6 && s.as_ptr() == b[17..].as_ptr());
        }
        Err(_) => {
            assert!(b[17] >= 0x80 || b[18] >= 0x80 || b[19] >= 0x80 || b[20] >= 0x80
                || b[21] >= 0x80 || b[22] >= 0x80);
        }
    }
    kani::cover!(tag.oem_id().is_ok() && b[17] == b'B' && b[22] == b'S');
    kani::cover!(tag.oem_id().is_err());
}

// ---- C07: constructors
fn check_v1(by: &[u8], checksum: u8, oem: [u8; 6], revision: u8, rsdt: u32) {
    assert!(by.len() >= 28);
    assert!(by[0..4] == 14u32.to_le_bytes());
    assert!(by[4..8] == 28u32.to_le_bytes());
    assert!(by[8..16] == *b"RSD PTR ");
    assert!(by[16] == checksum);
    assert!(by[17..23] == oem);
    assert!(by[23] == revision);
    assert!(by[24..28] == rsdt.to_le_bytes());
}

#[kani::proof]
pub fn k_rsdpv1_new_image() {
    let checksum: u8 = kani::any();
    let oem: [u8; 6] = kani::any();
    let revision: u8 = kani::any();
    let rsdt: u32 = kani::any();
    let tag = RsdpV1Tag::new(checksum, oem, revision, rsdt);
    assert!(core::mem::align_of::<RsdpV1Tag>() == 8);
    assert!(u32::from(tag.header().typ) == 14);
    assert!(tag.header().typ == <RsdpV1Tag as Tag>::ID);
    assert!(tag.header().size == 28);
    check_v1(&tag.as_bytes(), checksum, oem, revision, rsdt);
    assert!(tag.revision() == revision);
    assert!(tag.rsdt_address() == rsdt as usize);
    let arr = [RsdpV1Tag::new(0, [0; 6], 0, 0), RsdpV1Tag::new(checksum, oem, revision, rsdt)];
    check_v1(&arr[1].as_bytes(), checksum, oem, revision, rsdt);
}

fn check_v2(
    by: &[u8],
    checksum: u8,
    oem: [u8; 6],
    revision: u8,
    rsdt: u32,
    length: u32,
    xsdt: u64,
    ext: u8,
) {
    assert!(by.len() >= 44);
    assert!(by[0..4] == 15u32.to_le_bytes());
    assert!(by[4..8] == 44u32.to_le_bytes());
    assert!(by[8..16] == *b"RSD PTR ");
    assert!(by[16] == checksum);
    assert!(by[17..23] == oem);
    assert!(by[23] == revision);
    assert!(by[24..28] == rsdt.to_le_bytes());
    assert!(by[28..32] == length.to_le_bytes());
    assert!(by[32..40] == xsdt.to_le_bytes());
    assert!(by[40] == ext);
    assert!(by[41] == 0 && by[42] == 0 && by[43] == 0);
}

#[kani::proof]
pub fn k_rsdpv2_new_image() {
    let checksum: u8 = kani::any();
    let oem: [u8; 6] = kani::any();
    let revision: u8 = kani::any();
    let rsdt: u32 = kani::any();
    let length: u32 = kani::any();
    let xsdt: u64 = kani::any();
    let ext: u8 = kani::any();
    let tag = RsdpV2Tag::new(checksum, oem, revision, rsdt, length, xsdt, ext);
    assert!(core::mem::align_of::<RsdpV2Tag>() == 8);
    assert!(u32::from(tag.header().typ) == 15);
    assert!(tag.header().typ == <RsdpV2Tag as Tag>::ID);
    assert!(tag.header().size == 44);
    check_v2(&tag.as_bytes(), checksum, oem, revision, rsdt, length, xsdt, ext);
    assert!(tag.revision() == revision);
    assert!(tag.xsdt_address() as u64 == xsdt);
    assert!(tag.ext_checksum() == ext);
    let arr = [
        RsdpV2Tag::new(0, [0; 6], 0, 0, 0, 0, 0),
        RsdpV2Tag::new(checksum, oem, revision, rsdt, length, xsdt, ext),
    ];
    check_v2(&arr[1].as_bytes(), checksum, oem, revision, rsdt, length, xsdt, ext);
}
