// Engine K harnesses for multiboot2/src/smbios.rs (C04/C05/C07).
// Spec (Multiboot2 3.6.15 "SMBIOS tables"): u32 type = 13, u32 size, u8 major @8,
// u8 minor @9, u8 reserved[6] @10, then the SMBIOS tables from byte 16 up to size.
use super::*;
use multiboot2_common::test_utils::AlignedBytes;
use multiboot2_common::DynSizedStructure;

fn round8(n: usize) -> usize {
    (n + 7) / 8 * 8
}
fn le32(b: &[u8], o: usize) -> u32 {
    u32::from_le_bytes([b[o], b[o + 1], b[o + 2], b[o + 3]])
}

// ---- C04/C05 (a): fields and extent of the tables for every well-formed
// declared size 16..=32 in a 40-byte region (all bytes symbolic: padding and the
// neighbouring 8 bytes hold arbitrary marker values).
#[kani::proof]
pub fn k_smbios_extent() {
    let bytes = AlignedBytes(kani::any::<[u8; 40]>());
    let b = &bytes.0;
    kani::assume(le32(b, 0) == 13);
    let size = le32(b, 4) as usize;
    kani::assume(size >= 16 && size <= 32);
    let generic = DynSizedStructure::<TagHeader>::ref_from_slice(&b[..round8(size)]).unwrap();
    let tag = generic.cast::<SmbiosTag>();
    assert!(tag.header.typ == TagType::Smbios);
    assert!(tag.header.size as usize == size);
    assert!(tag.major() == b[8]);
    assert!(tag.minor() == b[9]);
    let t = tag.tables();
    assert!(t.as_ptr() == b[16..].as_ptr());
    assert!(t.len() == size - 16);
    kani::cover!(size == 25);
    kani::cover!(size == 16);
}

// ---- C05 (b): every declared size (any u32) in a 24-byte region: a typed view
// is only produced for 16 <= size <= 24; smaller sizes are rejected by a
// controlled panic, larger ones by Err(InvalidReportedTotalSize).
#[kani::proof]
pub fn k_smbios_size_any() {
    let bytes = AlignedBytes(kani::any::<[u8; 24]>());
    let b = &bytes.0;
    kani::assume(le32(b, 0) == 13);
    let size = le32(b, 4) as usize;
    match DynSizedStructure::<TagHeader>::ref_from_slice(&b[..]) {
        Ok(generic) => {
            let tag = generic.cast::<SmbiosTag>();
            assert!(size >= 16 && size <= 24);
            assert!(tag.tables().as_ptr() == b[16..].as_ptr());
            assert!(tag.tables().len() == size - 16);
        }
        Err(e) => {
            assert!(size > 24);
            assert!(e == multiboot2_common::MemoryError::InvalidReportedTotalSize);
        }
    }
}

// ---- C07: constructor.  Bounded: all (major, minor), tables of symbolic
// length 0..=9 (every padding residue), all byte values.
#[kani::proof]
#[kani::unwind(12)]
pub fn k_smbios_new() {
    let raw: [u8; 9] = kani::any();
    let len: usize = kani::any();
    kani::assume(len <= 9);
    let tables = &raw[..len];
    let major: u8 = kani::any();
    let minor: u8 = kani::any();
    let tag = SmbiosTag::new(major, minor, tables);
    let want = 16 + len;
    assert!(u32::from(tag.header.typ) == 13);
    assert!(tag.header.typ == SmbiosTag::ID);
    assert!(tag.header.size as usize == want);
    assert!(tag.major() == major && tag.minor() == minor);
    assert!(tag.tables().len() == len);
    let ab = tag.as_bytes();
    let img: &[u8] = *ab;
    assert!(img.len() == round8(want));
    assert!(img.as_ptr() as usize % 8 == 0);
    assert!(le32(img, 0) == 13);
    assert!(le32(img, 4) as usize == want);
    assert!(img[8] == major && img[9] == minor);
    assert!(img[10] == 0 && img[11] == 0 && img[12] == 0 && img[13] == 0 && img[14] == 0 && img[15] == 0);
    let mut i = 0;
    while i < len {
        assert!(img[16 + i] == tables[i]);
        assert!(tag.tables()[i] == tables[i]);
        i += 1;
    }
    kani::cover!(len == 9);
    kani::cover!(len == 0);
}

// ---- C16: cloning a DST tag kind that has fixed fields after the header (BASE_SIZE 16 > header 8):
// the clone declares the same size and has the same bytes up to that size, for every content
// length 0..=9 (every padding residue).
#[kani::proof]
#[kani::unwind(28)]
pub fn k_smbios_clone_dyn() {
    let raw: [u8; 9] = kani::any();
    let len: usize = kani::any();
    kani::assume(len <= 9);
    let tag = SmbiosTag::new(kani::any(), kani::any(), &raw[..len]);
    let clone = multiboot2_common::clone_dyn::<SmbiosTag>(&tag);
    assert!(clone.header.size == tag.header.size);
    assert!(clone.header.size as usize == 16 + len);
    assert!(clone.major() == tag.major() && clone.minor() == tag.minor());
    assert!(clone.tables().len() == len);
    let (a, b) = (tag.as_bytes(), clone.as_bytes());
    let (ia, ib): (&[u8], &[u8]) = (*a, *b);
    assert!(ia.len() == ib.len());
    let mut i = 0;
    while i < 16 + len {
        assert!(ia[i] == ib[i]);
        i += 1;
    }
    kani::cover!(len == 5);
}
