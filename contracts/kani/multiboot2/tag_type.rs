// Engine K harnesses for multiboot2/src/tag_type.rs (C20).  All are loop-free
// over full-domain symbolic u32s: complete proofs on the compiled code.
use super::*;

/// specification table (Multiboot2 spec, section 3.6): number -> named variant
fn spec_tag_type(v: u32) -> TagType {
    match v {
        0 => TagType::End,
        1 => TagType::Cmdline,
        2 => TagType::BootLoaderName,
        3 => TagType::Module,
        4 => TagType::BasicMeminfo,
        5 => TagType::Bootdev,
        6 => TagType::Mmap,
        7 => TagType::Vbe,
        8 => TagType::Framebuffer,
        9 => TagType::ElfSections,
        10 => TagType::Apm,
        11 => TagType::Efi32,
        12 => TagType::Efi64,
        13 => TagType::Smbios,
        14 => TagType::AcpiV1,
        15 => TagType::AcpiV2,
        16 => TagType::Network,
        17 => TagType::EfiMmap,
        18 => TagType::EfiBs,
        19 => TagType::Efi32Ih,
        20 => TagType::Efi64Ih,
        21 => TagType::LoadBaseAddr,
        c => TagType::Custom(c),
    }
}

#[kani::proof]
pub fn k_tagtype_roundtrip_all_u32() {
    let v: u32 = kani::any();
    let t = TagType::from(v);
    // lossless
    assert!(u32::from(t) == v);
    assert!(t.val() == v);
    // specified numbers map to named variants, everything else to Custom
    assert!(t == spec_tag_type(v));
    if v > 21 {
        assert!(matches!(t, TagType::Custom(c) if c == v));
    } else {
        assert!(!matches!(t, TagType::Custom(_)));
    }
}

#[kani::proof]
pub fn k_tagtype_id_wrapper_commutes() {
    let v: u32 = kani::any();
    let id = TagTypeId::from(v);
    assert!(u32::from(id) == v);
    assert!(TagTypeId::new(v) == id);
    // through the id wrapper == direct
    assert!(TagType::from(id) == TagType::from(v));
    assert!(TagTypeId::from(TagType::from(v)) == id);
    assert!(u32::from(TagTypeId::from(TagType::from(v))) == v);
}

#[kani::proof]
pub fn k_tagtype_equalities_agree() {
    let a: u32 = kani::any();
    let b: u32 = kani::any();
    let (ta, tb) = (TagType::from(a), TagType::from(b));
    let (ia, ib) = (TagTypeId::from(a), TagTypeId::from(b));
    let eq = a == b;
    assert!((ta == tb) == eq);
    assert!((ia == ib) == eq);
    assert!((ta == ib) == eq);
    assert!((ia == tb) == eq);
    assert!((ia == b) == eq);
    assert!((a == ib) == eq);
    assert!((ta == b) == eq);
    assert!((a == tb) == eq);
}

/// a symbolic TagType *value* (including non-canonical Custom(0..=21)) still
/// converts to its number and compares by number
#[kani::proof]
pub fn k_tagtype_custom_noncanonical() {
    let c: u32 = kani::any();
    let t = TagType::Custom(c);
    assert!(u32::from(t) == c);
    assert!(u32::from(TagTypeId::from(t)) == c);
    assert!(t == c && c == t);
    // equality with ids agrees with numeric equality also for non-canonical Custom(0..=21)
    let d: u32 = kani::any();
    let id = TagTypeId::new(d);
    assert!((t == id) == (c == d));
    assert!((id == t) == (c == d));
    kani::cover!(c == 0 && d == 0);
}
