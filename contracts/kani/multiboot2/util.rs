// Engine K harnesses for multiboot2/src/util.rs (C17: parse_slice_as_string).
use super::*;

/// independent oracle: index of the first NUL in s, if any
fn first_nul(s: &[u8]) -> Option<usize> {
    let mut i = 0;
    while i < s.len() {
        if s[i] == 0 {
            return Some(i);
        }
        i += 1;
    }
    None
}

/// independent oracle: well-formed UTF-8 byte sequences per the Unicode
/// Standard, table 3-7 (no overlong forms, no surrogates, max U+10FFFF).
fn utf8_valid(s: &[u8]) -> bool {
    let mut i = 0;
    while i < s.len() {
        let a = s[i];
        let n = if a < 0x80 {
            0
        } else if a >= 0xC2 && a <= 0xDF {
            1
        } else if a >= 0xE0 && a <= 0xEF {
            2
        } else if a >= 0xF0 && a <= 0xF4 {
            3
        } else {
            return false;
        };
        if i + n >= s.len() {
            return false;
        }
        if n >= 1 {
            let (lo, hi) = match a {
                0xE0 => (0xA0, 0xBF),
                0xED => (0x80, 0x9F),
                0xF0 => (0x90, 0xBF),
                0xF4 => (0x80, 0x8F),
                _ => (0x80, 0xBF),
            };
            if s[i + 1] < lo || s[i + 1] > hi {
                return false;
            }
        }
        if n >= 2 && (s[i + 2] < 0x80 || s[i + 2] > 0xBF) {
            return false;
        }
        if n >= 3 && (s[i + 3] < 0x80 || s[i + 3] > 0xBF) {
            return false;
        }
        i += n + 1;
    }
    true
}

fn check(s: &[u8]) {
    let r = parse_slice_as_string(s);
    match first_nul(s) {
        None => assert!(matches!(r, Err(StringError::MissingNul(_)))),
        Some(n) => {
            if utf8_valid(&s[..n]) {
                match r {
                    Ok(t) => {
                        // exactly the bytes before the first NUL, in place
                        assert!(t.as_ptr() == s.as_ptr());
                        assert!(t.len() == n);
                    }
                    Err(_) => assert!(false),
                }
            } else {
                assert!(matches!(r, Err(StringError::Utf8(_))));
            }
        }
    }
}

fn check_len<const N: usize>() {
    let raw: [u8; N] = kani::any();
    check(&raw);
}

// Every byte string of the given exact length over all 256 byte values per
// position, FULL UTF-8 oracle (Unicode table 3-7).  One harness per length
// (concrete length keeps the solver time low); together: all strings of
// length 0..=6.
#[kani::proof]
#[kani::unwind(9)]
pub fn k_parse_string_len0() {
    check_len::<0>();
}
#[kani::proof]
#[kani::unwind(9)]
pub fn k_parse_string_len1() {
    check_len::<1>();
}
#[kani::proof]
#[kani::unwind(9)]
pub fn k_parse_string_len2() {
    check_len::<2>();
}
#[kani::proof]
#[kani::unwind(9)]
pub fn k_parse_string_len3() {
    check_len::<3>();
}
#[kani::proof]
#[kani::unwind(9)]
pub fn k_parse_string_len4() {
    check_len::<4>();
}
#[kani::proof]
#[kani::unwind(9)]
pub fn k_parse_string_len5() {
    check_len::<5>();
}
#[kani::proof]
#[kani::unwind(9)]
pub fn k_parse_string_len6() {
    check_len::<6>();
}
