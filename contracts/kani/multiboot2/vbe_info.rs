// Engine K harnesses for multiboot2/src/vbe_info.rs (C04 decode, C07 constructor,
// C20 ID table).  Oracle: Multiboot2 spec 3.6.9 "VBE info": type = 7, size = 784,
//   u16 vbe_mode @8, u16 vbe_interface_seg @10, u16 vbe_interface_off @12,
//   u16 vbe_interface_len @14, u8 vbe_control_info[512] @16, u8 vbe_mode_info[256] @528.
// VBE 3.0 VbeInfoBlock (offsets relative to @16), all little endian:
//   VbeSignature[4] 0, VbeVersion u16 4, OemStringPtr u32 6, Capabilities u32 10,
//   VideoModePtr u32 14, TotalMemory u16 18, OemSoftwareRev u16 20,
//   OemVendorNamePtr u32 22, OemProductNamePtr u32 26, OemProductRevPtr u32 30,
//   Reserved[222] 34, OemData[256] 256.
// VBE 3.0 ModeInfoBlock (offsets relative to @528):
//   ModeAttributes u16 0, WinAAttributes u8 2, WinBAttributes u8 3, WinGranularity u16 4,
//   WinSize u16 6, WinASegment u16 8, WinBSegment u16 10, WinFuncPtr u32 12,
//   BytesPerScanLine u16 16, XResolution u16 18, YResolution u16 20, XCharSize u8 22,
//   YCharSize u8 23, NumberOfPlanes u8 24, BitsPerPixel u8 25, NumberOfBanks u8 26,
//   MemoryModel u8 27, BankSize u8 28, NumberOfImagePages u8 29, Reserved u8 30,
//   RedMaskSize u8 31, RedFieldPosition u8 32, GreenMaskSize 33, GreenFieldPosition 34,
//   BlueMaskSize 35, BlueFieldPosition 36, RsvdMaskSize 37, RsvdFieldPosition 38,
//   DirectColorModeInfo u8 39, PhysBasePtr u32 40, OffScreenMemOffset u32 44,
//   OffScreenMemSize u16 48, rest reserved up to 256.
//   MemoryModel values: 0 text, 1 CGA, 2 Hercules, 3 planar, 4 packed pixel,
//   5 non-chain 4/256 colour, 6 direct colour, 7 YUV, 08h-0Fh reserved (VESA),
//   10h-FFh OEM defined.
// All decode harnesses use ALL 784 bytes symbolic and are loop-free (complete).
use super::*;
use crate::TagTypeId;
use multiboot2_common::test_utils::AlignedBytes;
use multiboot2_common::DynSizedStructure;

const CI: usize = 16; // offset of the control info block in the tag
const MI: usize = 528; // offset of the mode info block in the tag

fn le16(b: &[u8], o: usize) -> u16 {
    u16::from_le_bytes([b[o], b[o + 1]])
}
fn le32(b: &[u8], o: usize) -> u32 {
    u32::from_le_bytes([b[o], b[o + 1], b[o + 2], b[o + 3]])
}

fn vbe_from(b: &[u8; 784]) -> &VBEInfoTag {
    DynSizedStructure::<TagHeader>::ref_from_slice(&b[..])
        .unwrap()
        .cast::<VBEInfoTag>()
}

/// spec table for the memory model byte (named values only)
fn model_number(m: VBEMemoryModel) -> u8 {
    match m {
        VBEMemoryModel::Text => 0,
        VBEMemoryModel::CGAGraphics => 1,
        VBEMemoryModel::HerculesGraphics => 2,
        VBEMemoryModel::Planar => 3,
        VBEMemoryModel::PackedPixel => 4,
        VBEMemoryModel::Unchained => 5,
        VBEMemoryModel::DirectColor => 6,
        VBEMemoryModel::YUV => 7,
    }
}

// ---- C20 (ID table)
#[kani::proof]
pub fn k_vbe_id() {
    assert!(u32::from(<VBEInfoTag as Tag>::ID) == 7);
    assert!(u32::from(TagTypeId::from(<VBEInfoTag as Tag>::ID)) == 7);
}

// ---- C04: top-level fields
#[kani::proof]
pub fn k_vbe_decode_top() {
    let bytes = AlignedBytes(kani::any::<[u8; 784]>());
    let b = &bytes.0;
    kani::assume(le32(b, 0) == 7);
    kani::assume(le32(b, 4) == 784);
    let tag = vbe_from(b);
    assert!(core::ptr::addr_of!(*tag).cast::<u8>() == b.as_ptr());
    assert!(core::mem::size_of_val(tag) == 784);
    assert!(u32::from(tag.header().typ) == 7);
    assert!(tag.header().size == 784);
    assert!(tag.mode() == le16(b, 8));
    assert!(tag.interface_segment() == le16(b, 10));
    assert!(tag.interface_offset() == le16(b, 12));
    assert!(tag.interface_length() == le16(b, 14));
    // the embedded blocks start at the specified offsets
    assert!(core::ptr::addr_of!(tag.control_info).cast::<u8>() == b[CI..].as_ptr());
    assert!(core::ptr::addr_of!(tag.mode_info).cast::<u8>() == b[MI..].as_ptr());
    assert!(core::mem::size_of::<VBEControlInfo>() == 512);
    assert!(core::mem::size_of::<VBEModeInfo>() == 256);
    kani::cover!(tag.mode() == 0x4118 && tag.interface_length() == 0xfffe);
}

// ---- C04: control info fields
#[kani::proof]
pub fn k_vbe_decode_control() {
    let bytes = AlignedBytes(kani::any::<[u8; 784]>());
    let b = &bytes.0;
    kani::assume(le32(b, 0) == 7);
    kani::assume(le32(b, 4) == 784);
    let tag = vbe_from(b);
    let c = tag.control_info();
    assert!(c.signature == [b[CI], b[CI + 1], b[CI + 2], b[CI + 3]]);
    assert!({ c.version } == le16(b, CI + 4));
    assert!({ c.oem_string_ptr } == le32(b, CI + 6));
    assert!({ c.capabilities }.bits() == le32(b, CI + 10));
    assert!({ c.mode_list_ptr } == le32(b, CI + 14));
    assert!({ c.total_memory } == le16(b, CI + 18));
    assert!({ c.oem_software_revision } == le16(b, CI + 20));
    assert!({ c.oem_vendor_name_ptr } == le32(b, CI + 22));
    assert!({ c.oem_product_name_ptr } == le32(b, CI + 26));
    assert!({ c.oem_product_revision_ptr } == le32(b, CI + 30));
    // private tail areas, sampled at a symbolic index
    let i: usize = kani::any();
    kani::assume(i < 222);
    assert!(c.reserved[i] == b[CI + 34 + i]);
    let j: usize = kani::any();
    kani::assume(j < 256);
    assert!(c.oem_data[j] == b[CI + 256 + j]);
    kani::cover!(c.signature == *b"VESA" && { c.version } == 0x0300 && { c.oem_product_revision_ptr } == 0x1234_5678);
}

fn check_mode_fields(m: &VBEModeInfo, b: &[u8]) {
    assert!({ m.mode_attributes }.bits() == le16(b, MI));
    assert!({ m.window_a_attributes }.bits() == b[MI + 2]);
    assert!({ m.window_b_attributes }.bits() == b[MI + 3]);
    assert!({ m.window_granularity } == le16(b, MI + 4));
    assert!({ m.window_size } == le16(b, MI + 6));
    assert!({ m.window_a_segment } == le16(b, MI + 8));
    assert!({ m.window_b_segment } == le16(b, MI + 10));
    assert!({ m.window_function_ptr } == le32(b, MI + 12));
    assert!({ m.pitch } == le16(b, MI + 16));
    let res = m.resolution;
    assert!(res.0 == le16(b, MI + 18));
    assert!(res.1 == le16(b, MI + 20));
    let cs = m.character_size;
    assert!(cs.0 == b[MI + 22]);
    assert!(cs.1 == b[MI + 23]);
    assert!(m.number_of_planes == b[MI + 24]);
    assert!(m.bpp == b[MI + 25]);
    assert!(m.number_of_banks == b[MI + 26]);
    assert!(m.bank_size == b[MI + 28]);
    assert!(m.number_of_image_pages == b[MI + 29]);
    assert!(m.reserved0 == b[MI + 30]);
    assert!({ m.red_field }.size == b[MI + 31]);
    assert!({ m.red_field }.position == b[MI + 32]);
    assert!({ m.green_field }.size == b[MI + 33]);
    assert!({ m.green_field }.position == b[MI + 34]);
    assert!({ m.blue_field }.size == b[MI + 35]);
    assert!({ m.blue_field }.position == b[MI + 36]);
    assert!({ m.reserved_field }.size == b[MI + 37]);
    assert!({ m.reserved_field }.position == b[MI + 38]);
    assert!({ m.direct_color_attributes }.bits() == b[MI + 39]);
    assert!({ m.framebuffer_base_ptr } == le32(b, MI + 40));
    assert!({ m.offscreen_memory_offset } == le32(b, MI + 44));
    assert!({ m.offscreen_memory_size } == le16(b, MI + 48));
}

// ---- C04: mode info fields, memory model byte restricted to the named values 0..=7
#[kani::proof]
pub fn k_vbe_decode_mode() {
    let bytes = AlignedBytes(kani::any::<[u8; 784]>());
    let b = &bytes.0;
    kani::assume(le32(b, 0) == 7);
    kani::assume(le32(b, 4) == 784);
    kani::assume(b[MI + 27] <= 7);
    let tag = vbe_from(b);
    let m = tag.mode_info();
    check_mode_fields(&m, b);
    assert!(model_number(m.memory_model) == b[MI + 27]);
    let i: usize = kani::any();
    kani::assume(i < 206);
    assert!(m.reserved1[i] == b[MI + 50 + i]);
    kani::cover!({ m.pitch } == 4096 && m.bpp == 32 && m.memory_model == VBEMemoryModel::DirectColor
        && { m.framebuffer_base_ptr } == 0xfd00_0000 && { m.offscreen_memory_size } == 0x0102);
}

// ---- C04/C01: mode info for ALL 256 values of the memory model byte (08h-0Fh are
// reserved and 10h-FFh OEM-defined in VBE 3.0, so a firmware may store them):
// every other field still decodes, and reading `memory_model` yields a value that
// can be classified and numerically equals the stored byte.
#[kani::proof]
pub fn k_vbe_decode_mode_any_model() {
    let bytes = AlignedBytes(kani::any::<[u8; 784]>());
    let b = &bytes.0;
    kani::assume(le32(b, 0) == 7);
    kani::assume(le32(b, 4) == 784);
    let tag = vbe_from(b);
    let m = tag.mode_info();
    kani::cover!(b[MI + 27] == 0x10);
    check_mode_fields(&m, b);
    assert!(m.memory_model as u8 == b[MI + 27]);
    assert!(model_number(m.memory_model) == b[MI + 27]);
}

// ---- C07: constructor.  Arguments: four symbolic u16 and two blocks whose every
// field (including the private reserved areas) is symbolic.
fn any_model() -> VBEMemoryModel {
    let v: u8 = kani::any();
    kani::assume(v <= 7);
    match v {
        0 => VBEMemoryModel::Text,
        1 => VBEMemoryModel::CGAGraphics,
        2 => VBEMemoryModel::HerculesGraphics,
        3 => VBEMemoryModel::Planar,
        4 => VBEMemoryModel::PackedPixel,
        5 => VBEMemoryModel::Unchained,
        6 => VBEMemoryModel::DirectColor,
        _ => VBEMemoryModel::YUV,
    }
}
fn any_field() -> VBEField {
    VBEField {
        size: kani::any(),
        position: kani::any(),
    }
}
fn any_control() -> VBEControlInfo {
    VBEControlInfo {
        signature: kani::any(),
        version: kani::any(),
        oem_string_ptr: kani::any(),
        capabilities: VBECapabilities::from_bits_retain(kani::any()),
        mode_list_ptr: kani::any(),
        total_memory: kani::any(),
        oem_software_revision: kani::any(),
        oem_vendor_name_ptr: kani::any(),
        oem_product_name_ptr: kani::any(),
        oem_product_revision_ptr: kani::any(),
        reserved: kani::any(),
        oem_data: kani::any(),
    }
}
fn any_mode() -> VBEModeInfo {
    VBEModeInfo {
        mode_attributes: VBEModeAttributes::from_bits_retain(kani::any()),
        window_a_attributes: VBEWindowAttributes::from_bits_retain(kani::any()),
        window_b_attributes: VBEWindowAttributes::from_bits_retain(kani::any()),
        window_granularity: kani::any(),
        window_size: kani::any(),
        window_a_segment: kani::any(),
        window_b_segment: kani::any(),
        window_function_ptr: kani::any(),
        pitch: kani::any(),
        resolution: (kani::any(), kani::any()),
        character_size: (kani::any(), kani::any()),
        number_of_planes: kani::any(),
        bpp: kani::any(),
        number_of_banks: kani::any(),
        memory_model: any_model(),
        bank_size: kani::any(),
        number_of_image_pages: kani::any(),
        reserved0: kani::any(),
        red_field: any_field(),
        green_field: any_field(),
        blue_field: any_field(),
        reserved_field: any_field(),
        direct_color_attributes: VBEDirectColorAttributes::from_bits_retain(kani::any()),
        framebuffer_base_ptr: kani::any(),
        offscreen_memory_offset: kani::any(),
        offscreen_memory_size: kani::any(),
        reserved1: kani::any(),
    }
}

/// spec encoding of the two blocks compared with tag bytes `by`
fn check_control_image(by: &[u8], c: &VBEControlInfo) {
    assert!(by[CI..CI + 4] == c.signature);
    assert!(by[CI + 4..CI + 6] == { c.version }.to_le_bytes());
    assert!(by[CI + 6..CI + 10] == { c.oem_string_ptr }.to_le_bytes());
    assert!(by[CI + 10..CI + 14] == { c.capabilities }.bits().to_le_bytes());
    assert!(by[CI + 14..CI + 18] == { c.mode_list_ptr }.to_le_bytes());
    assert!(by[CI + 18..CI + 20] == { c.total_memory }.to_le_bytes());
    assert!(by[CI + 20..CI + 22] == { c.oem_software_revision }.to_le_bytes());
    assert!(by[CI + 22..CI + 26] == { c.oem_vendor_name_ptr }.to_le_bytes());
    assert!(by[CI + 26..CI + 30] == { c.oem_product_name_ptr }.to_le_bytes());
    assert!(by[CI + 30..CI + 34] == { c.oem_product_revision_ptr }.to_le_bytes());
    let i: usize = kani::any();
    kani::assume(i < 222);
    assert!(by[CI + 34 + i] == c.reserved[i]);
    let j: usize = kani::any();
    kani::assume(j < 256);
    assert!(by[CI + 256 + j] == c.oem_data[j]);
}
fn check_mode_image(by: &[u8], m: &VBEModeInfo) {
    assert!(by[MI..MI + 2] == { m.mode_attributes }.bits().to_le_bytes());
    assert!(by[MI + 2] == { m.window_a_attributes }.bits());
    assert!(by[MI + 3] == { m.window_b_attributes }.bits());
    assert!(by[MI + 4..MI + 6] == { m.window_granularity }.to_le_bytes());
    assert!(by[MI + 6..MI + 8] == { m.window_size }.to_le_bytes());
    assert!(by[MI + 8..MI + 10] == { m.window_a_segment }.to_le_bytes());
    assert!(by[MI + 10..MI + 12] == { m.window_b_segment }.to_le_bytes());
    assert!(by[MI + 12..MI + 16] == { m.window_function_ptr }.to_le_bytes());
    assert!(by[MI + 16..MI + 18] == { m.pitch }.to_le_bytes());
    let res = m.resolution;
    assert!(by[MI + 18..MI + 20] == res.0.to_le_bytes());
    assert!(by[MI + 20..MI + 22] == res.1.to_le_bytes());
    let cs = m.character_size;
    assert!(by[MI + 22] == cs.0);
    assert!(by[MI + 23] == cs.1);
    assert!(by[MI + 24] == m.number_of_planes);
    assert!(by[MI + 25] == m.bpp);
    assert!(by[MI + 26] == m.number_of_banks);
    assert!(by[MI + 27] == model_number(m.memory_model));
    assert!(by[MI + 28] == m.bank_size);
    assert!(by[MI + 29] == m.number_of_image_pages);
    assert!(by[MI + 30] == m.reserved0);
    assert!(by[MI + 31] == { m.red_field }.size);
    assert!(by[MI + 32] == { m.red_field }.position);
    assert!(by[MI + 33] == { m.green_field }.size);
    assert!(by[MI + 34] == { m.green_field }.position);
    assert!(by[MI + 35] == { m.blue_field }.size);
    assert!(by[MI + 36] == { m.blue_field }.position);
    assert!(by[MI + 37] == { m.reserved_field }.size);
    assert!(by[MI + 38] == { m.reserved_field }.position);
    assert!(by[MI + 39] == { m.direct_color_attributes }.bits());
    assert!(by[MI + 40..MI + 44] == { m.framebuffer_base_ptr }.to_le_bytes());
    assert!(by[MI + 44..MI + 48] == { m.offscreen_memory_offset }.to_le_bytes());
    assert!(by[MI + 48..MI + 50] == { m.offscreen_memory_size }.to_le_bytes());
    let i: usize = kani::any();
    kani::assume(i < 206);
    assert!(by[MI + 50 + i] == m.reserved1[i]);
}

// top-level part: header, the four u16, read back of all six arguments
#[kani::proof]
pub fn k_vbe_new_top() {
    let (mode, seg, off, len): (u16, u16, u16, u16) = kani::any();
    let c = any_control();
    let m = any_mode();
    let tag = VBEInfoTag::new(mode, seg, off, len, c, m);
    assert!(core::mem::align_of::<VBEInfoTag>() == 8);
    assert!(u32::from(tag.header().typ) == 7);
    assert!(tag.header().typ == <VBEInfoTag as Tag>::ID);
    assert!(tag.header().size == 784);
    let by = tag.as_bytes();
    assert!(by.len() == 784);
    assert!(by[0..4] == 7u32.to_le_bytes());
    assert!(by[4..8] == 784u32.to_le_bytes());
    assert!(by[8..10] == mode.to_le_bytes());
    assert!(by[10..12] == seg.to_le_bytes());
    assert!(by[12..14] == off.to_le_bytes());
    assert!(by[14..16] == len.to_le_bytes());
    // read back
    assert!(tag.mode() == mode);
    assert!(tag.interface_segment() == seg);
    assert!(tag.interface_offset() == off);
    assert!(tag.interface_length() == len);
}

// control info block of the image + read back
#[kani::proof]
pub fn k_vbe_new_control() {
    let (mode, seg, off, len): (u16, u16, u16, u16) = kani::any();
    let c = any_control();
    let m = any_mode();
    let tag = VBEInfoTag::new(mode, seg, off, len, c, m);
    let by = tag.as_bytes();
    check_control_image(&by, &c);
    let rc = tag.control_info();
    check_control_image(&by, &rc);
}

// mode info block of the image + read back
#[kani::proof]
pub fn k_vbe_new_mode() {
    let (mode, seg, off, len): (u16, u16, u16, u16) = kani::any();
    let c = any_control();
    let m = any_mode();
    let tag = VBEInfoTag::new(mode, seg, off, len, c, m);
    let by = tag.as_bytes();
    check_mode_image(&by, &m);
    let rm = tag.mode_info();
    check_mode_image(&by, &rm);
}

// ---- C07: byte view of a tag stored as element 1 of an array: obtainable, and
// byte for byte (symbolic index over all 784 positions) the same image as the
// one of a tag built from the same arguments in a plain local (whose image is
// checked against the spec by the three harnesses above)
#[kani::proof]
pub fn k_vbe_new_in_array() {
    let (mode, seg, off, len): (u16, u16, u16, u16) = kani::any();
    let c = any_control();
    let m = any_mode();
    let local = VBEInfoTag::new(mode, seg, off, len, c, m);
    let arr = [
        VBEInfoTag::new(0, 0, 0, 0, VBEControlInfo::default(), VBEModeInfo::default()),
        VBEInfoTag::new(mode, seg, off, len, c, m),
    ];
    let by = arr[1].as_bytes();
    let bl = local.as_bytes();
    assert!(by.len() == 784 && bl.len() == 784);
    assert!(by[0..4] == 7u32.to_le_bytes());
    assert!(by[4..8] == 784u32.to_le_bytes());
    let k: usize = kani::any();
    kani::assume(k < 784);
    assert!(by[k] == bl[k]);
}
