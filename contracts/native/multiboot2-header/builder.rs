// BOUNDED NATIVE CROSS-CHECK (not a proof) for C12 on compiled code: the Verus proof of the ten
// setters' full-frame postconditions and of build() is the deciding step; a change that rewrites
// a setter into a construct outside the extraction rules (e.g. struct-update syntax instead of
// `mut self`: seed w9-C12-m2) leaves the Verus unit undecided, and the Kani builder harnesses call
// the setters in one fixed order.  This test runs the REAL builder natively on all 1024 subsets
// of the ten slots in three call orders (documented order, reverse, rotated), with a repeated
// setter (last call wins), both architectures, and compares the built header with
// magic / architecture / length / checksum and the walk of exactly the supplied tag images in the
// documented order followed by one end tag.
use super::*;
use crate::{
    AddressHeaderTag, ConsoleHeaderTag, ConsoleHeaderTagFlags, EfiBootServiceHeaderTag, EntryAddressHeaderTag,
    EntryEfi32HeaderTag, EntryEfi64HeaderTag, FramebufferHeaderTag, HeaderTagFlag, HeaderTagISA,
    InformationRequestHeaderTag, MbiTagType, MbiTagTypeId, ModuleAlignHeaderTag, Multiboot2Header,
    RelocatableHeaderTag, RelocatableHeaderTagPreference,
};
use multiboot2_common::MaybeDynSized;
use std::vec::Vec;

fn img<T: MaybeDynSized + ?Sized>(t: &T, size: usize) -> Vec<u8> {
    t.as_bytes()[..size].to_vec()
}

/// apply setter `i` (documented emission order 0..10) with variant `v`; returns the image of the supplied tag
fn set_slot(b: Builder, i: usize, v: u32) -> (Builder, Vec<u8>) {
    let fl = if v % 2 == 0 { HeaderTagFlag::Required } else { HeaderTagFlag::Optional };
    match i {
        0 => {
            let reqs: Vec<MbiTagTypeId> = [MbiTagType::Cmdline, MbiTagType::Mmap, MbiTagType::Custom(0x1000 + v)][..(1 + v as usize % 3)].iter().map(|t| (*t).into()).collect();
            let t = InformationRequestHeaderTag::new(fl, &reqs);
            let im = img(&*t, 8 + 4 * reqs.len());
            (b.information_request_tag(t), im)
        }
        1 => { let t = AddressHeaderTag::new(fl, 0x1000 + v, 0x2000, 0x3000, 0x4000); let im = img(&t, 24); (b.address_tag(t), im) }
        2 => { let t = EntryAddressHeaderTag::new(fl, 0x5000 + v); let im = img(&t, 12); (b.entry_tag(t), im) }
        3 => { let t = ConsoleHeaderTag::new(fl, if v % 3 == 0 { ConsoleHeaderTagFlags::ConsoleRequired } else { ConsoleHeaderTagFlags::EgaTextSupported }); let im = img(&t, 12); (b.console_tag(t), im) }
        4 => { let t = FramebufferHeaderTag::new(fl, 800 + v, 600, 32); let im = img(&t, 20); (b.framebuffer_tag(t), im) }
        5 => { let t = ModuleAlignHeaderTag::new(fl); let im = img(&t, 8); (b.module_align_tag(t), im) }
        6 => { let t = EfiBootServiceHeaderTag::new(fl); let im = img(&t, 8); (b.efi_bs_tag(t), im) }
        7 => { let t = EntryEfi32HeaderTag::new(fl, 0x6000 + v); let im = img(&t, 12); (b.efi_32_tag(t), im) }
        8 => { let t = EntryEfi64HeaderTag::new(fl, 0x7000 + v); let im = img(&t, 12); (b.efi_64_tag(t), im) }
        _ => { let t = RelocatableHeaderTag::new(fl, 0x10_0000, 0x20_0000 + v, 4096, RelocatableHeaderTagPreference::High); let im = img(&t, 24); (b.relocatable_tag(t), im) }
    }
}

#[test]
fn n_hdr_builder_call_orders() {
    let mut cases = 0u32;
    for mask in 0u32..1024 {
        for order in 0..3 {
            let arch = if (mask + order) % 2 == 0 { HeaderTagISA::I386 } else { HeaderTagISA::MIPS32 };
            let slots: Vec<usize> = (0..10).filter(|i| mask & (1 << i) != 0).collect();
            let mut seq = slots.clone();
            match order {
                1 => seq.reverse(),
                2 => { let k = 3.min(seq.len()); seq.rotate_left(k); }
                _ => {}
            }
            let mut images: [Option<Vec<u8>>; 10] = Default::default();
            let mut b = Builder::new(arch);
            // a repeated setter: the first selected slot is set once more at the end with another value (last call wins)
            for (n, &i) in seq.iter().enumerate() {
                let (nb, im) = set_slot(b, i, mask + n as u32);
                b = nb;
                images[i] = Some(im);
            }
            if order == 2 {
                if let Some(&i) = seq.first() {
                    let (nb, im) = set_slot(b, i, mask + 77);
                    b = nb;
                    images[i] = Some(im);
                }
            }
            let built = b.build();
            let bytes = built.as_bytes();
            let bytes: &[u8] = &bytes;
            let ctx = std::format!("mask {mask:#x} order {order}");
            assert_eq!(bytes.as_ptr() as usize % 8, 0, "{ctx}: alignment");
            let le = |o: usize| u32::from_le_bytes([bytes[o], bytes[o + 1], bytes[o + 2], bytes[o + 3]]);
            assert_eq!(le(0), 0xE852_50D6, "{ctx}: magic");
            assert_eq!(le(4), if (mask + order) % 2 == 0 { 0 } else { 4 }, "{ctx}: architecture");
            let mut want: Vec<u8> = Vec::new();
            for i in 0..10 {
                if let Some(im) = &images[i] {
                    want.extend_from_slice(im);
                    while want.len() % 8 != 0 { want.push(0); }
                }
            }
            want.extend_from_slice(&[0, 0, 0, 0, 8, 0, 0, 0]);
            assert_eq!(le(8) as usize, 16 + want.len(), "{ctx}: length = exact byte length");
            assert_eq!(bytes.len(), 16 + want.len(), "{ctx}: byte length");
            assert_eq!(le(0).wrapping_add(le(4)).wrapping_add(le(8)).wrapping_add(le(12)), 0, "{ctx}: checksum");
            // compare tag by tag (padding bytes of heap-built tags are not specified: compare up to each tag's size)
            let mut off = 16usize;
            for i in 0..10 {
                if let Some(im) = &images[i] {
                    assert_eq!(&bytes[off..off + im.len()], &im[..], "{ctx}: slot {i} at offset {off}");
                    off += (im.len() + 7) & !7;
                }
            }
            assert_eq!(&bytes[off..], &[0u8, 0, 0, 0, 8, 0, 0, 0][..], "{ctx}: end tag");
            // and the real loader / iterator agree
            let h = unsafe { Multiboot2Header::load(bytes.as_ptr().cast()) }.expect("built header loads");
            assert_eq!(h.iter().count(), slots.len() + 1, "{ctx}: number of tags in the walk");
            cases += 1;
        }
    }
    std::println!("n_hdr_builder_call_orders: {} cases", cases);
}
