// BOUNDED NATIVE CROSS-CHECK (not a proof) of find_header around its 8192-byte search window on
// compiled code.  Since session 3 the window clause is PROVED in Verus for all lengths
// (contracts/verus/hdr_find.rs); CBMC still cannot unwind the 8189-iteration window scan, so this
// is the only execution of that clause on the compiled function, and the only check of the
// address identity of the returned sub-slice beyond 48-byte buffers.  The real function is run on
// every magic position 8150..=8210 in buffers of several lengths around the limit, against the
// statement's oracle.
use super::*;
use std::vec::Vec;

#[repr(C, align(8))]
struct Big([u8; 8448]);

fn oracle(buf: &[u8]) -> Result<Option<(usize, usize)>, ()> {
    // first occurrence of the little-endian magic in the first 8192 bytes (or the whole buffer if shorter)
    let w = buf.len().min(8192);
    let mut first = None;
    let mut i = 0;
    while i + 4 <= w {
        if buf[i..i + 4] == [0xD6, 0x50, 0x52, 0xE8] {
            first = Some(i);
            break;
        }
        i += 1;
    }
    match first {
        None => Ok(None),
        Some(i) => {
            if i % 8 != 0 {
                return Err(());
            }
            if i + 12 > buf.len() {
                return Err(());
            }
            let len = u32::from_le_bytes([buf[i + 8], buf[i + 9], buf[i + 10], buf[i + 11]]) as usize;
            if i + len > buf.len() {
                return Err(());
            }
            Ok(Some((i, len)))
        }
    }
}

#[test]
fn n_find_header_window_limit() {
    // the constant the crate EXPORTS (what an image builder would plant) is the header magic
    assert_eq!(crate::MAGIC, 0xE852_50D6u32, "multiboot2_header::MAGIC");
    let mut cases = 0u32;
    for &buflen in &[8190usize, 8192, 8196, 8200, 8216, 8448] {
        for pos in 8150usize..=8210 {
            for &hlen in &[16u32, 24, 200, 400] {
                let mut big = Big([0u8; 8448]);
                if pos + 4 <= buflen {
                    big.0[pos..pos + 4].copy_from_slice(&[0xD6, 0x50, 0x52, 0xE8]);
                    if pos + 12 <= 8448 {
                        big.0[pos + 8..pos + 12].copy_from_slice(&hlen.to_le_bytes());
                    }
                }
                let buf = &big.0[..buflen];
                let got = Multiboot2Header::find_header(buf);
                let want = oracle(buf);
                match (&got, &want) {
                    (Ok(None), Ok(None)) => {}
                    (Ok(Some((s, idx))), Ok(Some((i, l)))) => {
                        assert_eq!(*idx as usize, *i, "buflen {buflen} pos {pos} hlen {hlen}");
                        assert_eq!(s.len(), *l, "buflen {buflen} pos {pos} hlen {hlen}");
                        assert_eq!(s.as_ptr(), buf[*i..].as_ptr());
                    }
                    (Err(_), Err(())) => {}
                    _ => panic!("find_header disagrees with the statement: buflen {buflen} magic at {pos} header length {hlen}: got {:?}, oracle {:?}", got.as_ref().map(|o| o.map(|(s, i)| (s.len(), i))), want),
                }
                cases += 1;
            }
        }
    }
    std::println!("n_find_header_window_limit: {cases} cases");
}

// ---------------------------------------------------------------------------------
// BOUNDED NATIVE STAND-IN for C11 "each typed getter returns the FIRST tag of its type in
// walk order and nothing when absent" at tag counts beyond the Kani harnesses (which explore
// regions of at most 48 bytes): `get_tag` is `iter().find(..).map(cast)` -- iterator adapters
// with closures, outside this Verus.  Real `Multiboot2Header::load` + all ten typed getters on
// headers with k filler tags (k up to 1100, i.e. headers beyond 8192 bytes) in front of two
// tags of the wanted kind, and on headers without the wanted kind.
// ---------------------------------------------------------------------------------
fn push_tag(v: &mut Vec<u8>, typ: u16, size: u32, marker: u32) {
    let start = v.len();
    v.extend_from_slice(&typ.to_le_bytes());
    v.extend_from_slice(&0u16.to_le_bytes());
    v.extend_from_slice(&size.to_le_bytes());
    while v.len() < start + size as usize {
        v.push(0);
    }
    if size >= 12 {
        v[start + 8..start + 12].copy_from_slice(&marker.to_le_bytes());
    }
    while v.len() % 8 != 0 {
        v.push(0);
    }
}

fn getter_addr(h: &Multiboot2Header, typ: u16) -> Option<usize> {
    fn a<T: ?Sized>(t: Option<&T>) -> Option<usize> {
        t.map(|t| t as *const T as *const u8 as usize)
    }
    match typ {
        1 => a(h.information_request_tag()),
        2 => a(h.address_tag()),
        3 => a(h.entry_address_tag()),
        4 => a(h.console_flags_tag()),
        5 => a(h.framebuffer_tag()),
        6 => a(h.module_align_tag()),
        7 => a(h.efi_boot_services_tag()),
        8 => a(h.entry_address_efi32_tag()),
        9 => a(h.entry_address_efi64_tag()),
        _ => a(h.relocatable_tag()),
    }
}

#[test]
fn n_hdr_getters_many_tags() {
    const KINDS: [(u16, u32); 10] = [(1, 12), (2, 24), (3, 12), (4, 12), (5, 20), (6, 8), (7, 8), (8, 12), (9, 12), (10, 24)];
    let mut cases = 0u32;
    for &(typ, size) in KINDS.iter() {
        for &k in &[0usize, 1, 2, 5, 9, 10, 11, 12, 13, 20, 40, 100, 600, 1100] {
            for present in [true, false] {
                // fillers: cycle through the OTHER kinds
                let mut body: Vec<u8> = Vec::new();
                let mut n = 0;
                let mut f = 0;
                while n < k {
                    let (ft, fs) = KINDS[f % KINDS.len()];
                    f += 1;
                    if ft == typ {
                        continue;
                    }
                    push_tag(&mut body, ft, fs, 0x1111_0000 + n as u32);
                    n += 1;
                }
                let first_off = 16 + body.len();
                if present {
                    push_tag(&mut body, typ, size, 0);
                    push_tag(&mut body, 6 + (typ == 6) as u16, 8, 0);
                    push_tag(&mut body, typ, size, 1);
                }
                push_tag(&mut body, 0, 8, 0);
                let length = (16 + body.len()) as u32;
                let mut img: Vec<u64> = std::vec![0u64; (length as usize + 7) / 8];
                let bytes = unsafe { core::slice::from_raw_parts_mut(img.as_mut_ptr().cast::<u8>(), length as usize) };
                bytes[0..4].copy_from_slice(&0xE852_50D6u32.to_le_bytes());
                bytes[4..8].copy_from_slice(&0u32.to_le_bytes());
                bytes[8..12].copy_from_slice(&length.to_le_bytes());
                let cks = 0u32.wrapping_sub(0xE852_50D6).wrapping_sub(0).wrapping_sub(length);
                bytes[12..16].copy_from_slice(&cks.to_le_bytes());
                bytes[16..].copy_from_slice(&body);
                let base = bytes.as_ptr() as usize;
                let h = unsafe { Multiboot2Header::load(bytes.as_ptr().cast()) }.expect("valid header must load");
                let walk: Vec<(usize, u16)> = h.iter().map(|t| (t as *const _ as *const u8 as usize - base, t.header().typ() as u16)).collect();
                assert_eq!(walk.len(), k + if present { 3 } else { 0 } + 1, "walk length (kind {typ}, {k} fillers)");
                for &(t2, _) in KINDS.iter() {
                    let want = walk.iter().find(|(_, t)| *t == t2).map(|(o, _)| base + *o);
                    let got = getter_addr(&h, t2);
                    assert_eq!(got, want, "getter of kind {t2}: first tag of that type in walk order (target kind {typ}, {k} fillers, present {present})");
                }
                // repeatable across clones and fresh iterators: a clone taken after j steps continues the SAME walk
                for j in [0usize, 1, 2, walk.len() / 2, walk.len()] {
                    let mut it = h.iter();
                    for _ in 0..j.min(walk.len()) {
                        it.next();
                    }
                    let rest_clone: Vec<usize> = it.clone().map(|t| t as *const _ as *const u8 as usize - base).collect();
                    let rest: Vec<usize> = it.map(|t| t as *const _ as *const u8 as usize - base).collect();
                    let want_rest: Vec<usize> = walk[j.min(walk.len())..].iter().map(|(o, _)| *o).collect();
                    assert_eq!(rest, want_rest, "iterator advanced by {j} continues the walk");
                    assert_eq!(rest_clone, want_rest, "clone taken after {j} steps continues the same walk");
                    // provided Iterator methods agree with repeated next()
                    let at = |t: Option<_>| t.map(|t: &_| t as *const _ as *const u8 as usize - base);
                    assert_eq!(at(h.iter().nth(j)), walk.get(j).map(|(o, _)| *o), "nth({j})");
                    assert_eq!(at(h.iter().skip(j).next()), walk.get(j).map(|(o, _)| *o), "skip({j}).next()");
                    assert_eq!(h.iter().count(), walk.len(), "count()");
                    assert_eq!(at(h.iter().last()), walk.last().map(|(o, _)| *o), "last()");
                }
                if present {
                    assert_eq!(getter_addr(&h, typ), Some(base + first_off));
                } else {
                    assert_eq!(getter_addr(&h, typ), None);
                }
                cases += 1;
            }
        }
    }
    std::println!("n_hdr_getters_many_tags: {cases} cases");
}
