// BOUNDED NATIVE STAND-IN (not a proof): the 8192-byte search window of
// find_header is out of reach of both verifiers here (CBMC cannot unwind the
// 8189-iteration window scan; this Verus cannot specify Iterator::position).
// The real function is executed natively on every magic position 8150..=8210
// in buffers of several lengths around the limit, against the statement's oracle.
use super::*;
use std::vec::Vec;

#[repr(C, align(8))]
struct Big([u8; 8448]);

fn oracle(buf: &[u8]) -> Result<Option<(usize, usize)>, ()> {
    // first occurrence of the little-endian magic in the first 8192 bytes (or the whole buffer if shorter)
    let w = buf.len().min(8192);
    let mut first = None;
    let mut i = 0;
    while i + 4 <= w {
        if buf[i..i + 4] == [0xD6, 0x50, 0x52, 0xE8] {
            first = Some(i);
            break;
        }
        i += 1;
    }
    match first {
        None => Ok(None),
        Some(i) => {
            if i % 8 != 0 {
                return Err(());
            }
            if i + 12 > buf.len() {
                return Err(());
            }
            let len = u32::from_le_bytes([buf[i + 8], buf[i + 9], buf[i + 10], buf[i + 11]]) as usize;
            if i + len > buf.len() {
                return Err(());
            }
            Ok(Some((i, len)))
        }
    }
}

#[test]
fn n_find_header_window_limit() {
    let mut cases = 0u32;
    for &buflen in &[8190usize, 8192, 8196, 8200, 8216, 8448] {
        for pos in 8150usize..=8210 {
            for &hlen in &[16u32, 24, 200, 400] {
                let mut big = Big([0u8; 8448]);
                if pos + 4 <= buflen {
                    big.0[pos..pos + 4].copy_from_slice(&[0xD6, 0x50, 0x52, 0xE8]);
                    if pos + 12 <= 8448 {
                        big.0[pos + 8..pos + 12].copy_from_slice(&hlen.to_le_bytes());
                    }
                }
                let buf = &big.0[..buflen];
                let got = Multiboot2Header::find_header(buf);
                let want = oracle(buf);
                match (&got, &want) {
                    (Ok(None), Ok(None)) => {}
                    (Ok(Some((s, idx))), Ok(Some((i, l)))) => {
                        assert_eq!(*idx as usize, *i, "buflen {buflen} pos {pos} hlen {hlen}");
                        assert_eq!(s.len(), *l, "buflen {buflen} pos {pos} hlen {hlen}");
                        assert_eq!(s.as_ptr(), buf[*i..].as_ptr());
                    }
                    (Err(_), Err(())) => {}
                    _ => panic!("find_header disagrees with the statement: buflen {buflen} magic at {pos} header length {hlen}: got {:?}, oracle {:?}", got.as_ref().map(|o| o.map(|(s, i)| (s.len(), i))), want),
                }
                cases += 1;
            }
        }
    }
    std::println!("n_find_header_window_limit: {cases} cases");
}
