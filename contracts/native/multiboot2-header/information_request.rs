// BOUNDED NATIVE STAND-IN (not a proof) for C16's allocation-layout clause:
// "in an 8-aligned allocation whose size is the total rounded up to 8 ... later freed
// with the layout it was allocated with".  Kani's allocator model does not compare the
// alignment passed to alloc with the one passed to dealloc, so the real new_boxed /
// Box drop are executed natively under a layout-recording global allocator for the
// header crate's DST kind (whose header type is only 4-aligned) with 0..=5 requests.
use super::*;
use core::sync::atomic::{AtomicBool, AtomicUsize, Ordering};
use std::alloc::{GlobalAlloc, Layout, System};

struct Rec;
static RECORDING: AtomicBool = AtomicBool::new(false);
static MISMATCH: AtomicUsize = AtomicUsize::new(0);
static N: AtomicUsize = AtomicUsize::new(0);
static mut TABLE: [(usize, usize, usize); 256] = [(0, 0, 0); 256];

unsafe impl GlobalAlloc for Rec {
    unsafe fn alloc(&self, l: Layout) -> *mut u8 {
        let p = System.alloc(l);
        if RECORDING.load(Ordering::SeqCst) {
            let i = N.fetch_add(1, Ordering::SeqCst);
            if i < 256 {
                TABLE[i] = (p as usize, l.size(), l.align());
            }
        }
        p
    }
    unsafe fn dealloc(&self, p: *mut u8, l: Layout) {
        if RECORDING.load(Ordering::SeqCst) {
            let n = N.load(Ordering::SeqCst).min(256);
            let mut i = 0;
            while i < n {
                if TABLE[i].0 == p as usize && TABLE[i].1 != usize::MAX {
                    if TABLE[i].1 != l.size() || TABLE[i].2 != l.align() {
                        MISMATCH.fetch_add(1, Ordering::SeqCst);
                    }
                    TABLE[i].1 = usize::MAX; // freed
                    break;
                }
                i += 1;
            }
        }
        System.dealloc(p, l)
    }
}

#[global_allocator]
static A: Rec = Rec;

#[test]
fn n_inforeq_alloc_layout() {
    let reqs = [MbiTagTypeId::new(1), MbiTagTypeId::new(2), MbiTagTypeId::new(3), MbiTagTypeId::new(4), MbiTagTypeId::new(5)];
    let mut cases = 0;
    for n in 0..=5usize {
        N.store(0, Ordering::SeqCst);
        RECORDING.store(true, Ordering::SeqCst);
        let tag = InformationRequestHeaderTag::new(HeaderTagFlag::Required, &reqs[..n]);
        let addr = core::ptr::addr_of!(*tag).cast::<u8>() as usize;
        let total = 8 + 4 * n;
        // the allocation that backs the tag: 8-aligned, size = total rounded up to 8
        let cnt = N.load(Ordering::SeqCst).min(256);
        let mut found = false;
        for i in 0..cnt {
            let e = unsafe { TABLE[i] };
            if e.0 == addr {
                found = true;
                assert_eq!(e.2, 8, "n={n}: allocation must be requested 8-aligned");
                assert_eq!(e.1, (total + 7) / 8 * 8, "n={n}: allocation size must be the total rounded up to 8");
            }
        }
        assert!(found, "n={n}: backing allocation not observed");
        assert_eq!(tag.size() as usize, total);
        drop(tag);
        RECORDING.store(false, Ordering::SeqCst);
        assert_eq!(MISMATCH.load(Ordering::SeqCst), 0, "n={n}: freed with a layout different from the one it was allocated with");
        cases += 1;
    }
    std::println!("n_inforeq_alloc_layout: {cases} cases");
}

// BOUNDED NATIVE STAND-IN for C07 / C12 at list lengths beyond the Kani harnesses (n <= 4):
// the information-request constructor with 0..=3000 requests against the specification's
// encoding (type 1, flags, size 8 + 4n, n little-endian u32 words), read back, cloned through
// the header builder and walked.
#[test]
fn n_inforeq_large_lists() {
    use std::vec::Vec;
    use crate::{HeaderTagISA, Multiboot2Header};
    let mut cases = 0u32;
    for n in (0usize..=20).chain([63, 64, 65, 255, 256, 1000, 2035, 2036, 3000]) {
        for flags in [HeaderTagFlag::Required, HeaderTagFlag::Optional] {
            let reqs: Vec<MbiTagTypeId> = (0..n).map(|i| MbiTagTypeId::new(0x0100_0000u32.wrapping_mul(i as u32 % 251) + i as u32)).collect();
            let t = InformationRequestHeaderTag::new(flags, &reqs);
            let b = t.as_bytes();
            let size = 8 + 4 * n;
            assert_eq!(b.as_ptr() as usize % 8, 0);
            assert_eq!(b.len(), (size + 7) & !7);
            let mut want = Vec::new();
            want.extend_from_slice(&1u16.to_le_bytes());
            want.extend_from_slice(&(flags as u16).to_le_bytes());
            want.extend_from_slice(&(size as u32).to_le_bytes());
            for r in &reqs {
                want.extend_from_slice(&u32::from(*r).to_le_bytes());
            }
            assert_eq!(&b[..size], &want[..], "information request with {n} entries");
            assert_eq!((t.size() as usize, t.flags(), t.requests()), (size, flags, &reqs[..]));
            // through the builder: the walk finds it byte-identically, followed by the end tag
            let built = crate::Builder::new(HeaderTagISA::I386).information_request_tag(InformationRequestHeaderTag::new(flags, &reqs)).build();
            let bytes = built.as_bytes();
            let h = unsafe { Multiboot2Header::load(bytes.as_ptr().cast()) }.expect("built header must load");
            assert_eq!(h.length() as usize, 16 + ((size + 7) & !7) + 8);
            let got = h.information_request_tag().expect("information request tag present");
            assert_eq!(&got.as_bytes()[..size], &want[..]);
            assert_eq!(h.iter().count(), 2);
            cases += 1;
        }
    }
    std::println!("n_inforeq_large_lists: {cases} cases");
}
