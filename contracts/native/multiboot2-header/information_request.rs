// BOUNDED NATIVE STAND-IN (not a proof) for C16's allocation-layout clause:
// "in an 8-aligned allocation whose size is the total rounded up to 8 ... later freed
// with the layout it was allocated with".  Kani's allocator model does not compare the
// alignment passed to alloc with the one passed to dealloc, so the real new_boxed /
// Box drop are executed natively under a layout-recording global allocator for the
// header crate's DST kind (whose header type is only 4-aligned) with 0..=5 requests.
use super::*;
use core::sync::atomic::{AtomicBool, AtomicUsize, Ordering};
use std::alloc::{GlobalAlloc, Layout, System};

struct Rec;
static RECORDING: AtomicBool = AtomicBool::new(false);
static MISMATCH: AtomicUsize = AtomicUsize::new(0);
static N: AtomicUsize = AtomicUsize::new(0);
static mut TABLE: [(usize, usize, usize); 256] = [(0, 0, 0); 256];

unsafe impl GlobalAlloc for Rec {
    unsafe fn alloc(&self, l: Layout) -> *mut u8 {
        let p = System.alloc(l);
        if RECORDING.load(Ordering::SeqCst) {
            let i = N.fetch_add(1, Ordering::SeqCst);
            if i < 256 {
                TABLE[i] = (p as usize, l.size(), l.align());
            }
        }
        p
    }
    unsafe fn dealloc(&self, p: *mut u8, l: Layout) {
        if RECORDING.load(Ordering::SeqCst) {
            let n = N.load(Ordering::SeqCst).min(256);
            let mut i = 0;
            while i < n {
                if TABLE[i].0 == p as usize && TABLE[i].1 != usize::MAX {
                    if TABLE[i].1 != l.size() || TABLE[i].2 != l.align() {
                        MISMATCH.fetch_add(1, Ordering::SeqCst);
                    }
                    TABLE[i].1 = usize::MAX; // freed
                    break;
                }
                i += 1;
            }
        }
        System.dealloc(p, l)
    }
}

#[global_allocator]
static A: Rec = Rec;

#[test]
fn n_inforeq_alloc_layout() {
    let reqs = [MbiTagTypeId::new(1), MbiTagTypeId::new(2), MbiTagTypeId::new(3), MbiTagTypeId::new(4), MbiTagTypeId::new(5)];
    let mut cases = 0;
    for n in 0..=5usize {
        N.store(0, Ordering::SeqCst);
        RECORDING.store(true, Ordering::SeqCst);
        let tag = InformationRequestHeaderTag::new(HeaderTagFlag::Required, &reqs[..n]);
        let addr = core::ptr::addr_of!(*tag).cast::<u8>() as usize;
        let total = 8 + 4 * n;
        // the allocation that backs the tag: 8-aligned, size = total rounded up to 8
        let cnt = N.load(Ordering::SeqCst).min(256);
        let mut found = false;
        for i in 0..cnt {
            let e = unsafe { TABLE[i] };
            if e.0 == addr {
                found = true;
                assert_eq!(e.2, 8, "n={n}: allocation must be requested 8-aligned");
                assert_eq!(e.1, (total + 7) / 8 * 8, "n={n}: allocation size must be the total rounded up to 8");
            }
        }
        assert!(found, "n={n}: backing allocation not observed");
        assert_eq!(tag.size() as usize, total);
        drop(tag);
        RECORDING.store(false, Ordering::SeqCst);
        assert_eq!(MISMATCH.load(Ordering::SeqCst), 0, "n={n}: freed with a layout different from the one it was allocated with");
        cases += 1;
    }
    std::println!("n_inforeq_alloc_layout: {cases} cases");
}
