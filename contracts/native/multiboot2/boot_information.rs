// BOUNDED NATIVE STAND-IN for C04 "each typed getter returns the FIRST tag in walk order whose
// type number matches (and nothing when there is none)" and "the EFI memory map is withheld while
// a boot-services-not-exited tag is present" at tag counts beyond the Kani harnesses (small regions):
// `get_tag` is `tags().find(..).map(cast)` -- iterator adapters with closures, outside this Verus.
// Real `BootInformation::load` + all typed getters on regions with k filler tags (k up to 1100)
// in front of two tags of the wanted kind, on regions without it, and the EFI map / boot-services
// rule in both tag orders.
use super::*;
use std::vec::Vec;
use crate::ModuleTag;

fn push_tag(v: &mut Vec<u8>, typ: u32, size: u32, marker: u8) {
    let start = v.len();
    v.extend_from_slice(&typ.to_le_bytes());
    v.extend_from_slice(&size.to_le_bytes());
    while v.len() < start + size as usize {
        v.push(0);
    }
    match typ {
        6 => v[start + 8..start + 12].copy_from_slice(&24u32.to_le_bytes()),   // mmap entry_size
        8 => v[start + 29] = 2,                                                // framebuffer type: text
        17 => v[start + 8..start + 12].copy_from_slice(&48u32.to_le_bytes()),  // EFI mmap desc_size
        _ => {}
    }
    if size >= 12 && !matches!(typ, 6 | 17) {
        v[start + 8] = marker;
    }
    while v.len() % 8 != 0 {
        v.push(0);
    }
}

fn a<T: ?Sized>(t: Option<&T>) -> Option<usize> {
    t.map(|t| t as *const T as *const u8 as usize)
}

fn getter_addr(bi: &BootInformation, typ: u32) -> Option<usize> {
    match typ {
        1 => a(bi.command_line_tag()),
        2 => a(bi.boot_loader_name_tag()),
        4 => a(bi.basic_memory_info_tag()),
        5 => a(bi.bootdev_tag()),
        6 => a(bi.memory_map_tag()),
        7 => a(bi.vbe_info_tag()),
        8 => bi.framebuffer_tag().map(|r| r.expect("text framebuffer") as *const FramebufferTag as *const u8 as usize),
        9 => a(bi.elf_sections_tag()),
        10 => a(bi.apm_tag()),
        11 => a(bi.efi_sdt32_tag()),
        12 => a(bi.efi_sdt64_tag()),
        13 => a(bi.smbios_tag()),
        14 => a(bi.rsdp_v1_tag()),
        15 => a(bi.rsdp_v2_tag()),
        16 => a(bi.network_tag()),
        17 => a(bi.efi_memory_map_tag()),
        18 => a(bi.efi_bs_not_exited_tag()),
        19 => a(bi.efi_ih32_tag()),
        20 => a(bi.efi_ih64_tag()),
        _ => a(bi.load_base_addr_tag()),
    }
}

const KINDS: [(u32, u32); 20] = [(1, 9), (2, 9), (4, 16), (5, 20), (6, 16), (7, 784), (8, 32), (9, 20), (10, 28), (11, 12), (12, 16),
    (13, 16), (14, 28), (15, 44), (16, 9), (17, 16), (18, 8), (19, 12), (20, 16), (21, 12)];
const FILLERS: [(u32, u32); 8] = [(4, 16), (5, 20), (10, 28), (11, 12), (12, 16), (19, 12), (20, 16), (21, 12)];

fn with_region<R>(body: &[u8], f: impl FnOnce(&BootInformation, usize) -> R) -> R {
    let total = 8 + body.len();
    let mut img: Vec<u64> = std::vec![0u64; total / 8 + 1];
    let bytes = unsafe { core::slice::from_raw_parts_mut(img.as_mut_ptr().cast::<u8>(), total) };
    bytes[0..4].copy_from_slice(&(total as u32).to_le_bytes());
    bytes[8..].copy_from_slice(body);
    let base = bytes.as_ptr() as usize;
    let bi = unsafe { BootInformation::load(bytes.as_ptr().cast()) }.expect("well-formed region must load");
    f(&bi, base)
}

#[test]
fn n_mbi_getters_many_tags() {
    let mut cases = 0u32;
    for &(typ, size) in KINDS.iter() {
        for &k in &[0usize, 1, 2, 7, 8, 9, 19, 20, 21, 22, 23, 40, 100, 1100] {
            for present in [true, false] {
                let mut body: Vec<u8> = Vec::new();
                let mut n = 0;
                let mut f = 0;
                while n < k {
                    let (ft, fs) = FILLERS[f % FILLERS.len()];
                    f += 1;
                    if ft == typ {
                        continue;
                    }
                    push_tag(&mut body, ft, fs, n as u8);
                    n += 1;
                }
                let first_off = 8 + body.len();
                if present {
                    push_tag(&mut body, typ, size, 0xA1);
                    push_tag(&mut body, if typ == 4 { 5 } else { 4 }, if typ == 4 { 20 } else { 16 }, 0);
                    push_tag(&mut body, typ, size, 0xB2);
                }
                push_tag(&mut body, 0, 8, 0);
                with_region(&body, |bi, base| {
                    let walk: Vec<(usize, u32)> = bi.tags().map(|t| (t as *const _ as *const u8 as usize - base, u32::from(t.header().typ))).collect();
                    assert_eq!(walk.len(), k + if present { 3 } else { 0 } + 1, "walk length (kind {typ}, {k} fillers)");
                    for j in [0usize, 1, 2, walk.len() / 2, walk.len()] {
                        let mut it = bi.tags();
                        for _ in 0..j.min(walk.len()) {
                            it.next();
                        }
                        let rest_clone: Vec<usize> = it.clone().map(|t| t as *const _ as *const u8 as usize - base).collect();
                        let rest: Vec<usize> = it.map(|t| t as *const _ as *const u8 as usize - base).collect();
                        let want_rest: Vec<usize> = walk[j.min(walk.len())..].iter().map(|(o, _)| *o).collect();
                        assert_eq!(rest, want_rest, "iterator advanced by {j} continues the walk");
                        assert_eq!(rest_clone, want_rest, "clone taken after {j} steps continues the same walk");
                        // provided Iterator methods agree with repeated next()
                        let at = |t: Option<_>| t.map(|t: &_| t as *const _ as *const u8 as usize - base);
                        assert_eq!(at(bi.tags().nth(j)), walk.get(j).map(|(o, _)| *o), "nth({j})");
                        assert_eq!(at(bi.tags().skip(j).next()), walk.get(j).map(|(o, _)| *o), "skip({j}).next()");
                        assert_eq!(bi.tags().count(), walk.len(), "count()");
                        assert_eq!(at(bi.tags().last()), walk.last().map(|(o, _)| *o), "last()");
                    }
                    let bs_present = walk.iter().any(|(_, t)| *t == 18);
                    for &(t2, _) in KINDS.iter() {
                        let mut want = walk.iter().find(|(_, t)| *t == t2).map(|(o, _)| base + *o);
                        if t2 == 17 && bs_present {
                            want = None;
                        }
                        assert_eq!(getter_addr(bi, t2), want, "getter of kind {t2}: first tag of that type in walk order (target kind {typ}, {k} fillers, present {present})");
                    }
                    if present && !(typ == 17 && bs_present) {
                        assert_eq!(getter_addr(bi, typ), Some(base + first_off));
                    }
                });
                cases += 1;
            }
        }
    }
    // EFI memory map vs boot-services-not-exited, both orders, with fillers between
    for &k in &[0usize, 1, 30] {
        for order in 0..3 {
            let mut body: Vec<u8> = Vec::new();
            let seq: &[u32] = match order { 0 => &[17, 18], 1 => &[18, 17], _ => &[17] };
            let mut offs = Vec::new();
            for &t in seq {
                for i in 0..k {
                    let (ft, fs) = FILLERS[i % FILLERS.len()];
                    push_tag(&mut body, ft, fs, i as u8);
                }
                offs.push((t, 8 + body.len()));
                push_tag(&mut body, t, if t == 17 { 16 } else { 8 }, 0);
            }
            push_tag(&mut body, 0, 8, 0);
            with_region(&body, |bi, base| {
                let map_off = offs.iter().find(|(t, _)| *t == 17).unwrap().1;
                if order == 2 {
                    assert_eq!(getter_addr(bi, 17), Some(base + map_off), "EFI map handed out when no boot-services tag is present");
                } else {
                    assert_eq!(getter_addr(bi, 17), None, "EFI map withheld while boot services are not exited (order {order}, {k} fillers)");
                    assert!(getter_addr(bi, 18).is_some());
                }
            });
            cases += 1;
        }
    }
    // modules: exactly the module tags of the walk, in order
    for &k in &[0usize, 3, 25] {
        let mut body: Vec<u8> = Vec::new();
        let mut want = Vec::new();
        for i in 0..k {
            let (ft, fs) = FILLERS[i % FILLERS.len()];
            push_tag(&mut body, ft, fs, i as u8);
            want.push(8 + body.len());
            push_tag(&mut body, 3, 17 + (i % 5) as u32, 0);
            let l = body.len();
            body[l - 8] = 0; // keep a NUL inside
        }
        push_tag(&mut body, 0, 8, 0);
        with_region(&body, |bi, base| {
            let got: Vec<usize> = bi.module_tags().map(|m| m as *const ModuleTag as *const u8 as usize - base).collect();
            assert_eq!(got, want, "module iterator yields exactly the module tags of the walk, in order");
            for j in 0..=want.len() {
                let mut it = bi.module_tags();
                for _ in 0..j {
                    it.next();
                }
                let rest: Vec<usize> = it.clone().map(|m| m as *const ModuleTag as *const u8 as usize - base).collect();
                assert_eq!(rest, want[j..].to_vec(), "a module iterator cloned after {j} steps continues the same walk");
            }
        });
        cases += 1;
    }
    // a type-0 tag in the MIDDLE of the region does not end the walk (only the region's end does): modules
    // behind it are still module tags of that walk, and an exhausted module iterator stays exhausted
    {
        let mut body: Vec<u8> = Vec::new();
        let mut want = Vec::new();
        want.push(8 + body.len());
        push_tag(&mut body, 3, 18, 0);
        push_tag(&mut body, 0, 8, 0);
        want.push(8 + body.len());
        push_tag(&mut body, 3, 19, 0);
        push_tag(&mut body, 4, 16, 0);
        push_tag(&mut body, 0, 8, 0);
        with_region(&body, |bi, base| {
            let mut it = bi.module_tags();
            let mut got = Vec::new();
            while let Some(m) = it.next() {
                got.push(m as *const ModuleTag as *const u8 as usize - base);
            }
            assert_eq!(got, want, "modules behind an inner type-0 tag belong to the walk");
            assert!(it.next().is_none() && it.next().is_none(), "an exhausted module iterator stays exhausted");
            assert_eq!(bi.tags().count(), 5);
        });
        cases += 1;
    }
    std::println!("n_mbi_getters_many_tags: {cases} cases");
}
