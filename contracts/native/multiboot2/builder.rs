// BOUNDED NATIVE CROSS-CHECK (not a proof) for C06 on compiled code.  Kani cannot
// compile multiboot2::Builder (ICE on ElfSectionsTag), so the Verus proof of build() has
// no compiled-code counterpart from a verifier.  This test runs the REAL builder natively:
// every single-slot and every 18-of-19 subset, all pairs, 1500 pseudo-random subsets, three
// call orders, repeated setter calls (last wins), 0..=3 modules / SMBIOS / custom tags with
// custom ids in DESCENDING order with a duplicate (0x2000, 0x1000, 0x1000: seed w9-C06-m2 kept the vector sorted by id) and non-monotonic module addresses -- and compares the tag walk of
// the loaded result with the supplied tags byte by byte (up to each tag's size).
use super::*;
use crate::{BootInformation, FramebufferType, MemoryArea, MemoryAreaType, VBEControlInfo, VBEModeInfo};
use std::vec::Vec;

struct Rng(u64);
impl Rng {
    fn next(&mut self) -> u64 {
        self.0 ^= self.0 << 13;
        self.0 ^= self.0 >> 7;
        self.0 ^= self.0 << 17;
        self.0
    }
}

const NSLOTS: usize = 19;

/// image (bytes up to the tag's size) of a tag
fn img<T: MaybeDynSized<Header = TagHeader> + ?Sized>(t: &T) -> Vec<u8> {
    let b = t.as_bytes();
    let size = t.header().size as usize;
    b[..size].to_vec()
}

/// apply single-valued slot `i` with variant `v` to the builder; returns (builder, image of the supplied tag)
fn set_slot(b: Builder, i: usize, v: u32) -> (Builder, Vec<u8>) {
    match i {
        0 => { let t = CommandLineTag::new(if v % 2 == 0 { "cmd" } else { "another command line!" }); let im = img(&*t); (b.cmdline(t), im) }
        1 => { let t = BootLoaderNameTag::new(if v % 2 == 0 { "grub" } else { "some loader 2.0" }); let im = img(&*t); (b.bootloader(t), im) }
        2 => { let t = BasicMemoryInfoTag::new(v, v ^ 0x55); let im = img(&t); (b.meminfo(t), im) }
        3 => { let t = BootdevTag::new(v, 1, 2); let im = img(&t); (b.bootdev(t), im) }
        4 => { let areas = [MemoryArea::new(0x1000 + v as u64, 0x2000, MemoryAreaType::Available), MemoryArea::new(0x9000, 0x100, MemoryAreaType::Reserved)];
               let t = MemoryMapTag::new(&areas[..(1 + (v % 2) as usize)]); let im = img(&*t); (b.mmap(t), im) }
        5 => { let t = VBEInfoTag::new(v as u16, 2, 4, 9, VBEControlInfo::default(), VBEModeInfo::default()); let im = img(&t); (b.vbe(t), im) }
        6 => { let t = FramebufferTag::new(0x1000 + v as u64, 1, 756, 1024, 8, FramebufferType::Text); let im = img(&*t); (b.framebuffer(t), im) }
        7 => { let t = ElfSectionsTag::new(0, 64, 0, &[0u8; 3][..(v % 4) as usize % 4]); let im = img(&*t); (b.elf_sections(t), im) }
        8 => { let t = ApmTag::new(v as u16, 1, 2, 3, 4, 5, 6, 7, 8); let im = img(&t); (b.apm(t), im) }
        9 => { let t = EFISdt32Tag::new(v); let im = img(&t); (b.efi32(t), im) }
        10 => { let t = EFISdt64Tag::new(v as u64 | 0x1_0000_0000); let im = img(&t); (b.efi64(t), im) }
        11 => { let t = RsdpV1Tag::new(v as u8, *b"abcdef", 5, 6); let im = img(&t); (b.rsdpv1(t), im) }
        12 => { let t = RsdpV2Tag::new(v as u8, *b"abcdef", 5, 6, 36, 4, 7); let im = img(&t); (b.rsdpv2(t), im) }
        13 => { let data = [7u8; 11]; let t = NetworkTag::new(&data[..(1 + v % 10) as usize]); let im = img(&*t); (b.network(t), im) }
        14 => { let m = [0u8; 96]; let t = EFIMemoryMapTag::new_from_map(48, 1, &m[..(48 * (v % 3)) as usize]); let im = img(&*t); (b.efi_mmap(t), im) }
        15 => { let t = EFIBootServicesNotExitedTag::new(); let im = img(&t); (b.efi_bs(t), im) }
        16 => { let t = EFIImageHandle32Tag::new(v); let im = img(&t); (b.efi32_ih(t), im) }
        17 => { let t = EFIImageHandle64Tag::new(v as u64); let im = img(&t); (b.efi64_ih(t), im) }
        _ => { let t = ImageLoadPhysAddrTag::new(v); let im = img(&t); (b.image_load_addr(t), im) }
    }
}

/// position of slot `i` in the documented output order (modules after bootloader, smbios after efi64, custom last)
fn out_rank(i: usize) -> usize {
    // documented order of build(): cmdline, bootloader, [modules], meminfo, bootdev, mmap, vbe, framebuffer, elf, apm, efi32, efi64,
    // [smbios], rsdpv1, rsdpv2, network, efi_mmap, efi_bs, efi32_ih, efi64_ih, image_load_addr, [custom]
    match i { 0 => 0, 1 => 1, 2 => 3, 3 => 4, 4 => 5, 5 => 6, 6 => 7, 7 => 8, 8 => 9, 9 => 10, 10 => 11, 11 => 13, 12 => 14, 13 => 15, 14 => 16, 15 => 17, 16 => 18, 17 => 19, _ => 20 }
}

fn run_case(mask: u32, order: u32, reps: u32, nmod: usize, nsmb: usize, ncust: usize, rng: &mut Rng) {
    let mut slots: Vec<usize> = (0..NSLOTS).filter(|i| mask >> i & 1 == 1).collect();
    match order { 1 => slots.reverse(), 2 => { for k in (1..slots.len()).rev() { let j = (rng.next() % (k as u64 + 1)) as usize; slots.swap(k, j); } } _ => {} }
    let mut b = Builder::new();
    let mut single: Vec<(usize, Vec<u8>)> = Vec::new();
    // repeatable kinds interleaved with the single-valued ones
    let mut mods: Vec<Vec<u8>> = Vec::new();
    let mut smbs: Vec<Vec<u8>> = Vec::new();
    let mut custs: Vec<Vec<u8>> = Vec::new();
    let (mut im, mut is, mut ic) = (0, 0, 0);
    for (k, &i) in slots.iter().enumerate() {
        let v = (rng.next() & 0xffff) as u32;
        if reps >> (k % 8) & 1 == 1 {
            // an earlier call on the same slot with different contents: must be overwritten
            let (b2, _) = set_slot(b, i, v ^ 1);
            b = b2;
        }
        let (b2, image) = set_slot(b, i, v);
        b = b2;
        single.push((i, image));
        if im < nmod { let start = 0x9000 - 0x1000 * im as u32; let t = ModuleTag::new(start, start + 0x800, if im % 2 == 0 { "m" } else { "module two" }); mods.push(img(&*t)); b = b.add_module(t); im += 1; }
        // SMBIOS tags in an order that is NOT sorted by (size, major, minor, tables), with one byte-identical duplicate
        if is < nsmb { let t = SmbiosTag::new(9 - (is % 2) as u8 * 9, 1, &[1, 2, 3, 4, 5][..(3 - is % 2 * 2)]); smbs.push(img(&*t)); b = b.add_smbios(t); is += 1; }
        if ic < ncust { let t = multiboot2_common::new_boxed::<DynSizedStructure<TagHeader>>(TagHeader::new(TagType::Custom([0x2000u32, 0x1000, 0x1000][ic % 3]), 0), &[&[ic as u8; 5][..(ic + 1)]]); custs.push(img(&*t)); b = b.add_custom_tag(t); ic += 1; }
    }
    while im < nmod { let start = 0x9000 - 0x1000 * im as u32; let t = ModuleTag::new(start, start + 0x800, "late"); mods.push(img(&*t)); b = b.add_module(t); im += 1; }
    while is < nsmb { let t = SmbiosTag::new(9 - (is % 2) as u8 * 9, 1, &[1, 2, 3, 4, 5][..(3 - is % 2 * 2)]); smbs.push(img(&*t)); b = b.add_smbios(t); is += 1; }
    while ic < ncust { let t = multiboot2_common::new_boxed::<DynSizedStructure<TagHeader>>(TagHeader::new(TagType::Custom([0x2000u32, 0x1000, 0x1000][ic % 3]), 0), &[&[0xC0u8; 3][..]]); custs.push(img(&*t)); b = b.add_custom_tag(t); ic += 1; }

    // expected walk: documented order
    let mut expected: Vec<(usize, Vec<u8>)> = single.clone();
    expected.sort_by_key(|(i, _)| out_rank(*i));
    let mut want: Vec<Vec<u8>> = Vec::new();
    for (i, image) in expected {
        if out_rank(i) > 1 && !mods.is_empty() { want.append(&mut mods); }
        if out_rank(i) > 11 && !smbs.is_empty() { want.append(&mut smbs); }
        want.push(image);
    }
    want.append(&mut mods);
    want.append(&mut smbs);
    want.append(&mut custs);
    want.push([0u8, 0, 0, 0, 8, 0, 0, 0].to_vec()); // end tag: type 0, size 8

    let built = b.build();
    let bytes = built.as_bytes();
    assert_eq!(bytes.as_ptr() as usize % 8, 0, "built structure must be 8-aligned");
    let total = u32::from_le_bytes([bytes[0], bytes[1], bytes[2], bytes[3]]) as usize;
    assert_eq!(total, bytes.len(), "declared total size must be the exact byte length (mask {mask:#x})");
    let info = unsafe { BootInformation::load(bytes.as_ptr().cast()) }.expect("built structure must load");
    let mut got: Vec<Vec<u8>> = Vec::new();
    for t in info.tags() {
        let size = t.header().size as usize;
        got.push(t.as_bytes()[..size].to_vec());
    }
    assert_eq!(got.len(), want.len(), "number of tags differs: mask {mask:#x} order {order} reps {reps:#x} mods {nmod} smbios {nsmb} custom {ncust}");
    for (k, (g, w)) in got.iter().zip(want.iter()).enumerate() {
        assert_eq!(g, w, "tag {k} differs: mask {mask:#x} order {order} reps {reps:#x} mods {nmod} smbios {nsmb} custom {ncust}");
    }
    // the provided iterator methods agree with the walk (nth / skip / count)
    for k in 0..=got.len() {
        let at = info.tags().nth(k).map(|t| t.as_bytes()[..t.header().size as usize].to_vec());
        assert_eq!(at.as_ref(), got.get(k), "tags().nth({k}) (mask {mask:#x})");
        let sk = info.tags().skip(k).next().map(|t| t.as_bytes()[..t.header().size as usize].to_vec());
        assert_eq!(sk.as_ref(), got.get(k), "tags().skip({k}).next() (mask {mask:#x})");
    }
    assert_eq!(info.tags().count(), got.len());
    // end tag is the final 8 bytes
    assert_eq!(&bytes[total - 8..], &[0u8, 0, 0, 0, 8, 0, 0, 0]);
}

#[test]
fn n_builder_roundtrip() {
    let seed = std::env::var("VERIF_SEED").ok().and_then(|s| s.parse::<u64>().ok()).unwrap_or(0);
    let mut rng = Rng(0x9E37_79B9_7F4A_7C15 ^ (seed.wrapping_mul(0x1000_0001) | 1));
    let all = (1u32 << NSLOTS) - 1;
    let mut cases = 0u32;
    let mut masks: Vec<u32> = Vec::new();
    masks.push(0);
    masks.push(all);
    for i in 0..NSLOTS { masks.push(1 << i); masks.push(all & !(1 << i)); }
    for i in 0..NSLOTS { for j in (i + 1)..NSLOTS { masks.push(1 << i | 1 << j); } }
    for _ in 0..1500 { masks.push((rng.next() as u32) & all); }
    for (n, &mask) in masks.iter().enumerate() {
        let order = (n % 3) as u32;
        let reps = if n % 4 == 0 { (rng.next() & 0xff) as u32 } else { 0 };
        let (nmod, nsmb, ncust) = (n % 4, (n / 4) % 4, (n / 16) % 4);
        run_case(mask, order, reps, nmod, nsmb, ncust, &mut rng);
        cases += 1;
    }
    std::println!("n_builder_roundtrip: {cases} cases");
}
