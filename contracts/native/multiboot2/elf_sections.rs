// BOUNDED NATIVE STAND-IN (not a proof): the layout facts of `ElfSectionsTag` that the
// Verus unit u_mb2_elf ASSUMES (`elf_tag_wf`: fixed part 20 bytes, `sections` tail at offset
// 20 with `size - 20` elements, fields number_of_sections / entry_size / shndx at offsets
// 8 / 12 / 16) -- Kani cannot compile this type (ICE), so they are checked here on the
// compiled type by running the real parse path natively on enumerated byte images:
// every declared size 20..=20+3*64+7, field values from a marker pattern, 8 neighbouring
// bytes after the padded extent.  Also: the iterator built by `sections()` yields entries
// at base+20+i*entry_size (64-byte ELF64 entries) and nothing else.
use super::*;
use multiboot2_common::DynSizedStructure;
use std::vec::Vec;

#[repr(C, align(8))]
struct Aligned<const N: usize>([u8; N]);

#[test]
fn n_elf_sections_tag_layout() {
    let mut cases = 0u32;
    for size in 20usize..=(20 + 3 * 64 + 7) {
        let mut buf = Aligned([0xEEu8; 256]);
        let b = &mut buf.0;
        let padded = (size + 7) & !7;
        b[0..4].copy_from_slice(&9u32.to_le_bytes());
        b[4..8].copy_from_slice(&(size as u32).to_le_bytes());
        let n = ((size - 20) / 64) as u32;
        b[8..12].copy_from_slice(&n.to_le_bytes());
        b[12..16].copy_from_slice(&64u32.to_le_bytes());
        b[16..20].copy_from_slice(&0u32.to_le_bytes());
        for i in 20..size {
            b[i] = (i as u8).wrapping_mul(7).wrapping_add(3);
        }
        // ELF64 entries: sh_type (u32 at +4) = 1 (in use) so that every entry is yielded
        for e in 0..n as usize {
            let o = 20 + e * 64;
            b[o + 4..o + 8].copy_from_slice(&1u32.to_le_bytes());
        }
        let base = b.as_ptr() as usize;
        let generic = DynSizedStructure::<TagHeader>::ref_from_slice(&b[..padded]).unwrap();
        let tag = generic.cast::<ElfSectionsTag>();
        assert_eq!(tag as *const ElfSectionsTag as *const u8 as usize, base);
        assert_eq!(core::mem::size_of_val(tag), padded, "size_of_val (size {size})");
        assert_eq!(tag.number_of_sections(), n, "number_of_sections is the word at offset 8");
        assert_eq!(tag.entry_size(), 64, "entry_size is the word at offset 12");
        assert_eq!(tag.shndx(), 0, "shndx is the word at offset 16");
        assert_eq!(tag.sections.as_ptr() as usize, base + 20, "tail starts at offset 20");
        assert_eq!(tag.sections.len(), size - 20, "tail has size - 20 elements");
        assert_eq!(tag.header.size as usize, size);
        assert_eq!(<ElfSectionsTag as MaybeDynSized>::BASE_SIZE, 20);
        let got: Vec<usize> = tag.sections().map(|s| s.inner as usize).collect();
        let want: Vec<usize> = (0..n as usize).map(|e| base + 20 + e * 64).collect();
        assert_eq!(got, want, "entries at base + 20 + i * entry_size (size {size})");
        cases += 1;
    }
    // distinct field values: a swap of two of the three words is visible
    let mut buf = Aligned([0u8; 32]);
    let b = &mut buf.0;
    b[0..4].copy_from_slice(&9u32.to_le_bytes());
    b[4..8].copy_from_slice(&20u32.to_le_bytes());
    b[8..12].copy_from_slice(&0x0000_0000u32.to_le_bytes());
    b[12..16].copy_from_slice(&0x2222_2222u32.to_le_bytes());
    b[16..20].copy_from_slice(&0x3333_3333u32.to_le_bytes());
    let generic = DynSizedStructure::<TagHeader>::ref_from_slice(&b[..24]).unwrap();
    let tag = generic.cast::<ElfSectionsTag>();
    assert_eq!((tag.number_of_sections(), tag.entry_size(), tag.shndx()), (0, 0x2222_2222, 0x3333_3333));
    std::println!("n_elf_sections_tag_layout: {} cases", cases + 1);
}

// ---------------------------------------------------------------------------------
// BOUNDED NATIVE STAND-IN for C19 "names resolve through the string-table entry the tag
// designates": `ElfSection::name()` dereferences the address stored in the designated entry
// (memory outside the tag: outside the Verus memory model, and Kani loses the object of an
// integer-to-pointer cast).  Real string table in memory, ELF64 entries, string-table index 0
// and 2, name offsets 0 .. 131000 (beyond 16 bits), names of several lengths.
// ---------------------------------------------------------------------------------
#[test]
fn n_elf_section_names() {
    let mut table = std::vec![b'x'; 131072];
    // NUL terminators every 16 bytes, distinct names at selected offsets
    for i in (15..table.len()).step_by(16) {
        table[i] = 0;
    }
    let offsets: [usize; 10] = [0, 16, 240, 256, 65520, 65536, 65552, 70000 / 16 * 16, 131040, 131056];
    for (k, &o) in offsets.iter().enumerate() {
        let name = std::format!(".n{:05x}_{}", o, k);
        table[o..o + name.len()].copy_from_slice(name.as_bytes());
        table[o + name.len()] = 0;
    }
    let mut cases = 0u32;
    for shndx in [0u32, 2] {
        for (k, &o) in offsets.iter().enumerate() {
            let mut buf = Aligned([0u8; 256]);
            let b = &mut buf.0;
            let size = 20 + 3 * 64;
            b[0..4].copy_from_slice(&9u32.to_le_bytes());
            b[4..8].copy_from_slice(&(size as u32).to_le_bytes());
            b[8..12].copy_from_slice(&3u32.to_le_bytes());
            b[12..16].copy_from_slice(&64u32.to_le_bytes());
            b[16..20].copy_from_slice(&shndx.to_le_bytes());
            for e in 0..3usize {
                let at = 20 + e * 64;
                b[at + 4..at + 8].copy_from_slice(&1u32.to_le_bytes()); // in use
                // decoy address in the entries that are NOT the string table
                b[at + 16..at + 24].copy_from_slice(&(0xdead_0000u64 + e as u64).to_le_bytes());
            }
            // the designated entry's sh_addr is the string table
            let st = 20 + shndx as usize * 64;
            b[st + 16..st + 24].copy_from_slice(&(table.as_ptr() as u64).to_le_bytes());
            // entry 1 carries the name offset under test
            b[20 + 64..20 + 64 + 4].copy_from_slice(&(o as u32).to_le_bytes());
            let generic = DynSizedStructure::<TagHeader>::ref_from_slice(&b[..216]).unwrap();
            let tag = generic.cast::<ElfSectionsTag>();
            let secs: Vec<_> = tag.sections().collect();
            assert_eq!(secs.len(), 3);
            let want = std::format!(".n{:05x}_{}", o, k);
            assert_eq!(secs[1].name(), Ok(want.as_str()), "name at offset {o:#x} through string-table entry {shndx}");
            cases += 1;
        }
    }
    std::println!("n_elf_section_names: {cases} cases");
}

// ---------------------------------------------------------------------------------
// BOUNDED NATIVE STAND-IN for C19 / C01 "section headers or a string-table index beyond the
// tag's payload are rejected by a controlled panic, never read": `sections()` on tags whose
// declared size is 0..=24 bytes SHORT of 20 + n * entry_size (entry sizes 40 and 64, n = 1..=3)
// must panic; an exact fit and any slack must be accepted with exactly n entries, all inside
// the tag.  String-table index: shndx < n or 0 accepted, shndx >= n (n > 0) rejected.
// (Kani cannot compile this type; a change that adds a helper method to ElfSectionsTag makes
// the Verus unit undecided: this stand-in keeps such a change replayable.)
// ---------------------------------------------------------------------------------
#[test]
fn n_elf_sections_truncated() {
    use std::panic::{catch_unwind, AssertUnwindSafe};
    let mut cases = 0u32;
    for &esz in &[40usize, 64] {
        for n in 1usize..=3 {
            let full = 20 + n * esz;
            for short in 0usize..=24 {
                for shndx in [0u32, (n as u32).saturating_sub(1), n as u32, n as u32 + 1] {
                    let size = full - short;
                    let mut buf = Aligned([0x11u8; 256]);
                    let b = &mut buf.0;
                    let padded = (size + 7) & !7;
                    b[0..4].copy_from_slice(&9u32.to_le_bytes());
                    b[4..8].copy_from_slice(&(size as u32).to_le_bytes());
                    b[8..12].copy_from_slice(&(n as u32).to_le_bytes());
                    b[12..16].copy_from_slice(&(esz as u32).to_le_bytes());
                    b[16..20].copy_from_slice(&shndx.to_le_bytes());
                    for e in 0..n {
                        let o = 20 + e * esz;
                        b[o + 4..o + 8].copy_from_slice(&1u32.to_le_bytes());
                    }
                    let base = b.as_ptr() as usize;
                    let generic = DynSizedStructure::<TagHeader>::ref_from_slice(&b[..padded]).unwrap();
                    let tag = generic.cast::<ElfSectionsTag>();
                    let res = catch_unwind(AssertUnwindSafe(|| tag.sections().map(|s| s.inner as usize).collect::<Vec<usize>>()));
                    let shndx_ok = shndx == 0 || (shndx as usize) < n;
                    if short > 0 || !shndx_ok {
                        assert!(res.is_err(), "entry size {esz}, {n} entries, declared size {size} ({short} short), shndx {shndx}: must be rejected, got {:?}", res.map(|v| v.len()));
                    } else {
                        let got = res.expect("exact fit must be accepted");
                        let want: Vec<usize> = (0..n).map(|e| base + 20 + e * esz).collect();
                        assert_eq!(got, want);
                        assert!(got.iter().all(|a| a + esz <= base + size));
                    }
                    cases += 1;
                }
            }
        }
    }
    std::println!("n_elf_sections_truncated: {} cases", cases);
}
