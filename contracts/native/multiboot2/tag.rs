// BOUNDED NATIVE STAND-IN for C07 / C16 at content lengths beyond the Kani harnesses (which
// bound variable-length contents to <= 9 bytes / <= 3 elements): the variable-length
// constructors run natively with LARGE contents (strings up to 300 bytes, palettes of
// 0..65535 colours, 70000-byte network / SMBIOS / ELF payloads, 300 memory areas, 1400 EFI
// descriptors) and their byte image is compared with the specification's little-endian
// encoding of the arguments; the accessors read the arguments back.
use super::*;
use crate::{BootLoaderNameTag, CommandLineTag, EFIMemoryMapTag, ElfSectionsTag, FramebufferColor, FramebufferField,
            FramebufferTag, FramebufferType, MemoryArea, MemoryMapTag, ModuleTag, NetworkTag, SmbiosTag};
use multiboot2_common::MaybeDynSized;
use std::vec::Vec;

/// image of the tag, and: cloning yields an equal tag (same declared size, same bytes up to that size)
fn image<T: MaybeDynSized<Header = TagHeader, Metadata = usize> + ?Sized>(t: &T) -> Vec<u8> {
    let c = multiboot2_common::clone_dyn(t);
    let (a, b) = (image_of(t), image_of(&*c));
    assert_eq!(a, b, "clone_dyn yields an equal tag");
    a
}

fn image_of<T: MaybeDynSized<Header = TagHeader> + ?Sized>(t: &T) -> Vec<u8> {
    let b = t.as_bytes();
    assert_eq!(b.as_ptr() as usize % 8, 0, "tag allocation is 8-aligned");
    assert_eq!(b.len() % 8, 0);
    let size = t.header().size as usize;
    assert_eq!(b.len(), (size + 7) & !7, "byte view = size rounded up to 8");
    // (the padding bytes b[size..] are NOT compared: new_boxed leaves them uninitialised and no listed
    // property speaks about them -- see DESIGN section 7, observation O-pad)
    b[..size].to_vec()
}

fn expect(typ: u32, content: &[u8]) -> Vec<u8> {
    let mut v = Vec::new();
    v.extend_from_slice(&typ.to_le_bytes());
    v.extend_from_slice(&((8 + content.len()) as u32).to_le_bytes());
    v.extend_from_slice(content);
    v
}

fn text(n: usize) -> std::string::String {
    (0..n).map(|i| (b'a' + (i % 23) as u8) as char).collect()
}

#[test]
fn n_ctor_large_contents() {
    let mut cases = 0u32;
    // --- string tags
    for n in (0..=40).chain([63, 64, 65, 127, 128, 255, 256, 257, 300]) {
        let s = text(n);
        let mut c = s.as_bytes().to_vec();
        c.push(0);
        let t = CommandLineTag::new(&s);
        assert_eq!(image(&*t), expect(1, &c), "cmdline of {n} bytes");
        assert_eq!(t.cmdline(), Ok(s.as_str()));
        let t = BootLoaderNameTag::new(&s);
        assert_eq!(image(&*t), expect(2, &c), "boot loader name of {n} bytes");
        assert_eq!(t.name(), Ok(s.as_str()));
        let t = ModuleTag::new(0x8000_0000 + n as u32, 0xffff_fff0, &s);
        let mut mc = Vec::new();
        mc.extend_from_slice(&(0x8000_0000u32 + n as u32).to_le_bytes());
        mc.extend_from_slice(&0xffff_fff0u32.to_le_bytes());
        mc.extend_from_slice(&c);
        assert_eq!(image(&*t), expect(3, &mc), "module with cmdline of {n} bytes");
        assert_eq!((t.start_address(), t.end_address(), t.cmdline()), (0x8000_0000 + n as u32, 0xffff_fff0, Ok(s.as_str())));
        cases += 3;
    }
    // --- framebuffer: palettes
    for n in [0usize, 1, 2, 3, 85, 254, 255, 256, 257, 1000, 4096, 65535] {
        let pal: Vec<FramebufferColor> = (0..n).map(|i| FramebufferColor { red: i as u8, green: (i >> 8) as u8, blue: (i * 7) as u8 }).collect();
        let t = FramebufferTag::new(0x1_2345_6789, 0x0a0b_0c0d, 1024, 768, 8, FramebufferType::Indexed { palette: &pal });
        let mut c = Vec::new();
        c.extend_from_slice(&0x1_2345_6789u64.to_le_bytes());
        c.extend_from_slice(&0x0a0b_0c0du32.to_le_bytes());
        c.extend_from_slice(&1024u32.to_le_bytes());
        c.extend_from_slice(&768u32.to_le_bytes());
        c.extend_from_slice(&[8, 0, 0, 0]);
        c.extend_from_slice(&(n as u16).to_le_bytes());
        for p in &pal {
            c.extend_from_slice(&[p.red, p.green, p.blue]);
        }
        assert_eq!(image(&*t), expect(8, &c), "indexed framebuffer with {n} colours");
        match t.buffer_type() {
            Ok(FramebufferType::Indexed { palette }) => assert_eq!(palette, &pal[..], "palette of {n} colours reads back"),
            other => panic!("indexed framebuffer read back as {other:?}"),
        }
        cases += 1;
    }
    // more colours than the 16-bit count field can represent: no encoding of the arguments exists, so the
    // only outcome compatible with C07 is a controlled panic (never a tag whose count field disagrees
    // with the colours it carries)
    for n in [65536usize, 65537, 70000] {
        let pal: Vec<FramebufferColor> = (0..n).map(|i| FramebufferColor { red: i as u8, green: (i >> 8) as u8, blue: (i >> 16) as u8 }).collect();
        let r = std::panic::catch_unwind(|| {
            let t = FramebufferTag::new(0, 0, 1, 1, 8, FramebufferType::Indexed { palette: &pal });
            match t.buffer_type() {
                Ok(FramebufferType::Indexed { palette }) => palette.len(),
                _ => usize::MAX,
            }
        });
        if let Ok(read_back) = r {
            assert_eq!(read_back, n, "FramebufferTag::new accepted {n} colours but the tag reads back {read_back}");
        }
        cases += 1;
    }
    let t = FramebufferTag::new(1, 2, 3, 4, 32, FramebufferType::RGB {
        red: FramebufferField { position: 16, size: 8 }, green: FramebufferField { position: 8, size: 8 }, blue: FramebufferField { position: 0, size: 7 } });
    let mut c = Vec::new();
    c.extend_from_slice(&1u64.to_le_bytes());
    c.extend_from_slice(&2u32.to_le_bytes());
    c.extend_from_slice(&3u32.to_le_bytes());
    c.extend_from_slice(&4u32.to_le_bytes());
    c.extend_from_slice(&[32, 1, 0, 0, 16, 8, 8, 8, 0, 7]);
    assert_eq!(image(&*t), expect(8, &c));
    // --- byte payload tags
    for n in [0usize, 1, 7, 8, 9, 255, 256, 1500, 65527, 65528, 65529, 70000] {
        let data: Vec<u8> = (0..n).map(|i| (i * 13 + 5) as u8).collect();
        let t = NetworkTag::new(&data);
        assert_eq!(image(&*t), expect(16, &data), "network tag with {n} bytes");
        let t = SmbiosTag::new(3, 4, &data);
        let mut c = std::vec![3u8, 4, 0, 0, 0, 0, 0, 0];
        c.extend_from_slice(&data);
        assert_eq!(image(&*t), expect(13, &c), "SMBIOS tag with {n} bytes");
        assert_eq!((t.major(), t.minor(), t.tables()), (3, 4, &data[..]));
        let t = ElfSectionsTag::new(n as u32 / 64, 64, 0, &data);
        let mut c = Vec::new();
        c.extend_from_slice(&(n as u32 / 64).to_le_bytes());
        c.extend_from_slice(&64u32.to_le_bytes());
        c.extend_from_slice(&0u32.to_le_bytes());
        c.extend_from_slice(&data);
        assert_eq!(image(&*t), expect(9, &c), "ELF sections tag with {n} bytes");
        let t = EFIMemoryMapTag::new_from_map(48, 1, &data[..n - n % 48]);
        let mut c = Vec::new();
        c.extend_from_slice(&48u32.to_le_bytes());
        c.extend_from_slice(&1u32.to_le_bytes());
        c.extend_from_slice(&data[..n - n % 48]);
        assert_eq!(image(&*t), expect(17, &c), "EFI memory map with {n} bytes");
        assert_eq!(t.memory_areas().len(), n / 48);
        cases += 4;
    }
    // --- memory map
    for n in [0usize, 1, 2, 3, 10, 300, 3000] {
        let areas: Vec<MemoryArea> = (0..n).map(|i| MemoryArea::new(0x1_0000_0000 + i as u64 * 0x1000, 0x800 + i as u64, 1 + (i % 5) as u32)).collect();
        let t = MemoryMapTag::new(&areas);
        let mut c = Vec::new();
        c.extend_from_slice(&24u32.to_le_bytes());
        c.extend_from_slice(&0u32.to_le_bytes());
        for i in 0..n {
            c.extend_from_slice(&(0x1_0000_0000u64 + i as u64 * 0x1000).to_le_bytes());
            c.extend_from_slice(&(0x800u64 + i as u64).to_le_bytes());
            c.extend_from_slice(&(1 + (i % 5) as u32).to_le_bytes());
            c.extend_from_slice(&0u32.to_le_bytes());
        }
        assert_eq!(image(&*t), expect(6, &c), "memory map with {n} areas");
        assert_eq!(t.memory_areas(), &areas[..]);
        cases += 1;
    }
    std::println!("n_ctor_large_contents: {cases} cases");
}
