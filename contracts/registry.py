"""Unit table: property -> obligations (engine V functions, engine K harnesses).

V entries: (unit, [function names as reported by Verus, without the crate prefix]).
K entries: harness names (functions in contracts/kani/**, module verif_kani).
Every obligation listed here is discharged on the reference tree (unchanged
tree + `fix:` commits) or is a listed known finding.
"""

# ---------------------------------------------------------------------------
# Kani harnesses
#   kind   'full'    loop-free (or unwinding-complete) harness over the full
#                    domain of its fixed-size symbolic inputs: a complete proof
#          'bounded' symbolic length/size bounded as stated in `bound`
#   allow  failure classes that are acceptable outcomes for this harness
#          ('assert','panic' = controlled panics).  Overflow / memory / contract
#          failures are never acceptable.
# ---------------------------------------------------------------------------
COMMON = dict(crate='multiboot2-common', features=None, file='lib.rs')

HARNESSES = {
    'k_increase_to_alignment_contract': dict(COMMON, kind='full', functions=['increase_to_alignment'],
        bound='all usize <= usize::MAX-7 (function contract, proof_for_contract)', playback_harness='k_increase_to_alignment'),
    'k_increase_to_alignment': dict(COMMON, kind='full', functions=['increase_to_alignment'],
        bound='all usize <= usize::MAX-7 (loop-free, complete)'),
    'k_bytesref_try_from': dict(COMMON, kind='bounded', functions=['BytesRef::try_from'],
        bound='slice length 0..=40, start misalignment 0..=7 (loop-free; logic depends on length and alignment only)'),
    'k_ref_from_slice': dict(COMMON, kind='bounded', functions=['DynSizedStructure::ref_from_slice', 'ref_from_bytes', 'header', 'payload'],
        bound='slice length 0..=32, start offset 0..=7, all byte contents, declared size any u32'),
    'k_canary_must_fail': dict(COMMON, kind='canary', functions=['(vacuity guard: must fail)'], bound='-', known_failing=True),
    'k_dyn_layout': dict(COMMON, kind='bounded', functions=['DynSizedStructure layout (size_of_val, field offsets)'],
        bound='payload metadata 0..=32'),
}

MB2 = dict(crate='multiboot2', features=None)
for _h in ['k_tagtype_roundtrip_all_u32', 'k_tagtype_id_wrapper_commutes', 'k_tagtype_equalities_agree', 'k_tagtype_custom_noncanonical']:
    HARNESSES[_h] = dict(MB2, file='tag_type.rs', kind='full', functions=['From<u32> for TagType', 'From<TagType> for u32', 'TagTypeId conversions', 'PartialEq impls'],
                         bound='all u32 values (two independent symbolic u32 for the equalities); loop-free, complete')
HARNESSES['k_mbi_magic'] = dict(MB2, file='lib.rs', kind='full', functions=['MAGIC'], bound='constant')

# ---------------------------------------------------------------------------
# Bounded NATIVE stand-ins (real function executed natively on an enumerated
# input family) for clauses neither verifier can reach.  Never counted as proved.
# ---------------------------------------------------------------------------
NATIVE = {
    'n_inforeq_alloc_layout': dict(crate='multiboot2-header', file='information_request.rs', props=['C16', 'C12', 'C07'],
        bound='InformationRequestHeaderTag::new with 0..=5 requests under a layout-recording global allocator (6 cases)',
        functions=['new_boxed (allocation layout passed to alloc vs. Box drop), header type with alignment 4']),
    'n_hdr_builder_call_orders': dict(crate='multiboot2-header', file='builder.rs', props=['C12'],
        bound='all 1024 subsets of the ten builder slots x three call orders (documented, reverse, rotated + one repeated setter), both architectures (3072 cases): magic, architecture, length, checksum, the supplied tag images in the documented order, one end tag; the real loader accepts the result',
        functions=['multiboot2_header::Builder setters (frame: every other slot unchanged, in every call order) and build() on compiled code; keeps changes that make the Verus unit undecided replayable']),
    'n_find_header_window_limit': dict(crate='multiboot2-header', file='header.rs', props=['C13'],
        bound='buffer lengths {8190, 8192, 8196, 8200, 8216, 8448} x magic positions 8150..=8210 x header lengths {16, 24, 200, 400} (1464 cases), zero-filled otherwise',
        functions=['Multiboot2Header::find_header (8192-byte search window clause)']),
    'n_elf_sections_tag_layout': dict(crate='multiboot2', file='elf_sections.rs', props=['C19', 'C01', 'C04'],
        bound='every declared size 20..=219 of an ELF-sections tag (0..=3 ELF64 entries of 64 bytes), marker contents; plus one image with three distinct field words (201 cases)',
        functions=['ElfSectionsTag layout assumed by Verus (elf_tag_wf): fields at offsets 8/12/16, tail at offset 20 with size-20 elements, size_of_val; ElfSectionsTag::sections entry addresses (Kani cannot compile this type)']),
    'n_elf_sections_truncated': dict(crate='multiboot2', file='elf_sections.rs', props=['C19', 'C01', 'C05'],
        bound='entry sizes {40, 64} x 1..=3 entries x declared size 0..=24 bytes short of 20 + n * entry_size x string-table index {0, n-1, n, n+1} (600 cases): rejected by a controlled panic iff truncated or index out of range, else exactly n entries inside the tag',
        functions=['ElfSectionsTag::sections acceptance condition on the compiled type (Kani cannot compile this type; keeps changes that make the Verus unit undecided replayable)']),
    'n_elf_section_names': dict(crate='multiboot2', file='elf_sections.rs', props=['C19'],
        bound='ELF64, three entries, string-table index 0 and 2, ten name offsets 0..131056 in a real 128 KiB string table (20 cases)',
        functions=['ElfSection::name / string_table: "names resolve through the string-table entry the tag designates" (reads memory outside the tag: outside the Verus memory model; Kani loses the object of an integer-to-pointer cast)']),
    'n_hdr_getters_many_tags': dict(crate='multiboot2-header', file='header.rs', props=['C11', 'C12'],
        bound='10 getter kinds x {0,1,2,5,9..13,20,40,100,600,1100} filler tags (other kinds, cycling) x wanted kind present twice / absent (280 headers, up to ~16 KiB); every getter compared with the first tag of its type in the walk',
        functions=['Multiboot2Header::get_tag and the ten typed getters beyond the Kani region sizes, on compiled code (cross-check of the Verus proof, which rewrites Iterator::find to the tagiter_find glue)']),
    'n_mbi_getters_many_tags': dict(crate='multiboot2', file='boot_information.rs', props=['C04', 'C03', 'C17'],
        bound='20 getter kinds x {0,1,2,7,8,9,19..23,40,100,1100} filler tags x wanted kind present twice / absent, EFI map vs boot-services tag in both orders with 0/1/30 fillers, module iterator with 0/3/25 modules (572 regions); every getter compared with the first tag of its type in the walk',
        functions=['BootInformation::get_tag and all typed getters, efi_memory_map_tag rule, module_tags beyond the Kani region sizes, on compiled code (cross-check of the Verus proof, which rewrites Iterator::find to the tagiter_find glue; the deprecated elf_sections() is not under a Verus contract of its own)']),
    'n_ctor_large_contents': dict(crate='multiboot2', file='tag.rs', props=['C07', 'C16', 'C17'],
        bound='variable-length constructors with LARGE contents: strings of 0..=40, 63..65, 127, 128, 255..257, 300 bytes (cmdline, boot loader name, module); palettes of 0..65535 colours; network / SMBIOS / ELF / EFI-map payloads of 0..70000 bytes; 0..3000 memory areas (217 cases); byte image vs. the specification encoding, accessors read back',
        functions=['CommandLineTag::new', 'BootLoaderNameTag::new', 'ModuleTag::new', 'FramebufferTag::new + FramebufferType::serialize', 'NetworkTag::new', 'SmbiosTag::new', 'ElfSectionsTag::new', 'EFIMemoryMapTag::new_from_map', 'MemoryMapTag::new', 'new_boxed (large totals)']),
    'n_inforeq_large_lists': dict(crate='multiboot2-header', file='information_request.rs', props=['C07', 'C12'],
        bound='information request with 0..=20, 63..65, 255, 256, 1000, 2035, 2036, 3000 entries x both flags (60 cases): image vs. specification encoding, read back, built into a header and walked',
        functions=['InformationRequestHeaderTag::new', 'Builder::build + Multiboot2Header::load on headers beyond 8192 bytes']),
    'n_builder_roundtrip': dict(crate='multiboot2', file='builder.rs', props=['C06'],
        bound='real Builder run natively on 1711 cases: empty, full, every single slot, every 18-of-19 subset, all pairs, 1500 pseudo-random subsets (seeded by VERIF_SEED); three call orders; repeated setter calls; 0..=3 modules (descending addresses) / SMBIOS / custom tags (duplicate id) interleaved; oracle = supplied tag images in the documented order + end tag vs BootInformation::load(..).tags()',
        functions=['Builder::build and all setters on COMPILED code (cross-check of the Verus proof; Kani cannot compile the builder)']),
}

# V obligations with a COMPLETE Kani proof of the *same contract*: if the V proof fails while
# that K proof still passes, the failure is proof brittleness (undecided in V, holds by K)
SAME_CONTRACT_FULL = {
    'u_common::increase_to_alignment': ['k_increase_to_alignment', 'k_increase_to_alignment_contract'],
    'u_canary::increase_to_alignment': [],
    'u_hdr_core::Multiboot2BasicHeader::calc_checksum': ['k_mb2hdr_checksum_law_all'],
    'u_hdr_core::Multiboot2BasicHeader::verify_checksum': ['k_mb2hdr_verify_checksum_iff_all'],
    'u_mb2_fb::FramebufferTypeId::try_from': ['k_fb_type_all_bytes'],
}

# V obligation -> K harnesses of the same contract (run for a counterexample
# when the V proof fails)
PAIRS = {
    'u_common::increase_to_alignment': ['k_increase_to_alignment_contract', 'k_increase_to_alignment'],
    'u_common::BytesRef::try_from': ['k_bytesref_try_from'],
    'u_common::DynSizedStructure::ref_from_bytes': ['k_ref_from_slice'],
    'u_common::DynSizedStructure::ref_from_slice': ['k_ref_from_slice'],
    'u_common::TagIter::next': ['k_tagiter_clone_history'],
    'u_mb2_core::BootInformation::load': ['k_load_accepts_exactly'],
    'u_mb2_core::BootInformation::has_valid_end_tag': ['k_load_accepts_exactly'],
    'u_mb2_core::BootInformationHeader::payload_len': ['k_load_accepts_exactly'],
    'u_mb2_core::BytesRef::try_from': ['k_load_accepts_exactly', 'k_bytesref_try_from'],
    'u_mb2_core::TagIter::next': ['k_tags_walk'],
    'u_mb2_core::TagHeader::payload_len': ['k_tags_walk'],
    'u_mb2_core::BootInformation::tags': ['k_tags_walk'],
    'u_hdr_core::Multiboot2Header::load': ['k_mb2hdr_load', 'k_mb2hdr_load_short'],
    'u_hdr_core::Multiboot2BasicHeader::calc_checksum': ['k_mb2hdr_checksum_law_all'],
    'u_hdr_core::Multiboot2BasicHeader::verify_checksum': ['k_mb2hdr_verify_checksum_iff_all'],
    'u_hdr_core::Multiboot2BasicHeader::payload_len': ['k_mb2hdr_load_short'],
    'u_hdr_core::HeaderTagHeader::payload_len': ['k_hdr_tag_header_payload_len_all'],
    'u_hdr_core::Multiboot2Header::iter': ['k_mb2hdr_iter_32'],
    'u_mb2_efi::EFIMemoryAreaIter::new': ['k_efi_iter_any'],
    'u_mb2_efi::EFIMemoryAreaIter::next': ['k_efi_iter_wellformed'],
    'u_mb2_efi::EFIMemoryAreaIter::len': ['k_efi_iter_wellformed'],
    'u_mb2_efi::EFIMemoryMapTag::memory_areas': ['k_efi_iter_any'],
    'u_mb2_fb::FramebufferTag::buffer_type': ['k_fb_indexed_palette_inside_tag', 'k_fb_type_all_bytes'],
    'u_mb2_fb::FramebufferTypeId::try_from': ['k_fb_type_all_bytes'],
}

COMMON_V_MEM = ['DynSizedStructure::ref_from_bytes', 'DynSizedStructure::ref_from_slice', 'DynSizedStructure::ref_from_ptr',
                'DynSizedStructure::cast', 'DynSizedStructure::dst_len', 'MaybeDynSized::header', 'MaybeDynSized::payload',
                'MaybeDynSized::as_bytes', 'MaybeDynSized::as_ptr', 'BytesRef::try_from', 'BytesRef::deref',
                'TagIter::new', 'TagIter::next', 'Header::total_size', 'increase_to_alignment', 'res_unwrap',
                'lemma_round8_bv', 'lemma_round8_props', 'lemma_vslice_wf']

PROPS = {
    'C02': dict(
        v=[('u_mb2_core', ['BootInformation::load', 'BootInformation::has_valid_end_tag', 'BootInformation::total_size',
                           'BootInformation::start_address', 'BootInformation::end_address', 'BootInformation::as_ptr',
                           'BootInformationHeader::total_size', 'BootInformationHeader::payload_len', 'BootInformationHeader::lemma_hdr_layout',
                           'DynSizedStructure::ref_from_ptr', 'DynSizedStructure::ref_from_slice', 'DynSizedStructure::ref_from_bytes',
                           'BytesRef::try_from', 'Header::total_size', 'TagTypeId::eq'])],
        k_quick=[], k_thorough=[],
    ),
    'C03': dict(
        v=[('u_mb2_core', ['TagIter::new', 'TagIter::next', 'walk_collect', 'BootInformation::tags', 'TagHeader::payload_len',
                           'TagHeader::lemma_hdr_layout', 'DynSizedStructure::ref_from_slice', 'DynSizedStructure::ref_from_bytes',
                           'increase_to_alignment', 'lemma_round8_bv', 'lemma_round8_props'])],
        k_quick=[], k_thorough=[],
    ),
    'C05': dict(
        v=[('u_mb2_dstlen', ['*Tag::dst_len', '*_BASE_SIZE', 'DynSizedStructure::dst_len', 'MaybeDynSized::payload', 'MaybeDynSized::as_bytes',
                             'CommandLineTag::cmdline', 'BootLoaderNameTag::name', 'ModuleTag::cmdline',
                             'MemoryMapTag::memory_areas', 'SmbiosTag::tables']),
           ('u_hdr_builder', ['InformationRequestHeaderTag::dst_len', 'INFOREQ_BASE_SIZE']),
           ('u_mb2_fb', ['FramebufferTag::buffer_type', 'Reader::*']),
           ('u_mb2_efi', ['EFIMemoryAreaIter::new', 'EFIMemoryAreaIter::next', 'EFIMemoryMapTag::memory_areas']),
           ('u_mb2_elf', ['ElfSectionsTag::sections'])],
        k_quick=[], k_thorough=[],
    ),
    'C15': dict(
        v=[('u_mb2_dstlen', ['DynSizedStructure::cast', '*Tag::dst_len', 'DynSizedStructure::dst_len', 'MaybeDynSized::header', 'MaybeDynSized::as_bytes',
                             # the size of the generic view that cast() compares against comes from the Header impl and the constructors of the view
                             'TagHeader::payload_len', 'TagHeader::set_size', 'Header::total_size',
                             'DynSizedStructure::ref_from_bytes', 'DynSizedStructure::ref_from_slice', 'TagIter::next']),
           # the header crate's kinds (HeaderTagHeader is the Header impl behind every header-tag cast)
           ('u_hdr_builder', ['DynSizedStructure::cast', '*HeaderTag::dst_len', 'INFOREQ_BASE_SIZE', 'DynSizedStructure::dst_len',
                              'HeaderTagHeader::payload_len', 'HeaderTagHeader::set_size', 'Header::total_size',
                              'DynSizedStructure::ref_from_bytes', 'DynSizedStructure::ref_from_slice', 'TagIter::next'])],
        k_quick=[], k_thorough=[],
    ),
    'C18': dict(
        v=[('u_mb2_efi', ['EFIMemoryAreaIter::new', 'EFIMemoryAreaIter::next', 'EFIMemoryAreaIter::len', 'EFIMemoryMapTag::memory_areas',
                          'EFIMemoryMapTag::dst_len', 'EFIMEMORYMAPTAG_BASE_SIZE', 'lemma_div_exact', 'lemma_efi_index'])],
        k_quick=[], k_thorough=[],
    ),
    'C19': dict(
        v=[('u_mb2_elf', ['ElfSectionsTag::sections', 'elf::ElfSectionIter::next', 'elf::ElfSection::get', 'elf::ElfSection::section_type',
                          'elf::ElfSection::section_type_raw', 'elf::ElfSectionInner32::typ', 'elf::ElfSectionInner64::typ',
                          'ElfSectionsTag::dst_len', 'ELFSECTIONSTAG_BASE_SIZE', 'elf::lemma_elf_bounds', 'elf_arith::lemma_span_*'])],
        k_quick=[], k_thorough=[],
    ),
    'C20': dict(
        v=[('u_tagtype', ['TagType::from', 'impl&%*::from', 'lemma_tagtype_roundtrip', 'lemma_tagtype_injective', 'tagtype_roundtrip_exec']),
           # "classification of framebuffer type bytes is total and matches the documented values": all 256 bytes, and the
           # public classification path (buffer_type) is a function of the type byte alone
           ('u_mb2_fb', ['FramebufferTypeId::try_from', 'FramebufferTag::buffer_type', 'Reader::*'])],
        k_quick=['k_tagtype_roundtrip_all_u32', 'k_tagtype_id_wrapper_commutes', 'k_tagtype_equalities_agree', 'k_tagtype_custom_noncanonical', 'k_mbi_magic'],
        k_thorough=[],
    ),
    'C09': dict(
        v=[('u_hdr_core', ['Multiboot2Header::load', 'Multiboot2Header::iter', 'HeaderTagHeader::payload_len', 'HeaderTagHeader::lemma_hdr_layout',
                           'Multiboot2BasicHeader::payload_len', 'Multiboot2BasicHeader::lemma_hdr_layout'] + COMMON_V_MEM + ['walk_collect'])],
        k_quick=[], k_thorough=[],
    ),
    'C10': dict(
        v=[('u_hdr_core', ['Multiboot2Header::load', 'Multiboot2BasicHeader::calc_checksum', 'Multiboot2BasicHeader::verify_checksum',
                           'Multiboot2BasicHeader::set_size',
                           'Multiboot2BasicHeader::length', 'Multiboot2BasicHeader::header_magic', 'Multiboot2BasicHeader::checksum',
                           'Multiboot2BasicHeader::payload_len', 'DynSizedStructure::ref_from_ptr', 'DynSizedStructure::ref_from_slice',
                           'DynSizedStructure::ref_from_bytes', 'BytesRef::try_from', 'Header::total_size'])],
        k_quick=[], k_thorough=[],
    ),
    'C01': dict(
        v=[('u_mb2_core', ['BootInformation::load', 'BootInformation::has_valid_end_tag', 'BootInformation::tags', 'TagHeader::payload_len',
                           'BootInformationHeader::payload_len'] + COMMON_V_MEM + ['walk_collect']),
           ('u_mb2_efi', ['EFIMemoryAreaIter::new', 'EFIMemoryAreaIter::next', 'EFIMemoryMapTag::memory_areas']),
           ('u_mb2_elf', ['ElfSectionsTag::sections', 'elf::ElfSectionIter::next', 'elf::ElfSection::get', 'elf::ElfSection::section_type']),
           ('u_mb2_fb', ['FramebufferTag::buffer_type', 'Reader::new', 'Reader::read_next_u8', 'Reader::read_next_u16', 'Reader::current_ptr',
                         'FramebufferTypeId::try_from', '*Tag::dst_len'])],
        k_quick=[], k_thorough=[],
    ),
    'C06': dict(
        v=[('u_mb2_builder', ['mb::Builder::*', 'EndTag::default', 'BootInformationHeader::new', 'TagHeader::new', 'TagType::from',
                              'seqfold::lemma_*', 'MaybeDynSized::as_bytes', 'BytesRef::vbytes', 'lemma_mb2_layouts',
                              # mechanised composition build -> load -> tags -> walk (lemma over the contracts)
                              'mb::build_load_walk', 'lemma_walk_items', 'lemma_item_offs_len', 'walk_collect',
                              'BootInformation::load', 'BootInformation::tags', 'TagIter::next', 'MaybeDynSized::as_ptr'])],
        k_quick=[], k_thorough=[],
    ),
    'C12': dict(
        v=[('u_hdr_builder', ['hb::Builder::build', 'hb::Builder::new', 'hb::Builder::*_tag', 'EndHeaderTag::new', 'Multiboot2BasicHeader::new',
                              'Multiboot2BasicHeader::set_size',
                              'HeaderTagHeader::new', 'Multiboot2BasicHeader::calc_checksum', 'lemma_spec_checksum', 'seqfold::lemma_*',
                              'MaybeDynSized::as_bytes', 'BytesRef::vbytes', 'lemma_hdr_layouts',
                              # mechanised composition build -> load -> iter -> walk (lemma over the contracts)
                              'hb::build_load_walk', 'lemma_walk_items', 'lemma_item_offs_len', 'walk_collect',
                              'Multiboot2Header::load', 'Multiboot2Header::iter', 'Multiboot2Header::arch', 'TagIter::next', 'MaybeDynSized::as_ptr'])],
        k_quick=[], k_thorough=[],
    ),
    'C14': dict(
        v=[('u_common', ['increase_to_alignment', 'lemma_round8_bv', 'lemma_round8_props', 'BytesRef::try_from',
                         'DynSizedStructure::ref_from_bytes', 'DynSizedStructure::ref_from_slice',
                         'Header::total_size', 'lemma_vslice_wf']),
           # "for each header kind": the four Header implementations (payload_len / total_size / set_size)
           ('u_mb2_core', ['TagHeader::payload_len', 'TagHeader::set_size', 'TagHeader::lemma_hdr_layout',
                           'BootInformationHeader::payload_len', 'BootInformationHeader::total_size', 'BootInformationHeader::set_size',
                           'BootInformationHeader::lemma_hdr_layout', 'Header::total_size']),
           ('u_hdr_core', ['HeaderTagHeader::payload_len', 'HeaderTagHeader::set_size', 'HeaderTagHeader::lemma_hdr_layout',
                           'Multiboot2BasicHeader::payload_len', 'Multiboot2BasicHeader::set_size', 'Multiboot2BasicHeader::lemma_hdr_layout',
                           'Header::total_size'])],
        k_quick=['k_increase_to_alignment_contract', 'k_increase_to_alignment', 'k_bytesref_try_from', 'k_ref_from_slice', 'k_dyn_layout'],
        k_thorough=[],
    ),
}

PROPS['C01']['unsafe_census'] = True
PROPS['C09']['unsafe_census'] = True

# C08 = O1 (overflow freedom of the whole load / walk / decode path: every V obligation of
# the parse-path properties, Verus checks overflow natively) + O2 (bit validity of
# enum-typed fields, generated) + O3 (extracted text independent of features / profile).
PROPS['C08'] = dict(
    v=[('u_mb2_c08', ['MemoryArea::start_address', 'MemoryArea::end_address', 'MemoryArea::size', 'ModuleTag::start_address',
                      'ModuleTag::end_address', 'ModuleTag::module_size']),
       ('u_c08_o2', ['o2_*'])]
      + [e for pid in ('C01', 'C02', 'C03', 'C05', 'C09', 'C10', 'C14', 'C15', 'C18', 'C19') for e in PROPS[pid]['v']],
    k_quick=[], k_thorough=[], o3=True,
)

# ---------------------------------------------------------------------------
# Registry fragments (engine-K harness tables per area): every harness names the
# properties it serves (`props`); `tier` = 'thorough' keeps slow ones out of the
# quick run.
# ---------------------------------------------------------------------------
# slow harnesses run in the thorough tier only: a fixed list plus everything whose
# measured solver time (contracts/kani/timings.json, tools/ktime.py) exceeds QUICK_LIMIT_S
QUICK_LIMIT_S = 75.0
import json as _json, os as _os
_tp = _os.path.join(_os.path.dirname(_os.path.abspath(__file__)), 'kani', 'timings.json')
TIMINGS = _json.load(open(_tp)) if _os.path.exists(_tp) else {}
THOROUGH_ONLY = {h for h, t in TIMINGS.items() if (t.get('solver_s') or 0) > QUICK_LIMIT_S} | {
    'k_builder_inforeq_odd_then_entry',
    'k_vbe_new_control', 'k_vbe_new_mode',
    'k_rsdpv1_signature', 'k_rsdpv2_signature', 'k_rsdpv1_oem_id', 'k_rsdpv2_oem_id',
}


def _merge(fragment_harnesses):
    for name, spec in fragment_harnesses.items():
        spec = dict(spec)
        spec['fn'] = name
        if name in HARNESSES and HARNESSES[name]['crate'] != spec['crate']:
            name = f"{name}@{spec['crate']}"      # same fn name in two crates: keep both
        if name in THOROUGH_ONLY:
            spec['tier'] = 'thorough'
        HARNESSES[name] = spec
        for pid in spec.get('props', []):
            PROPS.setdefault(pid, dict(v=[], k_quick=[], k_thorough=[]))
            key = 'k_thorough' if spec.get('tier') == 'thorough' else 'k_quick'
            if name not in PROPS[pid][key]:
                PROPS[pid][key].append(name)


import importlib
for _frag in ('registry_mb2_sized', 'registry_mb2_dst', 'registry_header', 'registry_extra'):
    try:
        _m = importlib.import_module(_frag)
    except ModuleNotFoundError:
        continue
    _merge(_m.HARNESSES)
FORCE_QUICK = {'k_elf_iter_provided_methods', 'k_efi_mmap_withheld', 'k_get_tag_first_match', 'k_tags_walk', 'k_tagiter_clone_history', 'k_module_iter',
               'k_efi_iter_wellformed', 'k_efi_iter_any', 'k_new_boxed_layout', 'k_mb2hdr_find_header_small'}
_extra_props = {'k_module_iter': ['C03'],
                # the accessor harnesses pin field offsets / widths on the compiled layout: the constructor image is the same struct
                'k_vbe_decode_top': ['C07'], 'k_vbe_decode_control': ['C07'], 'k_vbe_decode_mode': ['C07'],
                'k_console_decode': ['C09'], 'k_relocatable_decode': ['C09'],
                'k_mb2hdr_magic_value': ['C13']}
# constructors of the header crate's DST kind allocate through new_boxed with a 4-aligned header type:
# Kani's dealloc check on Box drop is the C16 "freed with the layout it was allocated with" obligation
for _h in list(HARNESSES):
    if _h.startswith('k_inforeq_new'):
        _extra_props.setdefault(_h, []).append('C16')
# typed getters select by the kinds' ID numbers: the ID / conversion-table harnesses also serve C04 (and C11 in the header crate)
for _h, _spec in list(HARNESSES.items()):
    if 'C20' in _spec.get('props', []) and _spec['crate'] == 'multiboot2':
        _extra_props.setdefault(_h, []).append('C04')
    if 'C20' in _spec.get('props', []) and _spec['crate'] == 'multiboot2-header':
        _extra_props.setdefault(_h, []).append('C11')
# the builder round trip of C12 is observed through the typed getters, which select by each kind's Tag::ID:
# the per-kind decode harnesses of the header crate (they pin ID and field offsets) also serve C12
for _h, _spec in list(HARNESSES.items()):
    if _spec['crate'] == 'multiboot2-header' and _h.endswith('_decode') and 'C11' in _spec.get('props', []):
        _extra_props.setdefault(_h, []).append('C12')
for _h, _extra in _extra_props.items():
    if _h in HARNESSES:
        HARNESSES[_h].setdefault('props', [])
        for _p in _extra:
            if _p not in HARNESSES[_h]['props']:
                HARNESSES[_h]['props'].append(_p)
            if _h not in PROPS[_p]['k_quick'] and _h not in PROPS[_p]['k_thorough']:
                PROPS[_p]['k_quick'].append(_h)

for _pid, _p in PROPS.items():
    for _h in list(_p.get('k_thorough', [])):
        if _h in FORCE_QUICK:
            _p['k_thorough'].remove(_h)
            if _h not in _p['k_quick']:
                _p['k_quick'].append(_h)

FIND_TRUST = 'contracts/verus/find_glue.rs: core::iter::Iterator::find(pred) on TagIter is `call next until pred accepts an item` (TRUSTED statement about the standard library: find = try_fold(check(pred)), default try_fold = while-let over next; the extraction fails with anchor-lost if `impl Iterator for TagIter` defines anything but `next`); the loop itself (tagiter_find) is verified against the contract of the extracted TagIter::next; closures of the getters carry spliced requires/ensures headers (rule Rcl), their bodies are verbatim'
PRELUDE_TRUST = [
    'contracts/verus/prelude.rs: pointer-extent model (assume_specification of <[T]>::as_ptr, <*const T>::{add,sub,cast,align_offset}, NonNull::{new,as_ptr}, cast_const/cast_mut; external_body deref_raw, read_raw, addr_of_ref, slice::from_raw_parts, bytes_from_raw_parts, vslice, vslice_from, mem::size_of_val, controlled_panic)',
    'uninterpreted decode::<T>(bytes): value of a sized object as a function of its bytes (concrete little-endian decodings are checked by engine K on the compiled layout)',
    'rustc type and borrow checking for safe code; layout of repr(C) types as compiled (K) / as declared by `global layout` (V)',
    'machine: x86_64, usize = 64 bit, little endian',
    'Verus 0.2026.09.13 + Z3; Kani 0.68.0 + CBMC 6.11 (CaDiCaL)',
]

EXTRA_TRUST = {
    'C13': ['contracts/verus/hdr_find.rs: core`s `<[u8]>::windows(4)` + `Iterator::position(pred)` is `evaluate pred on S[i..i+4] for i = 0, 1, .. while i + 4 <= S.len(), return the first accepted i` (TRUSTED statement about the standard library; the loop itself, Windows4::position, is verified)',
            'le_u32(x) = u32::from_le_bytes(x.try_into().unwrap()): external_body primitive, requires x.len() == 4 (proved at both call sites: total mode), ensures the little-endian value (checked on compiled code by k_mb2hdr_find_header_small)',
            'vstd specifications of usize::min, <[T]>::get(Range), Option::{map, ok_or, and_then}, usize::checked_add, u32 -> usize try_into, the ? operator',
            'the returned sub-slice is specified by contents and length; its address identity is checked by Kani (bounded) and the native stand-in only'],
    'C04': [FIND_TRUST, 'prelude: assume_specification of Option::map_or_else (None -> default(), Some(x) -> f(x))',
            'mb2_fb.rs: axiom_fb_tag_layout (external_body): layout of the repr(C, align(8)) DST FramebufferTag -- `header` at offset 0 (its value is the decoded header), `buffer` tail at offset 32 with `metadata` elements; used only by framebuffer_tag; checked on the compiled type by the k_fb_* Kani harnesses'],
    'C11': [FIND_TRUST, 'derive(PartialEq) on the field-less enum HeaderTagType is equality of variants (PartialEqSpecImpl written in hdr_core.rs)'],
    'C14': ['DynSizedStructure::{header,payload} field projections are external_body in V (address facts of &self.field); proved on compiled code by k_dyn_layout / k_ref_from_slice',
            'ptr_meta::from_raw_parts = (address, metadata) pair; deref_dst describes size_of_val by MaybeDynSized::layout_size (checked by k_dyn_layout for DynSizedStructure)'],
}


def trusted_base(pid):
    extra = list(EXTRA_TRUST.get(pid, []))
    note = MANIFEST_TEXT.get(pid, {}).get('note')
    if note:
        extra.append('per-property note: ' + note)
    if any(u in ('u_mb2_builder', 'u_hdr_builder') for u, _ in PROPS.get(pid, {}).get('v', [])):
        extra.append('contracts/verus/boxed_spec.rs: ASSUMED contract of multiboot2_common::new_boxed (checked by Kani for bounded inputs under C16) and axiom_safe_ref_wf (references to values held by safe code are aligned and dereferenceable)')
    return PRELUDE_TRUST + extra


ASSUMPTIONS = {
    'C14': ['partial mode: a declared size below the header size is a controlled panic of the guarded Header::payload_len (requires panics_allowed() || declared >= header size)',
            'Stacked/Tree Borrows aliasing not modelled (allocation-level extents)'],
}


def assumptions(pid):
    gen = ['references are identified with their values in the Verus spec logic (address observers are functions of the value): two distinct objects with identical contents are conflated',
           'Stacked/Tree Borrows aliasing not modelled (allocation-level extents)',
           'bounded Kani harnesses are listed under coverage.bounded with their bounds and are not counted as proved']
    return ASSUMPTIONS.get(pid, []) + gen + ['arithmetic overflow is always an obligation (never a controlled panic); Kani checks dev (overflow-checks=on) semantics only']


# ---------------------------------------------------------------------------
# MANIFEST texts
# ---------------------------------------------------------------------------
NOT_APPLICABLE = {}

for _pid, _lvl in (('C13', 'proof'), ('C16', 'other'), ('C17', 'other')):
    PROPS.setdefault(_pid, dict(v=[], k_quick=[], k_thorough=[]))['level'] = _lvl
# C16: new_boxed / clone_dyn are generic over the structure kind; what they produce for a kind is
# determined by that kind's Header::{set_size,payload_len,total_size} and MaybeDynSized::{BASE_SIZE,dst_len}
# implementations.  Those carry Verus contracts (proved for all sizes); new_boxed/clone_dyn themselves
# stay bounded (Kani).
PROPS['C16']['v'] = [('u_mb2_dstlen', ['*Tag::dst_len', '*_BASE_SIZE', 'DynSizedStructure::dst_len', 'MaybeDynSized::payload', 'MaybeDynSized::as_bytes',
                                      'BootInformationHeader::set_size', 'BootInformationHeader::payload_len', 'BootInformationHeader::total_size',
                                      'TagHeader::set_size', 'TagHeader::payload_len', 'Header::total_size']),
                     ('u_hdr_builder', ['*HeaderTag::dst_len', 'INFOREQ_BASE_SIZE', 'DynSizedStructure::dst_len',
                                        'HeaderTagHeader::set_size', 'HeaderTagHeader::payload_len',
                                        'Multiboot2BasicHeader::set_size', 'Multiboot2BasicHeader::payload_len']),
                     # clone clause: clone_dyn proved generically (all kinds, all sizes) from the assumed new_boxed contract
                     ('u_mb2_builder', ['clone_dyn', 'MaybeDynSized::header', 'MaybeDynSized::payload', 'seqfold::lemma_concat_*'])]
# C04: the typed getters select by `typ == T::ID` (TagTypeId::eq / TagType::eq, proved) and the framebuffer
# colour information is decoded by buffer_type + Reader (proved for ALL palette lengths; the Kani harness bounds n <= 4)
PROPS.setdefault('C04', dict(v=[], k_quick=[], k_thorough=[]))
PROPS['C04']['v'] = [('u_mb2_fb', ['FramebufferTypeId::try_from', 'FramebufferTag::buffer_type', 'Reader::*', 'BootInformation::framebuffer_tag', 'BootInformation::get_tag']),
                     ('u_mb2_core', ['TagTypeId::eq', 'TagType::eq']),
                     ('u_mb2_dstlen', ['MemoryMapTag::entry_size', 'MemoryMapTag::entry_version', 'MemoryMapTag::memory_areas',
                                       'SmbiosTag::major', 'SmbiosTag::minor', 'SmbiosTag::tables',
                                       'ModuleTag::start_address', 'ModuleTag::end_address', 'ModuleTag::cmdline',
                                       'CommandLineTag::cmdline', 'BootLoaderNameTag::name',
                                       # first sentence of C04: "each typed getter returns the first tag in walk order whose type
                                       # number matches (and nothing when there is none)"; EFI memory map withholding rule
                                       'BootInformation::get_tag', 'BootInformation::tags', 'BootInformation::command_line_tag',
                                       'BootInformation::boot_loader_name_tag', 'BootInformation::memory_map_tag', 'BootInformation::elf_sections_tag',
                                       'BootInformation::smbios_tag', 'BootInformation::network_tag', 'BootInformation::efi_bs_not_exited_tag',
                                       'BootInformation::efi_memory_map_tag', 'BootInformation::module_tags', 'module_iter', 'ModuleIter::next',
                                       'tagiter_find', 'tagiter_find_owned', 'TagIter::next', 'DynSizedStructure::cast', 'EFIBootServicesNotExitedTag::dst_len',
                                       'TagHeader::payload_len', 'DynSizedStructure::ref_from_slice', 'DynSizedStructure::ref_from_bytes']),
                     # the getters of the eleven fixed-size kinds (hosted in the builder unit, which extracts every fixed-size kind)
                     ('u_mb2_builder', ['BootInformation::get_tag', 'BootInformation::tags', 'BootInformation::basic_memory_info_tag',
                                        'BootInformation::bootdev_tag', 'BootInformation::vbe_info_tag', 'BootInformation::apm_tag',
                                        'BootInformation::efi_sdt32_tag', 'BootInformation::efi_sdt64_tag', 'BootInformation::rsdp_v1_tag',
                                        'BootInformation::rsdp_v2_tag', 'BootInformation::efi_ih32_tag', 'BootInformation::efi_ih64_tag',
                                        'BootInformation::load_base_addr_tag', 'tagiter_find', 'tagiter_find_owned', 'TagIter::next',
                                        'DynSizedStructure::cast'])]
# C07: the byte-slice constructors are proved for ALL content lengths from the (assumed, C16) contract of new_boxed;
# fixed-size constructors: Kani full-domain; string / framebuffer constructors: Kani-bounded + native stand-in
PROPS.setdefault('C07', dict(v=[], k_quick=[], k_thorough=[]))
PROPS['C07']['v'] = [('u_mb2_builder', ['NetworkTag::new', 'SmbiosTag::new', 'ElfSectionsTag::new', 'EFIMemoryMapTag::new_from_map', 'MemoryMapTag::new',
                                        'TagHeader::new', 'TagHeader::set_size', 'TagType::from', 'lemma_mb2_layouts', 'lemma_ctor_layouts']),
                     ('u_hdr_builder', ['InformationRequestHeaderTag::new', 'HeaderTagHeader::new', 'HeaderTagHeader::set_size', 'lemma_hdr_layouts'])]
PROPS['C17']['v'] = [('u_mb2_dstlen', ['CommandLineTag::dst_len', 'BootLoaderNameTag::dst_len', 'ModuleTag::dst_len', 'COMMANDLINETAG_BASE_SIZE', 'BOOTLOADERNAMETAG_BASE_SIZE', 'MODULETAG_BASE_SIZE',
                                       'CommandLineTag::cmdline', 'BootLoaderNameTag::name', 'ModuleTag::cmdline'])]
PROPS.setdefault('C11', dict(v=[], k_quick=[], k_thorough=[]))
PROPS['C11']['v'] = [('u_hdr_core', ['Multiboot2Header::iter', 'Multiboot2Header::verify_checksum', 'Multiboot2Header::header_magic',
                                     'Multiboot2Header::arch', 'Multiboot2Header::length', 'Multiboot2Header::checksum', 'Multiboot2Header::calc_checksum',
                                     'Multiboot2BasicHeader::arch', 'TagIter::new', 'TagIter::next', 'walk_collect', 'HeaderTagHeader::payload_len',
                                     'Multiboot2BasicHeader::length', 'Multiboot2BasicHeader::header_magic', 'Multiboot2BasicHeader::checksum']),
                     # "each typed getter returns the first tag in walk order whose type matches, and nothing when there is none"
                     ('u_hdr_builder', ['Multiboot2Header::get_tag', 'Multiboot2Header::iter', 'Multiboot2Header::information_request_tag',
                                        'Multiboot2Header::address_tag', 'Multiboot2Header::entry_address_tag', 'Multiboot2Header::entry_address_efi32_tag',
                                        'Multiboot2Header::entry_address_efi64_tag', 'Multiboot2Header::console_flags_tag', 'Multiboot2Header::framebuffer_tag',
                                        'Multiboot2Header::module_align_tag', 'Multiboot2Header::efi_boot_services_tag', 'Multiboot2Header::relocatable_tag',
                                        'HeaderTagHeader::typ', 'tagiter_find', 'tagiter_find_owned', 'TagIter::next', 'DynSizedStructure::cast',
                                        '*HeaderTag::dst_len', 'HeaderTagHeader::payload_len', 'DynSizedStructure::ref_from_slice', 'DynSizedStructure::ref_from_bytes'])]
PROPS['C13']['v'] = [('u_hdr_core', ['Multiboot2Header::find_header', 'Windows4::position', 'vwindows', 'lemma_magic_at_plain'])]
PROPS['C13']['explanation'] = 'Proof: Verus verifies the real find_header in TOTAL mode (no panic site may be reachable) for ALL buffer lengths and contents against the statement: misaligned buffer -> WrongAlignment; `no header` iff the little-endian magic does not occur in the first min(len, 8192) bytes; with i the first occurrence: an error when i is not a multiple of 8, when the length word lies outside the buffer, or when i + stored length exceeds the buffer, otherwise i together with a sub-slice whose contents are exactly buffer[i .. i + stored length]. Three pieces of the body are outside this Verus and are replaced by logged rewrites (contracts/verus/hdr_find.rs): `windows(4)` / `position` -> a glue struct whose `position` is a VERIFIED loop over the windows (that core`s windows(4).position(p) is this loop is trusted), `u32::from_le_bytes(x.try_into().unwrap())` -> the trusted primitive le_u32 whose precondition `x.len() == 4` is the no-panic condition of the unwrap and is proved at both call sites, closures get annotated headers with verbatim bodies; min / get(range) / map / ok_or / ? / try_into / checked_add / and_then are verified against vstd`s specifications. Cross-checks on compiled code (bounded, labelled): Kani explores the real function on every buffer length 0..=48 and every content against the same oracle INCLUDING the address identity of the returned sub-slice (which the Verus contract does not state: vstd specifies slice::get by contents only), and a native stand-in runs it on 1464 cases around the 8192-byte window limit.'
PROPS['C16']['explanation'] = 'Clone clause: proof -- Verus verifies the verbatim clone_dyn generically for every structure kind and ALL sizes (same header, same padded size, same bytes up to the declared size) from the contract of new_boxed and the proved contracts of header() / payload() / payload_len; the per-kind set_size / dst_len / BASE_SIZE implementations are proved too. Construction clause: bounded contract check -- Kani verifies new_boxed on the compiled code for 0..=3 content slices of 0..=5 symbolic bytes each (header size field = 8 + total, header || content without gaps, size_of_val = total rounded up to 8, 8-aligned allocation, Kani`s allocator model checks that Box drop deallocates with the allocation`s layout) and clone_dyn for every declared size 8..=17 (every padding residue): same declared size, same bytes. This contract is what C06/C07/C12 assume in Verus.'
PROPS['C17']['explanation'] = 'Extent ("never looks past the declared size") follows from the proved dst_len contracts of C05 (Verus, all sizes). String semantics are core-library loops outside Verus: Kani checks parse_slice_as_string for EVERY byte string of length 0..=6 (all 256 values per position) against an independent UTF-8 validator and first-NUL oracle, and the three string-tag constructors / parsers for bounded lengths (every padding residue, NUL in padding or next tag => MissingNul).'

MANIFEST_TEXT = {
    'C11': dict(
        text='Proof on compiled code: for each of the 11 header-tag kinds and the basic header a loop-free Kani harness over ALL bytes of the tag (type / flags / size constrained to valid specification values) proves every accessor equal to the little-endian value at the specified offset; the tag walk from offset 16 in steps of size rounded up to 8 is proved generically in Verus (TagIter::next contract + walk_collect, instantiated for HeaderTagHeader through the Header trait contract) and Multiboot2Header::iter is proved to pass exactly [16, length). First-match selection is proved in Verus for ALL regions: get_tag and the ten typed getters are verified verbatim against `the typed view of the first tag of the C03 walk whose type number is <the specification`s literal>, None iff the walk has no such tag` (Iterator::find is rewritten to tagiter_find, a loop over the verified TagIter::next: rule Rfind); bounded Kani harnesses (regions of 32/40/48 bytes) and a native stand-in re-check it on compiled code. Information-request lists: bounded harnesses (n <= 4) plus native stand-in.',
        note='Enumerated fields restricted to defined values (statement precondition). TRUSTED for the getter proof: core`s Iterator::find = `call next until the predicate accepts` for an iterator that overrides neither find nor try_fold (TagIter is extracted with `onlyfns next`); derive(PartialEq) on HeaderTagType is variant equality.',
    ),
    'C13': dict(
        text=PROPS['C13']['explanation'],
        note='Level: proof (Verus, all lengths, total) of everything in the statement except the address identity of the returned sub-slice, which is bounded (Kani, buffers <= 48 bytes; native stand-in around the window limit). Trusted: the windows/position glue equivalence, le_u32 (little-endian decoding; checked by Kani on compiled code), vstd`s std specifications, ALIGNMENT resolves to multiboot2_common::ALIGNMENT (a shadowing constant in header.rs is seen by Kani / the stand-in only).',
        technique='contract-based deductive verification (Verus, unbounded, total mode) of the real function with logged rewrites of iterator adapters; bounded Kani contract check and native stand-in as cross-checks on compiled code',
    ),
    'C16': dict(
        text=PROPS['C16']['explanation'],
        note='Level: new_boxed itself is a bounded contract check, not a proof: iterator adapters (.iter().map().sum()) and raw allocation are outside this Verus (clone_dyn and the per-kind Header / MaybeDynSized implementations ARE proved, relative to the new_boxed contract; hypotheses of the clone proof: derived Clone on the header type, set_size with the header`s own size is the identity -- for the basic multiboot2 header only with a valid checksum); "freed exactly once" is ownership (rustc), "same layout" is Kani`s dealloc check.',
        technique='bounded contract check with Kani on the real functions; contract reused as an assumed dependency by the Verus builder units',
    ),
    'C17': dict(
        text=PROPS['C17']['explanation'],
        note='Level: proof for the extent / size law part (via C05 units), bounded for CStr / UTF-8 semantics (core library loops).',
        technique='Verus contracts for the extent; bounded Kani contract checks for string semantics',
    ),
    'C01': dict(
        text='Proof by encapsulation: every function of the boot-information parse path that contains `unsafe` (ref_from_bytes/slice/ptr, cast, MaybeDynSized::{header,payload,as_bytes,as_ptr}, TagIter::next, BootInformation::load/has_valid_end_tag/tags, EFIMemoryAreaIter::{new,next}, EFIMemoryMapTag::memory_areas, ElfSectionsTag::sections, ElfSectionIter::next, ElfSection::get, FramebufferTag::buffer_type + Reader) is verified by Verus on its verbatim body for all inputs: each raw-pointer primitive carries an in-allocation + alignment precondition, each handed-out reference/slice is proved to lie inside the tag it was derived from, panic sites are only reachable where the contract allows a controlled panic, loops have decreases measures. Memory safety of every sequence of safe calls then follows from the Rust type system. Kani proves the per-kind decoders, RSDP checksum extents and layout facts on the compiled code.',
        note='Trusted: pointer-extent prelude; allocation-level provenance (Stacked/Tree Borrows not modelled); references are identified with their values in the spec logic (two distinct objects with equal contents are conflated); field-projection layout facts (efi_tag_wf / elf_tag_wf / fb_tag_wf, DynSizedStructure::{header,payload}) are assumed in V and checked by Kani where Kani can compile the type (not ElfSectionsTag: Kani ICE). Debug formatters are safe compositions of these functions (not run under a verifier). ELF section names read an external address (excluded by the statement). Known finding: VBEModeInfo.memory_model enum-typed field.',
    ),
    'C04': dict(
        text='Proof on compiled code: for every fixed-size tag kind a loop-free Kani harness over ALL bytes of the tag (type/size words fixed to the specification values) obtains the typed view through the real ref_from_slice + cast and proves every accessor equal to the little-endian value at the specified offset and width (including all VBE control/mode fields over 784 symbolic bytes, MemoryArea entries, RSDP fields and checksum validity); the framebuffer type byte classification is proved for all 256 values in V and K. First-match selection is proved in Verus for ALL regions: get_tag, the typed getters of the dynamically sized kinds, efi_bs_not_exited_tag, efi_memory_map_tag (withheld iff a type-18 tag is in the walk) and ModuleIter::next are verified verbatim against `the typed view of the first tag of the C03 walk whose type number is <the specification`s literal>, None iff there is none` (Iterator::find is rewritten to tagiter_find, a loop over the verified TagIter::next: rule Rfind). The getters of the eleven fixed-size kinds are proved the same way (builder unit). framebuffer_tag is proved too (first type-8 tag; unknown type byte -> an error carrying that byte, known -> that very tag) from the proved get_tag and buffer_type plus ONE trusted layout statement for the repr(C) DST FramebufferTag (axiom_fb_tag_layout: header field at offset 0, tail at offset 32; checked on the compiled type by the k_fb_* harnesses). Not under a Verus contract: the deprecated elf_sections(). The variable-length decoders and all getters are re-checked by bounded Kani harnesses and native stand-ins (labelled).',
        note='Oracle = Multiboot2 specification offsets written independently in the harnesses. Kani checks dev-profile semantics; invalid enum reads are not visible to Kani (see C08 O2). TRUSTED for the getter proof: core`s Iterator::find = `call next until the predicate accepts` for an iterator that overrides neither find nor try_fold (TagIter / ModuleIter are extracted with `onlyfns next`); Option::map_or_else specification (prelude).',
    ),
    'C05': dict(
        text='Proof: Verus verifies the verbatim dst_len of all 9 dynamically sized boot-information tag kinds, of DynSizedStructure and of InformationRequestHeaderTag against per-kind contracts whose fixed offset and element size are literals from the specification: on normal return size >= fixed part, (size - fixed) % element == 0 and the count is (size - fixed) / element; the BASE_SIZE constants are proved equal to the specified fixed offsets. That the exposed slice starts at the fixed offset of the compiled layout is checked by bounded Kani harnesses per kind.',
        note='Trusted: rustc places the DST tail at the declared fixed offset (checked by Kani harnesses except for ElfSectionsTag, Kani ICE).',
    ),
    'C06': dict(
        text='Proof: Verus verifies the verbatim multiboot2::Builder: each of the 22 setters against a full-frame postcondition (named slot = supplied tag, every other field unchanged; repeatable kinds appended in call order; add_custom_tag rejects non-custom types), and build() against: 8-aligned result, declared total size = exact byte length, payload = concatenation of the byte images of exactly the supplied tags in the documented order (loop invariants for modules / SMBIOS / custom tags), followed by an end tag (type 0, size 8) as the final 8 bytes. A dropped, duplicated or reordered push fails a named step assertion. The composition is mechanised too: the glue function build_load_walk CALLS the verified build(), BootInformation::load(), tags() and (through walk_collect) TagIter::next, and Verus proves from their contracts alone that the built structure loads and that the real iterator visits exactly the supplied tag images, in the documented order, each byte-identical at its offset, then the end tag, ending exactly at the end of the structure (lemma_walk_items: the C03 spec walk over a concatenation of tag images = the prefix sums of their lengths). Kani cannot compile this type (ICE on ElfSectionsTag), so the only cross-check on compiled code is the bounded native stand-in n_builder_roundtrip.',
        note='Assumes the contract of new_boxed (C16, checked by Kani for bounded inputs) and that references to tags held by the builder are well-formed (type-system guarantee, axiom_safe_ref_wf); VBEInfoTag is an opaque stub; the composition lemma takes as hypothesis that every supplied tag image is a tag (declared size >= 8, image length = size rounded up to 8: the postcondition of the constructors, C07, and of the typed views, C15).',
    ),
    'C07': dict(
        text='Proof on compiled code: for every fixed-size tag constructor of both crates a loop-free Kani harness with ALL arguments symbolic proves type == specified number == Tag::ID, size == specified unpadded size, bytes [0,size) == specified little-endian encoding, accessors read the arguments back, alignment 8 and as_bytes() usable in arrays. Variable-length constructors whose content is a byte slice (NetworkTag::new, SmbiosTag::new, ElfSectionsTag::new, EFIMemoryMapTag::new_from_map) or a byte copy of an argument array (MemoryMapTag::new, InformationRequestHeaderTag::new) are proved in Verus for ALL content lengths on their verbatim bodies (type number, size = exact unpadded byte count, bytes = specification encoding) from the assumed C16 contract of new_boxed; the string constructors, new_from_descs and FramebufferTag::new are bounded (Kani, every padding residue) plus bounded native stand-ins with large contents, labelled.',
        note='Oracle = specification table written independently in the harnesses. DST constructors rely on new_boxed (C16). Preconditions of the Verus constructor contracts: the tag size fits the u32 size field (8 + content <= u32::MAX); x.to_ne_bytes() is little-endian (target assumption; rewritten to the trusted primitive ne_bytes_u32); palettes of more than 65535 colours are rejected (fix 0da96be).',
    ),
    'C08': dict(
        text='Sufficient condition, each part a machine-checked obligation on the real code: O1 overflow freedom of the whole load / walk / decode path (all Verus obligations of C01-C05, C09, C10, C14, C15, C18, C19 include native overflow checks; plus arithmetic accessors verbatim in total mode); O2 bit validity: for every enum-typed field of every repr(C) struct the generated lemma `every bit pattern is a variant` (a failing lemma = reading such bytes is undefined behaviour, where optimised builds diverge); O3 the extracted parse-path text contains no cfg(feature) / debug_assert, so the same text runs in all four builds. Violations recorded as known findings: two unchecked arithmetic accessors and six enum-typed fields.',
        note='This is a sufficient condition, not a relational proof of the four compilations: neither verifier models release (wrapping) arithmetic. Kani checks dev semantics only.',
    ),
    'C09': dict(
        text='Proof by encapsulation as C01 for the header crate: Multiboot2Header::load (total), iter, HeaderTagHeader / Multiboot2BasicHeader payload_len, and the generic multiboot2-common units instantiated through the Header trait contract, verified by Verus for all lengths, tag sizes and contents.',
        note='Enumerated fields are assumed to hold defined values (the statement`s precondition); see C08 O2 for what happens otherwise. Typed getters: proved under C11 (tagiter_find glue), plus bounded Kani harnesses.',
    ),
    'C10': dict(
        text='Proof: Verus verifies the verbatim Multiboot2Header::load in TOTAL mode for all header words with the statement`s exact acceptance condition and error precedence, and calc_checksum for ALL magic / both architectures / ALL lengths: the result satisfies the congruence and is the unique such value; verify_checksum is equivalent to the congruence.',
        note='Trusted: pointer-extent prelude; decode::<Multiboot2BasicHeader> relates bytes to fields (little-endian decoding checked by Kani accessors harness).',
    ),
    'C12': dict(
        text='Proof: Verus verifies the verbatim multiboot2_header::Builder: 10 setters with full-frame postconditions, new(), and build() against: 8-aligned, magic 0xE85250D6, chosen architecture, length = byte length, checksum congruence, payload = byte images of exactly the supplied tags in order, terminated by an end tag (type 0, flags 0, size 8) as the final 8 bytes - for all subsets, orders (frames), architectures and contents. The composition is mechanised: build_load_walk CALLS the verified build(), Multiboot2Header::load(), arch(), iter() and (through walk_collect) TagIter::next, and Verus proves from their contracts alone that the built header loads (magic, length, checksum accepted), reports the chosen architecture, and that the real iterator visits exactly the supplied tag images in order, byte-identical, then the end tag. Kani re-checks concrete subsets with symbolic field values on compiled code (bounded).',
        note='Assumes the contract of new_boxed (C16) and axiom_safe_ref_wf (type-system guarantee); the composition lemma takes as hypothesis that every supplied tag image is a tag (declared size >= 8, image length = size rounded up to 8: C07 / C15 postconditions).',
    ),
    'C15': dict(
        text='Proof: Verus verifies DynSizedStructure::cast ONCE, generically for every T satisfying the MaybeDynSized trait contract (layout_size = the size rustc gives a value with that metadata): on normal return same address, same provenance, size_of_val equal to the tag`s own size rounded up to 8, metadata = dst_len(header). The 11 in-repo dst_len implementations are verified against the trait contract.',
        note='A user type "truthfully declares" its layout iff its layout_size is the Rust size for the metadata: this is the trait-level assumption (checked by Kani for the in-repo kinds).',
    ),
    'C18': dict(
        text='Proof: Verus verifies the verbatim EFIMemoryMapTag::memory_areas, EFIMemoryAreaIter::{new,next,len}: normal return implies version 1, descriptor size >= 40 and % 8 == 0, map length divisible; next yields the descriptor at map offset i*d, 8-aligned, 40 bytes inside the map; len() == entries - i; for all strides, counts and lengths.',
        note='uefi-raw MemoryDescriptor is a 40-byte stand-in in V (size/alignment only); field decoding checked by Kani.',
    ),
    'C19': dict(
        text='Proof: Verus verifies ElfSectionsTag::sections (rejects entry count / entry size / string-table index reaching outside the tag, no u32 overflow), ElfSectionIter::next with a loop invariant and decreases measure (entries in order, each entry_size bytes inside the tag, only in-use types yielded), ElfSection::get (40 -> ELF32, 64 -> ELF64, else controlled panic), section_type against the documented value ranges.',
        note='Kani cannot compile ElfSectionsTag (ICE): sections() has no compiled-code cross-check; iterator and entry decoding are checked by Kani on directly constructed iterators where available. Section names dereference an external address (excluded).',
    ),
    'C02': dict(
        text='Proof: Verus verifies the verbatim body of BootInformation::load in TOTAL mode (no panic site may be reachable: it does not assume panics_allowed()) for all header words and all declared sizes, against the postcondition transcribed from the statement: null -> Memory(Null); size < 8 -> ShorterThanHeader; size % 8 != 0 -> MissingPadding; last 8 bytes not (type 0, size 8) -> NoEndTag; otherwise Ok with start address = pointer, size = declared size. Callees (ref_from_ptr, ref_from_slice, BytesRef::try_from, ref_from_bytes, payload_len, has_valid_end_tag) are used through their own verified contracts.',
        note='Trusted: pointer-extent prelude; the end-tag bytes are related to (type,size) through the uninterpreted decode::<TagHeader> (little-endian decoding of TagHeader is checked by Kani in C04/C03 harnesses); the caller`s unsafe promise (8-aligned header followed by the declared bytes) is the precondition.',
    ),
    'C03': dict(
        text='Proof: Verus verifies the verbatim TagIter::next against the step contract (item at buffer+offset, header = stored header, in-memory size = size rounded up to 8, next offset = offset + round8(size) <= len, exhausted stays exhausted, controlled panic otherwise) for all buffers, generically in the header type; walk_collect proves by a loop invariant with a decreases measure that iterating the real next() yields exactly spec_walk (first tag at payload offset 0 = region offset 8, steps of size rounded up to 8, to the end) and terminates; BootInformation::tags passes exactly the region minus its 8-byte header.',
        note='Trusted: pointer-extent prelude; derive(Clone) of TagIter (state-only struct: results are a function of (offset, buffer), so clones/fresh iterators repeat). ModuleIter (Iterator::find) is outside Verus`s subset: covered by a bounded Kani harness when present.',
    ),
    'C20': dict(
        text='Proof: (K) loop-free Kani harnesses over full-domain symbolic u32 values prove on the compiled code that u32 -> TagType -> u32 is the identity, numbers 0..=21 map to the specified variants and everything else to Custom, conversions through TagTypeId commute, and all six PartialEq impls agree with numeric equality; MAGIC constants equal the specified values. (V) the verbatim From impls are verified against an independent specification table with lemmas over all u32.',
        note='Trusted: rustc derive(PartialEq) on TagType; transmute of the repr(transparent) TagTypeId is covered by K only.',
    ),
    'C14': dict(
        text='Proof: Verus verifies, for all slice lengths, alignments and declared sizes and generically in the header type H, the verbatim bodies of BytesRef::try_from, DynSizedStructure::ref_from_bytes / ref_from_slice and increase_to_alignment against postconditions transcribed from the statement (acceptance condition, error precedence, same address, size_of_val = declared size rounded up to 8 <= slice length, rounding is the least multiple of 8). Kani proves the increase_to_alignment contract on compiled code for all usize, and checks the same statements on the compiled layout for slices <= 32..40 bytes (bounded, not counted).',
        note='Trusted: the pointer-extent prelude (contracts/verus/prelude.rs), field-projection layout of DynSizedStructure (checked by Kani k_dyn_layout), rustc type system. Header equality with the slice bytes is via the uninterpreted decode::<H>; concrete little-endian decoding is checked by Kani (bounded slice length).',
    ),
}
