"""Harnesses that failed on the original tree and pass after the `fix:` commits,
plus harnesses kept as known findings."""
MB2 = dict(crate='multiboot2', features=None)
HARNESSES = {
    'k_apm_new_size': dict(MB2, file='apm.rs', kind='full', bound='all 9 constructor arguments symbolic; loop-free, complete',
        functions=['ApmTag::new'], props=['C07']),
    'k_bootdev_new_size': dict(MB2, file='bootdev.rs', kind='full', bound='all 3 constructor arguments symbolic; loop-free, complete',
        functions=['BootdevTag::new'], props=['C07']),
    'k_rsdpv2_checksum_extent': dict(MB2, file='rsdp.rs', kind='bounded', bound='all 48 tag bytes symbolic, stored RSDP length 0..=96 (unwind 100)',
        functions=['RsdpV2Tag::checksum_is_valid'], props=['C01']),
    'k_rsdpv2_checksum_any_length': dict(MB2, file='rsdp.rs', kind='bounded', bound='all 48 tag bytes symbolic, stored RSDP length 0..=96 (unwind 100)',
        functions=['RsdpV2Tag::checksum_is_valid'], props=['C04', 'C01']),
    # known findings (fail on the reference tree; see known_findings.json)
    'k_vbe_decode_mode_any_model': dict(MB2, file='vbe_info.rs', kind='full', known_failing=True, bound='all 784 tag bytes symbolic incl. every memory-model byte; loop-free',
        functions=['VBEInfoTag::mode_info', 'VBEModeInfo.memory_model'], props=['C01', 'C08']),
    'k_memarea_end_address_total': dict(MB2, file='memory_map.rs', kind='full', known_failing=True, bound='all 24 entry bytes symbolic; loop-free',
        functions=['MemoryArea::end_address'], props=['C08']),
}

BI = dict(crate='multiboot2', features=None, file='boot_information.rs')
HARNESSES.update({
    'k_load_accepts_exactly': dict(BI, kind='bounded', bound='64-byte region, every content, every declared total size 0..=64 (larger sizes need a larger readable region)',
        functions=['BootInformation::load', 'has_valid_end_tag', 'start_address', 'end_address', 'total_size', 'as_ptr', 'ref_from_ptr'], props=['C02', 'C01']),
    'k_load_null': dict(BI, kind='full', bound='null pointer', functions=['BootInformation::load'], props=['C02']),
    'k_tags_walk': dict(BI, kind='bounded', bound='48-byte region, every content, every tag size; controlled panics accepted',
        functions=['BootInformation::tags', 'TagIter::next', 'DynSizedStructure::header', 'DynSizedStructure::payload'], props=['C03', 'C01'], allow=['assert', 'panic']),
    'k_get_tag_first_match': dict(BI, kind='bounded', bound='56-byte region with three tags of symbolic type and symbolic contents',
        functions=['BootInformation::get_tag', 'load_base_addr_tag', 'efi_sdt32_tag', 'DynSizedStructure::cast'], props=['C04']),
    'k_efi_mmap_withheld': dict(BI, kind='bounded', bound='48-byte region, two tags in both orders',
        functions=['BootInformation::efi_memory_map_tag', 'efi_bs_not_exited_tag'], props=['C04']),
})

HARNESSES.update({
    # failed on the tree before fix 30191e1 (NetworkTag::dst_len underflow); now only the code's own assert fires
    'k_network_dst_len_any': dict(MB2, file='network.rs', kind='full', bound='every u32 size; loop-free, complete', functions=['NetworkTag::dst_len'],
        props=['C05', 'C08'], allow=['assert', 'panic']),
    # known finding (C08): ModuleTag::module_size overflow
    'k_module_size_any_range': dict(MB2, file='module.rs', kind='bounded', known_failing=True, bound='all bytes of a 24-byte module tag',
        functions=['ModuleTag::module_size'], props=['C08']),
})

HARNESSES.update({
    'k_tagiter_clone_history': dict(crate='multiboot2-common', features=None, file='iter.rs', kind='bounded',
        bound='40-byte buffer tiled by three tags of symbolic size and content; clone after 0..=4 steps; 5 further steps',
        functions=['TagIter::new', 'TagIter::next', 'TagIter::clone'], props=['C03']),
})

ELF = dict(crate='multiboot2', features=None, file='elf_sections.rs')
HARNESSES.update({
    'k_elf32_entry_decode': dict(ELF, kind='full', bound='all 40 entry bytes symbolic; loop-free, complete',
        functions=['ElfSection::get', 'section_type', 'section_type_raw', 'flags', 'start_address', 'size', 'addralign', 'end_address', 'is_allocated'], props=['C19', 'C20', 'C01']),
    'k_elf64_entry_decode': dict(ELF, kind='full', bound='all 64 entry bytes symbolic; loop-free, complete',
        functions=['ElfSection::get', 'section_type', 'section_type_raw', 'flags', 'start_address', 'size', 'addralign', 'is_allocated'], props=['C19', 'C20', 'C01']),
    'k_elf_entry_size_rejected': dict(ELF, kind='full', bound='every u32 entry size; loop-free', functions=['ElfSection::get'], props=['C19'], allow=['assert', 'panic']),
    'k_elf_iter_order_64': dict(ELF, kind='bounded', bound='three 64-byte entries, all bytes symbolic', functions=['ElfSectionIter::next'], props=['C19', 'C01']),
    'k_elf_iter_order_32': dict(ELF, kind='bounded', bound='three 40-byte entries, all bytes symbolic', functions=['ElfSectionIter::next', 'ElfSection::addralign'], props=['C19', 'C01']),
})

HARNESSES.update({
    'k_builder_inforeq_odd_then_entry': dict(crate='multiboot2-header', features=None, file='builder.rs', kind='bounded',
        bound='information request with one symbolic request (padding residue 4) + entry tag, both architectures',
        functions=['Builder::build', 'InformationRequestHeaderTag::new', 'Multiboot2Header::load', 'iter'], props=['C12']),
})

HARNESSES.update({
    'k_smbios_clone_dyn': dict(MB2, file='smbios.rs', kind='bounded', bound='SMBIOS tables of 0..=9 symbolic bytes (every padding residue)',
        functions=['clone_dyn', 'new_boxed', 'SmbiosTag::new'], props=['C16']),
})

HARNESSES.update({
    'k_tagiter_provided_methods': dict(crate='multiboot2-common', features=None, file='iter.rs', kind='bounded',
        bound='40-byte buffer tiled by three tags of symbolic size; nth(0..=3), skip, count, last',
        functions=['TagIter (Iterator provided methods vs next)'], props=['C03']),
})

HARNESSES.update({
    'k_efi_iter_provided_methods': dict(MB2, file='memory_map.rs', kind='bounded', bound='descriptor size 40, 0..=3 descriptors, nth(0..=4), count, skip, last',
        functions=['EFIMemoryAreaIter (Iterator provided methods vs next)'], props=['C18', 'C01', 'C05']),
})

HDR = dict(crate='multiboot2-header', features=None)
HARNESSES.update({
    'k_efi_iter_len_wide_stride': dict(MB2, file='memory_map.rs', kind='bounded', bound='descriptor size 48 or 56, 0..=6 descriptors; len() and addresses only',
        functions=['EFIMemoryAreaIter::len', 'next'], props=['C18']),
    'k_elf_iter_provided_methods': dict(ELF, kind='bounded', bound='three 64-byte entries, all bytes symbolic; nth(0..=3), count, skip, last',
        functions=['ElfSectionIter (Iterator provided methods vs next)'], props=['C19']),
    'k_builder_inforeq_twice': dict(HDR, file='builder.rs', kind='bounded', bound='two information-request tags with symbolic requests set one after the other, both architectures',
        functions=['Builder::information_request_tag', 'Builder::build'], props=['C12']),
    'k_mb2hdr_get_after_inner_end': dict(HDR, file='header.rs', kind='bounded', bound='48-byte header [End][EntryAddress][End], symbolic field values',
        functions=['Multiboot2Header::get_tag', 'entry_address_tag', 'address_tag'], props=['C11']),
})
