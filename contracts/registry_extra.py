"""Harnesses that failed on the original tree and pass after the `fix:` commits,
plus harnesses kept as known findings."""
MB2 = dict(crate='multiboot2', features=None)
HARNESSES = {
    'k_apm_new_size': dict(MB2, file='apm.rs', kind='full', bound='all 9 constructor arguments symbolic; loop-free, complete',
        functions=['ApmTag::new'], props=['C07']),
    'k_bootdev_new_size': dict(MB2, file='bootdev.rs', kind='full', bound='all 3 constructor arguments symbolic; loop-free, complete',
        functions=['BootdevTag::new'], props=['C07']),
    'k_rsdpv2_checksum_extent': dict(MB2, file='rsdp.rs', kind='bounded', bound='all 48 tag bytes symbolic, stored RSDP length 0..=96 (unwind 100)',
        functions=['RsdpV2Tag::checksum_is_valid'], props=['C01']),
    'k_rsdpv2_checksum_any_length': dict(MB2, file='rsdp.rs', kind='bounded', bound='all 48 tag bytes symbolic, stored RSDP length 0..=96 (unwind 100)',
        functions=['RsdpV2Tag::checksum_is_valid'], props=['C04', 'C01']),
    # known findings (fail on the reference tree; see known_findings.json)
    'k_vbe_decode_mode_any_model': dict(MB2, file='vbe_info.rs', kind='full', bound='all 784 tag bytes symbolic incl. every memory-model byte; loop-free',
        functions=['VBEInfoTag::mode_info', 'VBEModeInfo.memory_model'], props=['C01', 'C08']),
    'k_memarea_end_address_total': dict(MB2, file='memory_map.rs', kind='full', bound='all 24 entry bytes symbolic; loop-free',
        functions=['MemoryArea::end_address'], props=['C08']),
}
