# Registry fragment: engine K harnesses for the multiboot2-header crate.
# Harness files: contracts/kani/multiboot2-header/<source file name>.rs
#
# HARNESSES  = pass on the current tree (/repo as of 2026-10-02 ~23:50, i.e.
#              including the fix: commits for calc_checksum, load size guard,
#              payload_len asserts, find_header, EndHeaderTag, Builder end tag)
# FAILING    = fail on the current tree
# FAILED_ON_ORIGINAL = informational: harnesses (all in HARNESSES now) that
#              FAILED on the original text (commit 47686d4), with the concrete
#              input Kani produced (--playback) and the failing check.

C = 'multiboot2-header'


def _h(file, kind, bound, functions, props, allow=None):
    d = dict(crate=C, features=None, file=file, kind=kind, bound=bound, functions=functions, props=props)
    if allow:
        d['allow'] = allow
    return d


HARNESSES = {}

# ---------------------------------------------------------------- tags.rs
HARNESSES.update({
    'k_hdr_isa_values': _h('tags.rs', 'full', 'constants', ['HeaderTagISA'], ['C20']),
    'k_hdr_tag_type_values': _h('tags.rs', 'full', 'constants', ['HeaderTagType', 'HeaderTagType::count'], ['C20']),
    'k_hdr_tag_flag_values': _h('tags.rs', 'full', 'constants', ['HeaderTagFlag'], ['C20']),
    'k_hdrtag_ref_from_slice_4mod8': _h('tags.rs', 'full', 'all 24 bytes symbolic; slice at address 4 mod 8 (header type with natural alignment 4)',
                                       ['BytesRef::try_from', 'DynSizedStructure::ref_from_slice'], ['C14', 'C09']),
    'k_hdr_tag_header_decode': _h('tags.rs', 'full', 'all 8 header bytes, type <= 10, flags <= 1',
                                  ['HeaderTagHeader::typ', 'HeaderTagHeader::flags', 'HeaderTagHeader::size'], ['C11']),
    'k_hdr_tag_header_new': _h('tags.rs', 'full', 'all 11 types x 2 flags x all u32 size', ['HeaderTagHeader::new'], ['C07']),
    'k_hdr_tag_header_payload_len_wellformed': _h('tags.rs', 'full', 'all u32 size >= 8',
                                                  ['HeaderTagHeader::payload_len', 'HeaderTagHeader::set_size', 'Header::total_size'], ['C09']),
    # all u32 sizes; size < 8 must end in the code's own assert (controlled panic)
    'k_hdr_tag_header_payload_len_all': _h('tags.rs', 'full', 'all u32 size', ['HeaderTagHeader::payload_len'], ['C09'],
                                           allow=['assert', 'panic']),
})

# ---------------------------------------------------------------- sized tag kinds
_SIZED = [
    # file, prefix, struct, accessors
    ('address.rs', 'address', 'AddressHeaderTag', ['header_addr', 'load_addr', 'load_end_addr', 'bss_end_addr']),
    ('console.rs', 'console', 'ConsoleHeaderTag', ['console_flags']),
    ('entry_address.rs', 'entry_address', 'EntryAddressHeaderTag', ['entry_addr']),
    ('entry_efi_32.rs', 'entry_efi32', 'EntryEfi32HeaderTag', ['entry_addr']),
    ('entry_efi_64.rs', 'entry_efi64', 'EntryEfi64HeaderTag', ['entry_addr']),
    ('framebuffer.rs', 'framebuffer', 'FramebufferHeaderTag', ['width', 'height', 'depth']),
    ('module_align.rs', 'module_align', 'ModuleAlignHeaderTag', []),
    ('uefi_bs.rs', 'efi_bs', 'EfiBootServiceHeaderTag', []),
    ('relocatable.rs', 'relocatable', 'RelocatableHeaderTag', ['min_addr', 'max_addr', 'align', 'preference']),
]
for _f, _p, _T, _acc in _SIZED:
    _accs = ['%s::%s' % (_T, a) for a in ['typ', 'flags', 'size'] + _acc]
    HARNESSES['k_%s_decode' % _p] = _h(_f, 'full', 'all tag bytes (round8(size) of them); type/size = spec, flags <= 1, enumerated fields defined',
                                       _accs + ['DynSizedStructure::ref_from_slice', 'DynSizedStructure::cast'], ['C11'])
    HARNESSES['k_%s_new' % _p] = _h(_f, 'full', 'all argument values (flags in {Required, Optional})',
                                    ['%s::new' % _T, 'MaybeDynSized::as_bytes'] + _accs, ['C07'])
    HARNESSES['k_%s_placement' % _p] = _h(_f, 'full', 'all argument values; tag in element 1 of [T; 2] and at offset 8 of an 8-aligned struct',
                                          ['%s::new' % _T, 'MaybeDynSized::as_bytes'], ['C07'])

# ---------------------------------------------------------------- end.rs
HARNESSES.update({
    'k_end_decode': _h('end.rs', 'full', 'all 8 bytes; type 0, size 8, flags <= 1',
                       ['EndHeaderTag::typ', 'EndHeaderTag::flags', 'EndHeaderTag::size', 'DynSizedStructure::cast'], ['C11']),
    'k_end_new_type': _h('end.rs', 'full', 'no inputs', ['EndHeaderTag::new'], ['C07']),
    'k_end_default_type': _h('end.rs', 'full', 'no inputs', ['EndHeaderTag::default'], ['C07']),
    'k_end_new_image': _h('end.rs', 'full', 'no inputs', ['EndHeaderTag::new', 'MaybeDynSized::as_bytes'], ['C07']),
    'k_end_new_flags_size': _h('end.rs', 'full', 'no inputs', ['EndHeaderTag::new', 'EndHeaderTag::default', 'MaybeDynSized::as_bytes'], ['C07']),
    'k_end_align': _h('end.rs', 'full', 'no inputs', ['EndHeaderTag'], ['C07']),
    'k_end_placement_array': _h('end.rs', 'full', 'element 1 of [EndHeaderTag; 2]', ['MaybeDynSized::as_bytes'], ['C07']),
    'k_end_placement': _h('end.rs', 'full', 'tag behind a u32 in an 8-aligned struct', ['MaybeDynSized::as_bytes'], ['C07']),
})

# ---------------------------------------------------------------- information_request.rs
HARNESSES.update({
    'k_inforeq_decode': _h('information_request.rs', 'bounded', 'sizes 8,12,16,20,24 (n = 0..=4), all bytes incl. padding',
                           ['InformationRequestHeaderTag::requests', 'InformationRequestHeaderTag::dst_len', 'DynSizedStructure::cast'],
                           ['C11', 'C05', 'C09']),
    # every size 8..=24: a remainder must end in the code's own assert_eq! (dst_len)
    'k_inforeq_decode_remainder_rejected': _h('information_request.rs', 'bounded', 'all sizes 8..=24 (every residue mod 4), all bytes',
                                              ['InformationRequestHeaderTag::dst_len', 'DynSizedStructure::cast'], ['C05', 'C09'],
                                              allow=['assert', 'panic']),
    # sizes 0..=7: error or the code's own assert (HeaderTagHeader::payload_len)
    'k_inforeq_decode_undersize_rejected': _h('information_request.rs', 'full', 'all sizes 0..=7, all 8 bytes',
                                              ['DynSizedStructure::ref_from_slice', 'HeaderTagHeader::payload_len'], ['C05', 'C09'],
                                              allow=['assert', 'panic']),
})
for _n in range(5):
    HARNESSES['k_inforeq_new_%d' % _n] = _h('information_request.rs', 'bounded', 'n = %d requests, all u32 values, both flags (unwind 6)' % _n,
                                            ['InformationRequestHeaderTag::new', 'new_boxed', 'InformationRequestHeaderTag::requests'], ['C07', 'C05'])

# ---------------------------------------------------------------- header.rs
HARNESSES.update({
    'k_mb2hdr_magic_value': _h('header.rs', 'full', 'constants', ['MAGIC'], ['C20']),
    # also C08: on compiled dev-profile code an un-wrapped sum in the checksum arithmetic is an overflow failure for
    # lengths >= 2^32 - MAGIC, i.e. exactly the inputs where dev and release builds diverge (seed w9-C08-m1)
    'k_mb2hdr_checksum_law_all': _h('header.rs', 'full', 'all u32 magic x {I386, MIPS32} x all u32 length',
                                    ['Multiboot2BasicHeader::calc_checksum'], ['C10', 'C08']),
    'k_mb2hdr_checksum_law_real_magic_all_lengths': _h('header.rs', 'full', 'magic 0xE85250D6 x both archs x all u32 length',
                                                       ['Multiboot2BasicHeader::calc_checksum'], ['C10']),
    'k_mb2hdr_checksum_law_no_wrap': _h('header.rs', 'full', 'all inputs with magic + arch + length <= 2^32',
                                        ['Multiboot2BasicHeader::calc_checksum', 'Multiboot2Header::calc_checksum'], ['C10']),
    'k_mb2hdr_verify_checksum_iff': _h('header.rs', 'full', 'all four words with magic + arch + length <= 2^32',
                                       ['Multiboot2BasicHeader::verify_checksum'], ['C10']),
    'k_mb2hdr_verify_checksum_iff_all': _h('header.rs', 'full', 'all four header words (arch in {0,4})',
                                           ['Multiboot2BasicHeader::verify_checksum'], ['C10', 'C08']),
    'k_mb2hdr_basic_new': _h('header.rs', 'full', 'both archs, lengths with no u64 wrap', ['Multiboot2BasicHeader::new'], ['C10', 'C07']),
    'k_mb2hdr_basic_new_all_lengths': _h('header.rs', 'full', 'both archs x all u32 length', ['Multiboot2BasicHeader::new'], ['C10']),
    'k_mb2hdr_set_size': _h('header.rs', 'full', 'both archs, all sizes with no u64 wrap',
                            ['Multiboot2BasicHeader::set_size', 'Multiboot2BasicHeader::payload_len'], ['C10', 'C12']),
    'k_mb2hdr_basic_accessors': _h('header.rs', 'full', 'all 16 header bytes, arch in {0,4}',
                                   ['Multiboot2BasicHeader::header_magic', 'Multiboot2BasicHeader::arch', 'Multiboot2BasicHeader::length',
                                    'Multiboot2BasicHeader::checksum'], ['C11']),
    'k_mb2hdr_load_null': _h('header.rs', 'full', 'null pointer', ['Multiboot2Header::load'], ['C10']),
    'k_mb2hdr_load': _h('header.rs', 'bounded', 'all 64 region bytes, arch in {0,4}, 16 <= length <= 64',
                        ['Multiboot2Header::load', 'Multiboot2Header::header_magic', 'Multiboot2Header::arch', 'Multiboot2Header::length',
                         'Multiboot2Header::checksum', 'Multiboot2Header::verify_checksum'], ['C10', 'C11', 'C09']),
    'k_mb2hdr_load_short': _h('header.rs', 'full', 'all header bytes with length 0..=15, arch in {0,4}', ['Multiboot2Header::load'], ['C10', 'C09']),
    'k_mb2hdr_iter_tag_size_beyond_region': _h('header.rs', 'bounded', '32-byte valid header, first tag: any type/flags, ANY size >= 8',
                                               ['Multiboot2Header::iter', 'TagIter::next'], ['C09'], allow=['assert', 'panic']),
    'k_mb2hdr_iter_tag_size_below_header': _h('header.rs', 'bounded', '32-byte valid header, first tag: any type/flags, size 0..=7',
                                              ['Multiboot2Header::iter', 'TagIter::next', 'HeaderTagHeader::payload_len'], ['C09'],
                                              allow=['assert', 'panic']),
    'k_mb2hdr_find_header_small': _h('header.rs', 'bounded', 'every buffer length 0..=48, all contents (unwind 50)',
                                     ['Multiboot2Header::find_header'], ['C13']),
})
for _n in (32, 40, 48):
    HARNESSES['k_mb2hdr_iter_%d' % _n] = _h('header.rs', 'bounded',
                                            'region = header of exactly %d bytes, all well-formed tag sequences (all 11 types, valid sizes), all other bytes' % _n,
                                            ['Multiboot2Header::load', 'Multiboot2Header::iter', 'TagIter::next'], ['C11', 'C09'])
for _g, _fn in [('inforeq', 'information_request_tag'), ('address', 'address_tag'), ('entry', 'entry_address_tag'),
                ('console', 'console_flags_tag'), ('framebuffer', 'framebuffer_tag'), ('module_align', 'module_align_tag'),
                ('efi_bs', 'efi_boot_services_tag'), ('efi32', 'entry_address_efi32_tag'), ('efi64', 'entry_address_efi64_tag'),
                ('relocatable', 'relocatable_tag')]:
    for _n in (40, 48):
        HARNESSES['k_mb2hdr_get_%s_%d' % (_g, _n)] = _h(
            'header.rs', 'bounded',
            'region = header of exactly %d bytes; tag types symbolic among {wanted, one other kind}, valid symbolic sizes, all other bytes' % _n,
            ['Multiboot2Header::%s' % _fn, 'Multiboot2Header::get_tag', 'Multiboot2Header::iter', 'DynSizedStructure::cast'], ['C11', 'C09'])

# ---------------------------------------------------------------- builder.rs
_B = 'one concrete subset of setters; both archs, all u32 field values symbolic; enumerated fields (tag flags, console flags, preference) concrete'
for _name, _fns in [
    ('none', []), ('address', ['Builder::address_tag']), ('entry', ['Builder::entry_tag']), ('console', ['Builder::console_tag']),
    ('framebuffer', ['Builder::framebuffer_tag']), ('module_align', ['Builder::module_align_tag']), ('efi_bs', ['Builder::efi_bs_tag']),
    ('efi32', ['Builder::efi_32_tag']), ('efi64', ['Builder::efi_64_tag']), ('relocatable', ['Builder::relocatable_tag']),
    ('inforeq', ['Builder::information_request_tag']),
    ('entry_console_modalign', ['Builder::entry_tag', 'Builder::console_tag', 'Builder::module_align_tag']),
    ('address_twice_efi64', ['Builder::address_tag', 'Builder::efi_64_tag']),
]:
    HARNESSES['k_builder_%s' % _name] = _h('builder.rs', 'bounded', _B, ['Builder::new', 'Builder::build', 'new_boxed', 'Multiboot2Header::load'] + _fns, ['C12'])
for _name in ['none', 'address', 'entry_console_modalign']:
    HARNESSES['k_builder_%s_end_tag' % _name] = _h('builder.rs', 'bounded', _B + '; terminator', ['Builder::build', 'EndHeaderTag::new', 'Multiboot2Header::iter'], ['C12'])

# final run on the current tree (2026-10-03 00:00-00:40): nothing fails (harnesses with allow= show only the code's own asserts)
FAILING = []

# Failed on the ORIGINAL text (commit 47686d4); all of these pass on the current tree.
FAILED_ON_ORIGINAL = [
    ('k_mb2hdr_checksum_law_all',
     'overflow "attempt to subtract with overflow" header.rs:288 calc_checksum (u64 0x100000000 - magic - arch - length). '
     'Input: magic=0xFFFFFFFF, arch=I386, length=0xFFFFFFFE.'),
    ('k_mb2hdr_checksum_law_real_magic_all_lengths',
     'same overflow with the real magic. Input: magic=0xE85250D6, arch=MIPS32, length=0xFFFFFFFF (any length > 0x17ADAF2A - arch).'),
    ('k_mb2hdr_verify_checksum_iff_all',
     'same overflow through verify_checksum. Input: magic=0xFFFFFFFD, arch=I386, length=0xFFFFFFFE, checksum=0xFFFFFFFF.'),
    ('k_mb2hdr_basic_new_all_lengths',
     'same overflow through Multiboot2BasicHeader::new. Input: arch=MIPS32, length=0xFFFFFFFF.'),
    ('k_mb2hdr_load_short',
     'overflow "attempt to subtract with overflow" header.rs:318 Multiboot2BasicHeader::payload_len (length - 16) instead of '
     'Err(Memory(ShorterThanHeader)). Input: header bytes FF FF FF FF | 00 00 00 00 | 0F 00 00 00 | F2 FF FF FF (length = 15, arch 0).'),
    ('k_hdr_tag_header_payload_len_all',
     'overflow "attempt to subtract with overflow" tags.rs:112 HeaderTagHeader::payload_len (size - 8, not a controlled panic). Input: size = 7.'),
    ('k_inforeq_decode_undersize_rejected',
     'same overflow reached through DynSizedStructure::ref_from_slice. Input: tag bytes 01 00 01 00 00 00 00 00 (type 1, flags 1, size 0).'),
    ('k_mb2hdr_iter_tag_size_below_header',
     'same overflow reached through Multiboot2Header::iter().next(). Input: valid 32-byte header D6 50 52 E8 | 00 00 00 00 | 20 00 00 00 | 0A AF AD 17, '
     'first tag 0A 00 00 00 | 01 00 00 00 (type 10, size 1).'),
    ('k_mb2hdr_find_header_small',
     'panic core::slice::index::slice_index_fail (buffer[0..8192]) for every buffer shorter than 8192 bytes. Simplest input: the empty buffer; '
     'Kani\'s input: 47 bytes D6 50 52 E8 repeated.'),
    ('k_end_new_type', 'assert tag.typ() as u16 == 0: EndHeaderTag::new() wrote HeaderTagType::EntryAddress (3). No inputs.'),
    ('k_end_default_type', 'assert tag.typ() == EndHeaderTag::ID: default() = new() => type 3 != ID (End). No inputs.'),
    ('k_end_new_image', 'as_bytes()[..8] = 03 00 00 00 08 00 00 00 instead of the spec image 00 00 00 00 08 00 00 00. No inputs.'),
    ('k_end_align', 'align_of::<EndHeaderTag>() == 4 (plain #[repr(C)]), spec/all other tags: 8. No inputs.'),
    ('k_end_placement',
     'panic core::result::unwrap_failed in MaybeDynSized::as_bytes (BytesRef::try_from -> Err(WrongAlignment)) for an EndHeaderTag stored at '
     'offset 4 of an 8-aligned struct { u32, EndHeaderTag }. No inputs.'),
    ('k_builder_none_end_tag',
     'check_end_tag: built.len() == 16, no terminator (build() pushed no end tag). Input: any arch.'),
]
