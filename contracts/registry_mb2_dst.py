"""Registry fragment: engine-K harnesses for the DYNAMICALLY SIZED tag kinds of crate
`multiboot2` (command_line, boot_loader_name, module, smbios, network, framebuffer,
dst section of memory_map), the string helper (util.rs) and the heap constructor
(multiboot2-common/boxed.rs).  HARNESSES lists only harnesses that pass on the
current tree (pattern-(b) harnesses pass *modulo* `allow`: the only failed checks
are the code's own controlled panics); FAILING lists harnesses that fail (findings).
"""

MB2 = dict(crate='multiboot2', features=None)
COMMON = dict(crate='multiboot2-common', features=None)
CP = ['assert', 'panic']  # controlled panics accepted for pattern-(b) harnesses
REGION = 'all region bytes symbolic (content, padding and the neighbouring tag)'

HARNESSES = {}


def _add(name, base, file, kind, bound, functions, props, allow=None):
    d = dict(base, file=file, kind=kind, bound=bound, functions=functions, props=props)
    if allow:
        d['allow'] = allow
    HARNESSES[name] = d


# ---- util.rs (C17)
for _n in range(7):
    _add(f'k_parse_string_len{_n}', MB2, 'util.rs', 'bounded',
         f'every byte string of exact length {_n}, all 256 byte values per position; full UTF-8 oracle (Unicode table 3-7); '
         'the seven harnesses together: all strings of length 0..=6',
         ['parse_slice_as_string'], ['C17'])

# ---- command_line.rs / boot_loader_name.rs
for _p, _file, _ty, _acc in (('k_cmdline', 'command_line.rs', 'CommandLineTag', 'cmdline'),
                             ('k_blname', 'boot_loader_name.rs', 'BootLoaderNameTag', 'name')):
    _add(f'{_p}_extent', MB2, _file, 'bounded', 'declared size 8..=24 in a 32-byte region, ' + REGION,
         ['DynSizedStructure::ref_from_slice', 'DynSizedStructure::cast', f'{_ty}::dst_len'], ['C05', 'C01'])
    _add(f'{_p}_size_any', MB2, _file, 'bounded', 'declared size ANY u32, 24-byte region, ' + REGION,
         ['DynSizedStructure::ref_from_slice', 'TagHeader::payload_len', 'DynSizedStructure::cast', f'{_ty}::dst_len'], ['C05', 'C01'], CP)
    for _s in (11, 13):
        _add(f'{_p}_parse_size{_s}', MB2, _file, 'bounded',
             f'declared size {_s} ({_s - 8} string bytes + padding + neighbour), 24-byte region, ' + REGION + ', all byte values; full UTF-8 oracle',
             [f'{_ty}::{_acc}', 'parse_slice_as_string'], ['C17', 'C04', 'C05'])
    for _x in ('a', 'b'):
        _add(f'{_p}_padding_nul_not_counted_{_x}', MB2, _file, 'bounded',
             'declared size ' + ('11' if _x == 'a' else '13') + ', concrete non-NUL string part, padding and neighbouring tag symbolic (all byte values), 24-byte region',
             [f'{_ty}::{_acc}', 'parse_slice_as_string'], ['C05', 'C17', 'C01'])
    _add(f'{_p}_new', MB2, _file, 'bounded', 'ASCII text (0x00..=0x7f, NUL allowed anywhere) of symbolic length 0..=9',
         [f'{_ty}::new', 'new_boxed', 'MaybeDynSized::as_bytes'], ['C07', 'C17'])
    for _l in (0, 3, 4):
        _add(f'{_p}_new_readback_len{_l}', MB2, _file, 'bounded', f'ASCII text (0x00..=0x7f, NUL allowed anywhere) of exact length {_l}',
             [f'{_ty}::new', f'{_ty}::{_acc}'], ['C17', 'C07'])

# ---- module.rs
_add('k_module_extent', MB2, 'module.rs', 'bounded', 'declared size 16..=32 in a 40-byte region, ' + REGION,
     ['DynSizedStructure::cast', 'ModuleTag::dst_len', 'ModuleTag::start_address', 'ModuleTag::end_address', 'ModuleTag::module_size (end >= start)'],
     ['C04', 'C05', 'C01'])
_add('k_module_size_any', MB2, 'module.rs', 'bounded', 'declared size ANY u32, 24-byte region, ' + REGION,
     ['DynSizedStructure::ref_from_slice', 'DynSizedStructure::cast', 'ModuleTag::dst_len'], ['C05', 'C01'], CP)
_add('k_module_parse_size19', MB2, 'module.rs', 'bounded', 'declared size 19 (3 string bytes + padding + neighbour), 32-byte region, ' + REGION + '; full UTF-8 oracle',
     ['ModuleTag::cmdline', 'parse_slice_as_string'], ['C17', 'C04', 'C05'])
for _x in ('a', 'b'):
    _add(f'k_module_padding_nul_not_counted_{_x}', MB2, 'module.rs', 'bounded',
         'declared size ' + ('19' if _x == 'a' else '21') + ', concrete non-NUL string part, padding and neighbouring tag symbolic (all byte values), 32-byte region',
         ['ModuleTag::cmdline', 'parse_slice_as_string'], ['C05', 'C17', 'C01'])
_add('k_module_new', MB2, 'module.rs', 'bounded', 'all (start, end) with end > start; ASCII text (NUL allowed) of symbolic length 0..=9',
     ['ModuleTag::new', 'new_boxed', 'MaybeDynSized::as_bytes', 'ModuleTag accessors'], ['C07', 'C17'])
_add('k_module_new_rejects_empty_range', MB2, 'module.rs', 'full', 'all (start, end) u32 pairs, fixed one-byte text',
     ['ModuleTag::new'], ['C07'], CP)
_add('k_module_new_readback_len3', MB2, 'module.rs', 'bounded', 'ASCII text (NUL allowed anywhere) of exact length 3, fixed (start, end)',
     ['ModuleTag::new', 'ModuleTag::cmdline'], ['C17', 'C07'])
_add('k_module_iter', MB2, 'module.rs', 'bounded',
     '48-byte tag area with three tags at offsets 0/24/40 (sizes 17..=24 symbolic, 16, 8), any type numbers for the first two, all other bytes symbolic',
     ['module_iter', 'ModuleIter::next', 'TagIter::next', 'DynSizedStructure::cast'], ['C04', 'C01'])

# ---- smbios.rs
_add('k_smbios_extent', MB2, 'smbios.rs', 'bounded', 'declared size 16..=32 in a 40-byte region, ' + REGION,
     ['DynSizedStructure::cast', 'SmbiosTag::dst_len', 'SmbiosTag::major', 'SmbiosTag::minor', 'SmbiosTag::tables'], ['C04', 'C05', 'C01'])
_add('k_smbios_size_any', MB2, 'smbios.rs', 'bounded', 'declared size ANY u32, 24-byte region, ' + REGION,
     ['DynSizedStructure::ref_from_slice', 'DynSizedStructure::cast', 'SmbiosTag::dst_len'], ['C05', 'C01'], CP)
_add('k_smbios_new', MB2, 'smbios.rs', 'bounded', 'all (major, minor); tables of symbolic length 0..=9, all byte values',
     ['SmbiosTag::new', 'new_boxed', 'MaybeDynSized::as_bytes', 'SmbiosTag accessors'], ['C07'])

# ---- network.rs
_add('k_network_extent', MB2, 'network.rs', 'bounded', 'declared size 8..=24 in a 32-byte region, ' + REGION,
     ['DynSizedStructure::cast', 'NetworkTag::dst_len'], ['C05', 'C04', 'C01'])
_add('k_network_size_any', MB2, 'network.rs', 'bounded', 'declared size ANY u32, 24-byte region, ' + REGION,
     ['DynSizedStructure::ref_from_slice', 'TagHeader::payload_len', 'DynSizedStructure::cast', 'NetworkTag::dst_len'], ['C05', 'C01'], CP)
_add('k_network_new', MB2, 'network.rs', 'bounded', 'DHCP data of symbolic length 0..=9, all byte values',
     ['NetworkTag::new', 'new_boxed', 'MaybeDynSized::as_bytes'], ['C07'])

# ---- framebuffer.rs
FB = 'framebuffer.rs'
_add('k_fb_decode_extent', MB2, FB, 'bounded', 'declared size 32..=48 in a 56-byte region, type byte 0..=2, ' + REGION,
     ['DynSizedStructure::cast', 'FramebufferTag::dst_len', 'FramebufferTag::{address,pitch,width,height,bpp}'], ['C04', 'C05', 'C01'])
_add('k_fb_size_any', MB2, FB, 'bounded', 'declared size ANY u32, 40-byte region, type byte 0..=2, ' + REGION,
     ['DynSizedStructure::ref_from_slice', 'DynSizedStructure::cast', 'FramebufferTag::dst_len'], ['C05', 'C01'], CP)
_add('k_fb_type_all_bytes', MB2, FB, 'full',
     'tag of size 40, all 256 type bytes, all other bytes symbolic (palette count <= 2); source-level semantics only: Kani cannot see the '
     'invalid-enum-value UB of the enum-typed field (no valid-value checks)',
     ['FramebufferTag::buffer_type', 'FramebufferTypeId::try_from'], ['C04'])
_add('k_fb_indexed_wellformed', MB2, FB, 'bounded', 'declared size 34..=48, stored palette count n with 34+3n <= size (n <= 4), ' + REGION,
     ['FramebufferTag::buffer_type', 'Reader'], ['C04', 'C05', 'C01'])
_add('k_fb_indexed_palette_inside_tag', MB2, FB, 'bounded', 'declared size 32..=48, stored palette count ANY u16, ' + REGION,
     ['FramebufferTag::buffer_type', 'Reader'], ['C01', 'C05'], CP)
_add('k_fb_rgb_decode', MB2, FB, 'bounded', 'declared size 38..=48, ' + REGION, ['FramebufferTag::buffer_type', 'Reader'], ['C04'])
_add('k_fb_rgb_size_any', MB2, FB, 'bounded', 'declared size 32..=48, ' + REGION, ['FramebufferTag::buffer_type', 'Reader'], ['C05', 'C01'], CP)
_add('k_fb_text', MB2, FB, 'bounded', 'declared size 32..=48, ' + REGION, ['FramebufferTag::buffer_type'], ['C04'])
_add('k_fb_new_text', MB2, FB, 'full', 'all argument values', ['FramebufferTag::new', 'FramebufferType::serialize', 'new_boxed', 'accessors'], ['C07'])
_add('k_fb_new_rgb', MB2, FB, 'full', 'all argument values incl. the six RGB field bytes',
     ['FramebufferTag::new', 'FramebufferType::serialize', 'new_boxed', 'FramebufferTag::buffer_type'], ['C07'])
_add('k_fb_new_indexed', MB2, FB, 'bounded', 'all scalar arguments; palette of symbolic length 0..=3 with symbolic colours',
     ['FramebufferTag::new', 'FramebufferType::serialize', 'new_boxed', 'FramebufferTag::buffer_type'], ['C07'])
_add('k_fb_bootinfo_getter', MB2, FB, 'bounded',
     '56-byte boot information {header, framebuffer tag of size 40, end tag}; all 256 type bytes, all other tag bytes symbolic (palette count <= 2); '
     'same tool limit as k_fb_type_all_bytes',
     ['BootInformation::load', 'BootInformation::framebuffer_tag', 'BootInformation::get_tag', 'TagIter::next'], ['C04', 'C01'])

# ---- memory_map.rs (dst section)
MM = 'memory_map.rs'
_add('k_mmap_extent', MB2, MM, 'bounded', 'declared size 16/40/64 (0..=2 entries) in a 72-byte region, entry_size 24, ' + REGION,
     ['DynSizedStructure::cast', 'MemoryMapTag::dst_len', 'MemoryMapTag::memory_areas', 'MemoryMapTag::entry_size', 'MemoryMapTag::entry_version',
      'MemoryArea::{start_address,size,typ}'], ['C04', 'C05', 'C01'])
_add('k_mmap_size_any', MB2, MM, 'bounded', 'declared size ANY u32, 48-byte region, ' + REGION,
     ['DynSizedStructure::ref_from_slice', 'DynSizedStructure::cast', 'MemoryMapTag::dst_len'], ['C05', 'C01'], CP)
_add('k_mmap_entry_size_checked', MB2, MM, 'full', 'tag of size 40, stored entry_size ANY u32, all bytes symbolic',
     ['MemoryMapTag::memory_areas'], ['C05', 'C01'], CP)
_add('k_mmap_new', MB2, MM, 'bounded', '0..=2 areas (symbolic count) with symbolic base/length/type',
     ['MemoryMapTag::new', 'new_boxed', 'MaybeDynSized::as_bytes', 'MemoryMapTag::memory_areas'], ['C07'])
_add('k_efimmap_extent', MB2, MM, 'bounded', 'declared size 16..=40 in a 48-byte region, ' + REGION,
     ['DynSizedStructure::cast', 'EFIMemoryMapTag::dst_len'], ['C05', 'C04', 'C01'])
_add('k_efimmap_size_any', MB2, MM, 'bounded', 'declared size ANY u32, 24-byte region, ' + REGION,
     ['DynSizedStructure::ref_from_slice', 'DynSizedStructure::cast', 'EFIMemoryMapTag::dst_len'], ['C05', 'C01'], CP)
_add('k_efimmap_new_from_map', MB2, MM, 'bounded', 'all (desc_size != 0, desc_version); map bytes of symbolic length 0..=9',
     ['EFIMemoryMapTag::new_from_map', 'new_boxed', 'MaybeDynSized::as_bytes'], ['C07'])
_add('k_efimmap_new_rejects_zero_desc_size', MB2, MM, 'full', 'all (desc_size, desc_version), empty map',
     ['EFIMemoryMapTag::new_from_map'], ['C07'], CP)
_add('k_efimmap_new_from_descs', MB2, MM, 'bounded', '0..=2 descriptors (symbolic count) with symbolic fields',
     ['EFIMemoryMapTag::new_from_descs', 'EFIMemoryMapTag::memory_areas', 'EFIMemoryAreaIter::{new,next,len}'], ['C07', 'C18'])
_add('k_efi_iter_wellformed', MB2, MM, 'bounded',
     'version 1, desc_size d in {40,48,56,64}, map length L = k*d <= 128 (k <= 3), 152-byte region, ' + REGION,
     ['EFIMemoryMapTag::memory_areas', 'EFIMemoryAreaIter::new', 'EFIMemoryAreaIter::next', 'EFIMemoryAreaIter::len'], ['C18', 'C04', 'C01'])
_add('k_efi_iter_any', MB2, MM, 'bounded',
     'ANY version (u32), ANY desc_size (u32), declared size 16..=144 (map length 0..=128), 152-byte region, ' + REGION,
     ['EFIMemoryMapTag::memory_areas', 'EFIMemoryAreaIter::new', 'EFIMemoryAreaIter::next', 'EFIMemoryAreaIter::len'], ['C18', 'C01', 'C05'], CP)

# ---- multiboot2-common/boxed.rs (C16)
_add('k_new_boxed_layout', COMMON, 'boxed.rs', 'bounded',
     '0..=3 content slices (symbolic count), each of symbolic length 0..=5 with symbolic bytes (total 0..=15), any header type / stale size value',
     ['new_boxed', 'Header::set_size', 'MaybeDynSized::as_bytes', 'Box drop (dealloc layout)'], ['C16'])
_add('k_clone_dyn_identity', COMMON, 'boxed.rs', 'bounded',
     'original = typed view of a 24-byte region, declared size 8..=17 (content 0..=9), all region bytes symbolic (padding carries markers)',
     ['clone_dyn', 'new_boxed', 'MaybeDynSized::payload'], ['C16'])
_add('k_clone_dyn_of_boxed', COMMON, 'boxed.rs', 'bounded', 'original built by new_boxed from content of symbolic length 0..=9',
     ['clone_dyn', 'new_boxed'], ['C16'])

# Harnesses that FAIL on the current tree (kept unweakened; each is a finding).
FAILING = [
    ('k_module_size_any_range',
     'C01/C04 (module.rs): ModuleTag::module_size computes mod_end - mod_start unchecked: "attempt to subtract with overflow" '
     '(module.rs:71; panic in debug, silent wrap in release) for a stored range with mod_end < mod_start, Kani counterexample (--playback): tag bytes '
     '03 00 00 00 | 11 00 00 00 | ff ff ff ff | ff ff ff 7f | ff.. (mod_start = 0xffffffff, mod_end = 0x7fffffff; any mod_end < mod_start works).  Arithmetic overflow is not a controlled panic.  '
     'The Debug impl of ModuleTag calls module_size() as well.'),
    ('k_network_dst_len_any',
     'C05 (network.rs): NetworkTag::dst_len computes header.size - 8 WITHOUT the `assert!(size >= BASE_SIZE)` every other DST kind has: '
     '"attempt to subtract with overflow" (network.rs:35) for a header with size < 8 (Kani counterexample: size = 7).  Not reachable through '
     'ref_from_slice / TagIter (TagHeader::payload_len asserts size >= 8 first; see k_network_size_any, which passes), only when dst_len is '
     'called directly on a header (it is a public trait fn) -- defence-in-depth gap, in release the wrapped value would become slice metadata.'),
]
