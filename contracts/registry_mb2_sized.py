"""Registry fragment: engine-K harnesses for the FIXED-SIZE tag kinds of crate
`multiboot2` (apm, bootdev, efi, image_load_addr, end, rsdp, vbe_info and the sized
section of memory_map).  HARNESSES lists only harnesses that pass on the current
tree; FAILING lists harnesses that fail on the current tree (findings).
"""

MB2 = dict(crate='multiboot2', features=None)
FULL = 'loop-free over fixed-size symbolic data, complete'


def _decode(n):
    return f'all {n} tag bytes symbolic, type/size words fixed to the spec values; ' + FULL


HARNESSES = {
    # ---- apm.rs
    'k_apm_id': dict(MB2, file='apm.rs', kind='full', bound='constant', functions=['ApmTag::ID'], props=['C20']),
    'k_apm_decode': dict(MB2, file='apm.rs', kind='full', bound=_decode(32),
        functions=['DynSizedStructure::ref_from_slice', 'DynSizedStructure::cast', 'ApmTag::version', 'ApmTag::cseg', 'ApmTag::offset',
                   'ApmTag::cset_16', 'ApmTag::dseg', 'ApmTag::flags', 'ApmTag::cseg_len', 'ApmTag::cseg_16_len', 'ApmTag::dseg_len'],
        props=['C04', 'C01']),
    'k_apm_new_image': dict(MB2, file='apm.rs', kind='full', bound='all 9 constructor arguments symbolic; everything except the size field; ' + FULL,
        functions=['ApmTag::new', 'MaybeDynSized::as_bytes', 'MaybeDynSized::header'], props=['C07']),
    # ---- bootdev.rs
    'k_bootdev_id': dict(MB2, file='bootdev.rs', kind='full', bound='constant', functions=['BootdevTag::ID'], props=['C20']),
    'k_bootdev_decode': dict(MB2, file='bootdev.rs', kind='full', bound=_decode(24),
        functions=['DynSizedStructure::ref_from_slice', 'DynSizedStructure::cast', 'BootdevTag::biosdev', 'BootdevTag::slice', 'BootdevTag::part'],
        props=['C04', 'C01']),
    'k_bootdev_new_image': dict(MB2, file='bootdev.rs', kind='full', bound='all 3 constructor arguments symbolic; everything except the size field; ' + FULL,
        functions=['BootdevTag::new', 'MaybeDynSized::as_bytes', 'MaybeDynSized::header'], props=['C07']),
    # ---- efi.rs
    'k_efi_ids': dict(MB2, file='efi.rs', kind='full', bound='constant',
        functions=['EFISdt32Tag::ID', 'EFISdt64Tag::ID', 'EFIImageHandle32Tag::ID', 'EFIImageHandle64Tag::ID', 'EFIBootServicesNotExitedTag::ID'], props=['C20']),
    'k_efi_sdt32_decode': dict(MB2, file='efi.rs', kind='full', bound=_decode(16), functions=['DynSizedStructure::cast', 'EFISdt32Tag::sdt_address'], props=['C04', 'C01']),
    'k_efi_sdt64_decode': dict(MB2, file='efi.rs', kind='full', bound=_decode(16), functions=['DynSizedStructure::cast', 'EFISdt64Tag::sdt_address'], props=['C04', 'C01']),
    'k_efi_ih32_decode': dict(MB2, file='efi.rs', kind='full', bound=_decode(16), functions=['DynSizedStructure::cast', 'EFIImageHandle32Tag::image_handle'], props=['C04', 'C01']),
    'k_efi_ih64_decode': dict(MB2, file='efi.rs', kind='full', bound=_decode(16), functions=['DynSizedStructure::cast', 'EFIImageHandle64Tag::image_handle'], props=['C04', 'C01']),
    'k_efi_bs_decode': dict(MB2, file='efi.rs', kind='full', bound=_decode(8), functions=['DynSizedStructure::cast', 'MaybeDynSized::payload'], props=['C04', 'C01']),
    'k_efi_sdt32_new_image': dict(MB2, file='efi.rs', kind='full', bound='symbolic u32 pointer; ' + FULL, functions=['EFISdt32Tag::new', 'MaybeDynSized::as_bytes'], props=['C07']),
    'k_efi_sdt64_new_image': dict(MB2, file='efi.rs', kind='full', bound='symbolic u64 pointer; ' + FULL, functions=['EFISdt64Tag::new', 'MaybeDynSized::as_bytes'], props=['C07']),
    'k_efi_ih32_new_image': dict(MB2, file='efi.rs', kind='full', bound='symbolic u32 pointer; ' + FULL, functions=['EFIImageHandle32Tag::new', 'MaybeDynSized::as_bytes'], props=['C07']),
    'k_efi_ih64_new_image': dict(MB2, file='efi.rs', kind='full', bound='symbolic u64 pointer; ' + FULL, functions=['EFIImageHandle64Tag::new', 'MaybeDynSized::as_bytes'], props=['C07']),
    'k_efi_bs_new_image': dict(MB2, file='efi.rs', kind='full', bound='no arguments (new and default); ' + FULL,
        functions=['EFIBootServicesNotExitedTag::new', 'EFIBootServicesNotExitedTag::default', 'MaybeDynSized::as_bytes'], props=['C07']),
    # ---- image_load_addr.rs
    'k_loadaddr_id': dict(MB2, file='image_load_addr.rs', kind='full', bound='constant', functions=['ImageLoadPhysAddrTag::ID'], props=['C20']),
    'k_loadaddr_decode': dict(MB2, file='image_load_addr.rs', kind='full', bound=_decode(16),
        functions=['DynSizedStructure::cast', 'ImageLoadPhysAddrTag::load_base_addr'], props=['C04', 'C01']),
    'k_loadaddr_new_image': dict(MB2, file='image_load_addr.rs', kind='full', bound='symbolic u32 address; ' + FULL,
        functions=['ImageLoadPhysAddrTag::new', 'MaybeDynSized::as_bytes'], props=['C07']),
    # ---- end.rs
    'k_end_id': dict(MB2, file='end.rs', kind='full', bound='constant', functions=['EndTag::ID'], props=['C20']),
    'k_end_decode': dict(MB2, file='end.rs', kind='full', bound=_decode(8), functions=['DynSizedStructure::cast', 'MaybeDynSized::payload'], props=['C04', 'C01']),
    'k_end_default_image': dict(MB2, file='end.rs', kind='full', bound='no arguments; ' + FULL, functions=['EndTag::default', 'MaybeDynSized::as_bytes'], props=['C07']),
    # ---- rsdp.rs
    'k_rsdp_ids': dict(MB2, file='rsdp.rs', kind='full', bound='constant', functions=['RsdpV1Tag::ID', 'RsdpV2Tag::ID'], props=['C20']),
    'k_rsdpv1_decode': dict(MB2, file='rsdp.rs', kind='full', bound=_decode(32),
        functions=['DynSizedStructure::cast', 'RsdpV1Tag::revision', 'RsdpV1Tag::rsdt_address', 'RsdpV1Tag field layout'], props=['C04', 'C01']),
    'k_rsdpv1_checksum': dict(MB2, file='rsdp.rs', kind='full', bound='all 32 tag bytes symbolic; constant 20-iteration loop fully unwound (unwind 22), complete',
        functions=['RsdpV1Tag::checksum_is_valid'], props=['C04', 'C01']),
    'k_rsdpv1_signature': dict(MB2, file='rsdp.rs', kind='full', bound='all 32 tag bytes symbolic; core::str::from_utf8 over 8 bytes fully unwound (unwind 10), complete',
        functions=['RsdpV1Tag::signature'], props=['C04', 'C01']),
    'k_rsdpv1_oem_id': dict(MB2, file='rsdp.rs', kind='full', bound='all 32 tag bytes symbolic; core::str::from_utf8 over 6 bytes fully unwound (unwind 8), complete',
        functions=['RsdpV1Tag::oem_id'], props=['C04', 'C01']),
    'k_rsdpv2_decode': dict(MB2, file='rsdp.rs', kind='full', bound=_decode(48),
        functions=['DynSizedStructure::cast', 'RsdpV2Tag::revision', 'RsdpV2Tag::xsdt_address', 'RsdpV2Tag::ext_checksum', 'RsdpV2Tag field layout'], props=['C04', 'C01']),
    'k_rsdpv2_checksum_len36': dict(MB2, file='rsdp.rs', kind='full',
        bound='all 48 tag bytes symbolic except RSDP length field fixed to 36 (conformant ACPI 2.0 RSDP); 36-iteration loop fully unwound (unwind 38)',
        functions=['RsdpV2Tag::checksum_is_valid'], props=['C04']),
    'k_rsdpv2_signature': dict(MB2, file='rsdp.rs', kind='full', bound='all 48 tag bytes symbolic; core::str::from_utf8 over 8 bytes fully unwound (unwind 10), complete',
        functions=['RsdpV2Tag::signature'], props=['C04', 'C01']),
    'k_rsdpv2_oem_id': dict(MB2, file='rsdp.rs', kind='full', bound='all 48 tag bytes symbolic; core::str::from_utf8 over 6 bytes fully unwound (unwind 8), complete',
        functions=['RsdpV2Tag::oem_id'], props=['C04', 'C01']),
    'k_rsdpv1_new_image': dict(MB2, file='rsdp.rs', kind='full', bound='all 4 constructor arguments symbolic (oem_id 6 symbolic bytes); ' + FULL,
        functions=['RsdpV1Tag::new', 'MaybeDynSized::as_bytes'], props=['C07']),
    'k_rsdpv2_new_image': dict(MB2, file='rsdp.rs', kind='full', bound='all 7 constructor arguments symbolic (oem_id 6 symbolic bytes); ' + FULL,
        functions=['RsdpV2Tag::new', 'MaybeDynSized::as_bytes'], props=['C07']),
    # ---- vbe_info.rs
    'k_vbe_id': dict(MB2, file='vbe_info.rs', kind='full', bound='constant', functions=['VBEInfoTag::ID'], props=['C20']),
    'k_vbe_decode_top': dict(MB2, file='vbe_info.rs', kind='full', bound=_decode(784),
        functions=['DynSizedStructure::cast', 'VBEInfoTag::mode', 'VBEInfoTag::interface_segment', 'VBEInfoTag::interface_offset', 'VBEInfoTag::interface_length',
                   'VBEInfoTag block offsets'], props=['C04', 'C01']),
    'k_vbe_decode_control': dict(MB2, file='vbe_info.rs', kind='full', bound=_decode(784) + '; the 222+256 reserved/OEM bytes compared at a symbolic index',
        functions=['VBEInfoTag::control_info', 'VBEControlInfo fields'], props=['C04', 'C01']),
    'k_vbe_decode_mode': dict(MB2, file='vbe_info.rs', kind='full',
        bound=_decode(784) + '; memory model byte restricted to the named values 0..=7; the 206 reserved bytes compared at a symbolic index',
        functions=['VBEInfoTag::mode_info', 'VBEModeInfo fields', 'VBEField fields', 'VBEMemoryModel'], props=['C04', 'C01']),
    'k_vbe_new_top': dict(MB2, file='vbe_info.rs', kind='full', bound='all constructor arguments symbolic (every field of both blocks, memory model among the 8 named values); ' + FULL,
        functions=['VBEInfoTag::new', 'MaybeDynSized::as_bytes', 'MaybeDynSized::header'], props=['C07']),
    'k_vbe_new_control': dict(MB2, file='vbe_info.rs', kind='full', bound='as k_vbe_new_top; image bytes [16,528) and control_info() read back; reserved/OEM bytes at a symbolic index',
        functions=['VBEInfoTag::new', 'VBEInfoTag::control_info', 'MaybeDynSized::as_bytes'], props=['C07']),
    'k_vbe_new_mode': dict(MB2, file='vbe_info.rs', kind='full', bound='as k_vbe_new_top; image bytes [528,784) and mode_info() read back; reserved bytes at a symbolic index',
        functions=['VBEInfoTag::new', 'VBEInfoTag::mode_info', 'MaybeDynSized::as_bytes'], props=['C07']),
    'k_vbe_new_in_array': dict(MB2, file='vbe_info.rs', kind='full', bound='as k_vbe_new_top; array element image == plain-local image at a symbolic index over all 784 positions',
        functions=['VBEInfoTag::new', 'MaybeDynSized::as_bytes'], props=['C07']),
    # ---- memory_map.rs (sized section)
    'k_basicmem_id': dict(MB2, file='memory_map.rs', kind='full', bound='constant', functions=['BasicMemoryInfoTag::ID'], props=['C20']),
    'k_basicmem_decode': dict(MB2, file='memory_map.rs', kind='full', bound=_decode(16),
        functions=['DynSizedStructure::cast', 'BasicMemoryInfoTag::memory_lower', 'BasicMemoryInfoTag::memory_upper'], props=['C04', 'C01']),
    'k_basicmem_new_image': dict(MB2, file='memory_map.rs', kind='full', bound='both constructor arguments symbolic; ' + FULL,
        functions=['BasicMemoryInfoTag::new', 'MaybeDynSized::as_bytes'], props=['C07']),
    'k_memarea_decode': dict(MB2, file='memory_map.rs', kind='full', bound='all 24 entry bytes symbolic; end_address only where base+length <= u64::MAX; ' + FULL,
        functions=['MemoryArea::start_address', 'MemoryArea::size', 'MemoryArea::typ', 'MemoryArea::end_address', 'From<MemoryAreaTypeId> for MemoryAreaType'], props=['C04']),
    'k_memarea_new_image': dict(MB2, file='memory_map.rs', kind='full', bound='base, length, type symbolic; type passed as u32, MemoryAreaTypeId and MemoryAreaType; ' + FULL,
        functions=['MemoryArea::new', 'From<MemoryAreaType> for MemoryAreaTypeId', 'From<u32> for MemoryAreaTypeId'], props=['C07']),
    'k_memareatype_roundtrip_all_u32': dict(MB2, file='memory_map.rs', kind='full', bound='all u32 values; ' + FULL,
        functions=['From<MemoryAreaTypeId> for MemoryAreaType', 'From<MemoryAreaType> for MemoryAreaTypeId', 'From<u32> for MemoryAreaTypeId', 'From<MemoryAreaTypeId> for u32'], props=['C20']),
    'k_memareatype_equalities_agree': dict(MB2, file='memory_map.rs', kind='full', bound='two independent symbolic u32; ' + FULL,
        functions=['PartialEq<MemoryAreaType> for MemoryAreaTypeId', 'PartialEq<MemoryAreaTypeId> for MemoryAreaType', 'derived PartialEq'], props=['C20']),
    'k_memareatype_custom_noncanonical': dict(MB2, file='memory_map.rs', kind='full', bound='two independent symbolic u32 (Custom(c) incl. non-canonical c in 1..=5); ' + FULL,
        functions=['From<MemoryAreaType> for MemoryAreaTypeId', 'PartialEq impls'], props=['C20']),
}

# Harnesses that FAIL on the current tree (kept unweakened; each is a finding).
# tuple: (harness, explanation)
FAILING = [
    ('k_apm_new_size',
     'C07 (apm.rs): ApmTag::new writes header.size = size_of::<ApmTag>() = 32 (struct size incl. 4 bytes of alignment padding); '
     'the Multiboot2 spec size of the APM tag is 28.  Failed check: `tag.header().size == 28` (every argument value is a counterexample).'),
    ('k_bootdev_new_size',
     'C07 (bootdev.rs): BootdevTag::new writes header.size = size_of::<BootdevTag>() = 24 (padded); spec size is 20.  '
     'Failed check: `tag.header().size == 20` (every argument value is a counterexample).'),
    ('k_rsdpv2_checksum_extent',
     'C01 (rsdp.rs): RsdpV2Tag::checksum_is_valid builds slice::from_raw_parts(self, self.length + 8) from the UNTRUSTED RSDP length field; '
     'for length > 40 it reads past the 48-byte tag (Kani: "dereference failure: pointer invalid" in core::slice::from_raw_parts / RangeFrom::index, '
     '"Offset result and original pointer must point to the same allocation").  Bounded: length 0..=96.  NOTE: tools/kmirror.py CHECK_RE does not '
     'parse check ids that contain spaces, so krun shows this harness as FAILED with an empty failed-check list.'),
    ('k_rsdpv2_checksum_any_length',
     'C04/C01 (rsdp.rs): same code as above, plus result oracle: checksum validity must be decided by the 36 RSDP bytes [8,44) of the tag; '
     'with length != 36 the code sums a different range (shorter, into the padding, or out of bounds).  Counterexample: length field = 42.  '
     'Failed checks: harness assertion + the memory checks listed for k_rsdpv2_checksum_extent.'),
    ('k_vbe_decode_mode_any_model',
     'C04/C01 (vbe_info.rs): VBEModeInfo.memory_model is a #[repr(u8)] enum with 8 variants read directly from firmware bytes; VBE 3.0 reserves '
     '08h-0Fh and leaves 10h-FFh OEM-defined, so a conformant tag can carry e.g. 0x10 -> VBEInfoTag::mode_info() hands out an invalid enum value '
     '(undefined behaviour; an exhaustive `match` on it reaches "unreachable code").  Counterexample: byte 555 of the tag (mode info offset 27) = 0x10.'),
    ('k_memarea_end_address_total',
     'C04 (memory_map.rs): MemoryArea::end_address computes base_addr + length unchecked: "attempt to add with overflow" '
     '(panic in debug, silent wrap in release) for an entry that ends at or beyond 2^64, e.g. base = length = 0xffff_ffff_ffff_ffff; '
     'an area covering the top of the address space (base 0xffff_ffff_ffff_0000, length 0x1_0000) is realistic.'),
]
