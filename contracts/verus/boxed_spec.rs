// ASSUMED dependency contract of multiboot2_common::new_boxed (C16).  It is
// what the builder / constructor units (C06, C07, C12) rely on; engine K checks
// it on the compiled code for bounded inputs (C16 harnesses).
verus! {
use std::boxed::Box;
use std::vec::Vec;

pub mod seqfold {
use super::*;
// Closed definitions: other modules see only the push/empty equations below,
// which keeps sequence-extensionality reasoning out of the builder proofs.
/// concatenation of the byte views of a list of slices
pub closed spec fn concat_slices(s: Seq<&[u8]>) -> Seq<u8>
    decreases s.len()
{
    if s.len() == 0 { Seq::empty() } else { concat_slices(s.drop_last()).add(s.last()@) }
}

pub broadcast proof fn lemma_concat_push(s: Seq<&[u8]>, x: &[u8])
    ensures #[trigger] concat_slices(s.push(x)) == concat_slices(s).add(x@),
{
    assert(s.push(x).drop_last() =~= s);
}
pub broadcast proof fn lemma_concat_empty()
    ensures #[trigger] concat_slices(Seq::<&[u8]>::empty()) == Seq::<u8>::empty(),
{
}

/// concatenation of byte sequences (the oracle side: what a builder's slots contribute)
pub closed spec fn flat(s: Seq<Seq<u8>>) -> Seq<u8>
    decreases s.len()
{
    if s.len() == 0 { Seq::empty() } else { flat(s.drop_last()).add(s.last()) }
}
pub broadcast proof fn lemma_flat_push(s: Seq<Seq<u8>>, x: Seq<u8>)
    ensures #[trigger] flat(s.push(x)) == flat(s).add(x),
{
    assert(s.push(x).drop_last() =~= s);
}
pub broadcast proof fn lemma_flat_empty()
    ensures #[trigger] flat(Seq::<Seq<u8>>::empty()) == Seq::<u8>::empty(),
{
}

/// base followed by the first k items (repeatable builder slots, in call order)
pub closed spec fn push_upto(base: Seq<Seq<u8>>, items: Seq<Seq<u8>>, k: int) -> Seq<Seq<u8>>
    decreases k
{
    if k <= 0 { base } else { push_upto(base, items, k - 1).push(items[k - 1]) }
}
pub broadcast proof fn lemma_push_upto_zero(base: Seq<Seq<u8>>, items: Seq<Seq<u8>>)
    ensures #[trigger] push_upto(base, items, 0) == base,
{
}
pub broadcast proof fn lemma_push_upto_step(base: Seq<Seq<u8>>, items: Seq<Seq<u8>>, k: int, k1: int)
    requires k1 == k + 1, k >= 0,
    ensures #![trigger push_upto(base, items, k), push_upto(base, items, k1)]
        push_upto(base, items, k1) == push_upto(base, items, k).push(items[k]),
{
}

/// every element's length is a multiple of 8 (tags are padded to 8)
pub closed spec fn all_mult8(s: Seq<Seq<u8>>) -> bool
    decreases s.len()
{
    s.len() == 0 || (all_mult8(s.drop_last()) && s.last().len() % 8 == 0)
}
pub broadcast proof fn lemma_all_mult8_push(s: Seq<Seq<u8>>, x: Seq<u8>)
    ensures #[trigger] all_mult8(s.push(x)) == (all_mult8(s) && x.len() % 8 == 0),
{
    assert(s.push(x).drop_last() =~= s);
}
pub broadcast proof fn lemma_all_mult8_empty()
    ensures #[trigger] all_mult8(Seq::<Seq<u8>>::empty()),
{
}
pub proof fn lemma_all_mult8_flat(s: Seq<Seq<u8>>)
    requires all_mult8(s),
    ensures flat(s).len() % 8 == 0,
    decreases s.len()
{
    if s.len() > 0 {
        lemma_all_mult8_flat(s.drop_last());
    }
}
/// flat(s) = flat(first k) ++ s[k] ++ ... : the k-th item occupies [flat(s.take(k)).len(), +s[k].len()) of flat(s)
pub proof fn lemma_flat_take_step(s: Seq<Seq<u8>>, k: int)
    requires 0 <= k < s.len(),
    ensures flat(s.take(k + 1)) == flat(s.take(k)).add(s[k]),
{
    assert(s.take(k + 1) =~= s.take(k).push(s[k]));
    lemma_flat_push(s.take(k), s[k]);
}
pub proof fn lemma_flat_prefix(s: Seq<Seq<u8>>, k: int)
    requires 0 <= k <= s.len(),
    ensures
        flat(s.take(k)).len() <= flat(s).len(),
        flat(s).subrange(0, flat(s.take(k)).len() as int) == flat(s.take(k)),
    decreases s.len() - k
{
    if k == s.len() {
        assert(s.take(k) =~= s);
        assert(flat(s).subrange(0, flat(s).len() as int) =~= flat(s));
    } else {
        lemma_flat_prefix(s, k + 1);
        lemma_flat_take_step(s, k);
        let a = flat(s.take(k));
        let b = flat(s.take(k + 1));
        assert(b == a.add(s[k]));
        assert(flat(s).subrange(0, a.len() as int) =~= b.subrange(0, a.len() as int));
        assert(b.subrange(0, a.len() as int) =~= a);
    }
}
/// the k-th item sits, byte for byte, at its prefix-sum offset of flat(s)
pub proof fn lemma_flat_item_at(s: Seq<Seq<u8>>, k: int)
    requires 0 <= k < s.len(),
    ensures
        flat(s.take(k)).len() + s[k].len() <= flat(s).len(),
        flat(s).subrange(flat(s.take(k)).len() as int, (flat(s.take(k)).len() + s[k].len()) as int) == s[k],
{
    lemma_flat_prefix(s, k + 1);
    lemma_flat_take_step(s, k);
    let a = flat(s.take(k));
    let b = flat(s.take(k + 1));
    assert(flat(s).subrange(a.len() as int, (a.len() + s[k].len()) as int) =~= b.subrange(a.len() as int, (a.len() + s[k].len()) as int));
    assert(b.subrange(a.len() as int, (a.len() + s[k].len()) as int) =~= s[k]);
}
pub proof fn lemma_flat_take_all(s: Seq<Seq<u8>>)
    ensures flat(s.take(s.len() as int)) == flat(s), flat(s.take(0)).len() == 0,
{
    assert(s.take(s.len() as int) =~= s);
    assert(s.take(0) =~= Seq::<Seq<u8>>::empty());
    broadcast use lemma_flat_empty;
}
} // mod seqfold
pub use seqfold::*;

pub trait HeaderSetSize: Header {
    /// the header value after `set_size(n)`
    spec fn spec_set_size(self, n: int) -> Self;
}

#[verifier::external_body]
pub fn new_boxed<T: MaybeDynSized<Metadata = usize> + ?Sized>(header: T::Header, additional_bytes_slices: &[&[u8]]) -> (r: Box<T>)
    where T::Header: HeaderSetSize
    ensures
        // C16: header with size = header size + total content length, followed by the content without gaps,
        // in an 8-aligned allocation of the total rounded up to 8
        tag_wf(&*r),
        val_size(&*r) as int == round8(size_of::<T::Header>() + concat_slices(additional_bytes_slices@).len()),
        decode::<T::Header>(mem_at(ref_prov(&*r), ref_addr(&*r) as int, size_of::<T::Header>() as int))
            == header.spec_set_size(size_of::<T::Header>() + concat_slices(additional_bytes_slices@).len()),
        obj_bytes(&*r).subrange(size_of::<T::Header>() as int, size_of::<T::Header>() + concat_slices(additional_bytes_slices@).len())
            == concat_slices(additional_bytes_slices@),
{
    unimplemented!()
}

// ---------------------------------------------------------------------------
// C16 (clone clause), proved for ALL sizes and generically for every structure kind T from
// the assumed contract of new_boxed above and the proved contracts of header() / payload() /
// Header::payload_len: the clone has the same header (so: the same declared size) and the
// same bytes up to the declared size.  Hypotheses (stated, per kind): the header's Clone is
// the derived one (returns an equal value) and set_size with the header's own size is the
// identity (true for TagHeader / HeaderTagHeader / BootInformationHeader; for the basic
// multiboot2 header only when its checksum is valid, because set_size recomputes it).
// ---------------------------------------------------------------------------
//@extract multiboot2-common/src/boxed.rs :: fn clone_dyn
//@  ret r
//@  optional
//@  sigrewrite /\(tag: &T\) -> \(r: Box<T>\)/ => /(tag: &T) -> (r: Box<T>) where T::Header: HeaderSetSize + Clone/
//@  rewrite /new_boxed\(tag\.header\(\)\.clone\(\), &\[&tag\.payload\(\)\[\.\.(\w+)\]\]\)/ => /{ let hr = tag.header(); let h = hr.clone(); proof { assert(vstd::pervasive::cloned(*hr, h)); assert(h == clone_src_hdr(tag)); } let pl: &[u8] = vslice(tag.payload(), 0, \1); let parts: [&[u8]; 1] = [pl]; proof { assert(parts@ =~= Seq::<&[u8]>::empty().push(pl)); broadcast use lemma_concat_push, lemma_concat_empty; assert(concat_slices(parts@) =~= pl@); assert(size_of::<T::Header>() + pl@.len() == clone_src_hdr(tag).declared_total()); } new_boxed(h, parts.as_slice()) }/
//@  prologue proof { clone_src_hdr(tag).lemma_hdr_layout(); }
//@  spec:
//@    requires
//@        panics_allowed(),
//@        tag_wf(tag),
//@        // the tag is consistent (what cast() and new_boxed establish): in-memory size = declared size rounded up to 8
//@        val_size(tag) as int == round8(clone_src_hdr(tag).declared_total()),
//@        forall|a: T::Header, b: T::Header| vstd::pervasive::cloned(a, b) ==> a == b,
//@        clone_src_hdr(tag).spec_set_size(clone_src_hdr(tag).declared_total()) == clone_src_hdr(tag),
//@    ensures
//@        tag_wf(&*r),
//@        clone_src_hdr(tag).declared_total() >= size_of::<T::Header>(),
//@        // same header (type, declared size, every other header field), same padded size
//@        clone_src_hdr(&*r) == clone_src_hdr(tag),
//@        val_size(&*r) == val_size(tag),
//@        // same bytes up to the declared size
//@        obj_bytes(&*r).subrange(size_of::<T::Header>() as int, clone_src_hdr(tag).declared_total())
//@            == obj_bytes(tag).subrange(size_of::<T::Header>() as int, clone_src_hdr(tag).declared_total()),
//@end

/// the header stored at the start of a structure
pub open spec fn clone_src_hdr<T: MaybeDynSized + ?Sized>(t: &T) -> T::Header {
    decode::<T::Header>(mem_at(ref_prov(t), ref_addr(t) as int, size_of::<T::Header>() as int))
}

/// Every reference safe Rust hands out points to an aligned, dereferenceable
/// value of size_of_val bytes (type-system guarantee, trusted).
#[verifier::external_body]
pub broadcast proof fn axiom_safe_ref_wf<T: MaybeDynSized + ?Sized>(r: &T)
    ensures #[trigger] tag_wf_raw(r, T::layout_size(ref_meta(r)), size_of::<T::Header>() as nat),
{
}

} // verus!
