// ASSUMED dependency contract of multiboot2_common::new_boxed (C16).  It is
// what the builder / constructor units (C06, C07, C12) rely on; engine K checks
// it on the compiled code for bounded inputs (C16 harnesses).
verus! {
use std::boxed::Box;
use std::vec::Vec;

pub mod seqfold {
use super::*;
// Closed definitions: other modules see only the push/empty equations below,
// which keeps sequence-extensionality reasoning out of the builder proofs.
/// concatenation of the byte views of a list of slices
pub closed spec fn concat_slices(s: Seq<&[u8]>) -> Seq<u8>
    decreases s.len()
{
    if s.len() == 0 { Seq::empty() } else { concat_slices(s.drop_last()).add(s.last()@) }
}

pub broadcast proof fn lemma_concat_push(s: Seq<&[u8]>, x: &[u8])
    ensures #[trigger] concat_slices(s.push(x)) == concat_slices(s).add(x@),
{
    assert(s.push(x).drop_last() =~= s);
}
pub broadcast proof fn lemma_concat_empty()
    ensures #[trigger] concat_slices(Seq::<&[u8]>::empty()) == Seq::<u8>::empty(),
{
}

/// concatenation of byte sequences (the oracle side: what a builder's slots contribute)
pub closed spec fn flat(s: Seq<Seq<u8>>) -> Seq<u8>
    decreases s.len()
{
    if s.len() == 0 { Seq::empty() } else { flat(s.drop_last()).add(s.last()) }
}
pub broadcast proof fn lemma_flat_push(s: Seq<Seq<u8>>, x: Seq<u8>)
    ensures #[trigger] flat(s.push(x)) == flat(s).add(x),
{
    assert(s.push(x).drop_last() =~= s);
}
pub broadcast proof fn lemma_flat_empty()
    ensures #[trigger] flat(Seq::<Seq<u8>>::empty()) == Seq::<u8>::empty(),
{
}

/// base followed by the first k items (repeatable builder slots, in call order)
pub closed spec fn push_upto(base: Seq<Seq<u8>>, items: Seq<Seq<u8>>, k: int) -> Seq<Seq<u8>>
    decreases k
{
    if k <= 0 { base } else { push_upto(base, items, k - 1).push(items[k - 1]) }
}
pub broadcast proof fn lemma_push_upto_zero(base: Seq<Seq<u8>>, items: Seq<Seq<u8>>)
    ensures #[trigger] push_upto(base, items, 0) == base,
{
}
pub broadcast proof fn lemma_push_upto_step(base: Seq<Seq<u8>>, items: Seq<Seq<u8>>, k: int, k1: int)
    requires k1 == k + 1, k >= 0,
    ensures #![trigger push_upto(base, items, k), push_upto(base, items, k1)]
        push_upto(base, items, k1) == push_upto(base, items, k).push(items[k]),
{
}

/// every element's length is a multiple of 8 (tags are padded to 8)
pub closed spec fn all_mult8(s: Seq<Seq<u8>>) -> bool
    decreases s.len()
{
    s.len() == 0 || (all_mult8(s.drop_last()) && s.last().len() % 8 == 0)
}
pub broadcast proof fn lemma_all_mult8_push(s: Seq<Seq<u8>>, x: Seq<u8>)
    ensures #[trigger] all_mult8(s.push(x)) == (all_mult8(s) && x.len() % 8 == 0),
{
    assert(s.push(x).drop_last() =~= s);
}
pub broadcast proof fn lemma_all_mult8_empty()
    ensures #[trigger] all_mult8(Seq::<Seq<u8>>::empty()),
{
}
pub proof fn lemma_all_mult8_flat(s: Seq<Seq<u8>>)
    requires all_mult8(s),
    ensures flat(s).len() % 8 == 0,
    decreases s.len()
{
    if s.len() > 0 {
        lemma_all_mult8_flat(s.drop_last());
    }
}
/// flat(s) = flat(first k) ++ s[k] ++ ... : the k-th item occupies [flat(s.take(k)).len(), +s[k].len()) of flat(s)
pub proof fn lemma_flat_take_step(s: Seq<Seq<u8>>, k: int)
    requires 0 <= k < s.len(),
    ensures flat(s.take(k + 1)) == flat(s.take(k)).add(s[k]),
{
    assert(s.take(k + 1) =~= s.take(k).push(s[k]));
    lemma_flat_push(s.take(k), s[k]);
}
pub proof fn lemma_flat_prefix(s: Seq<Seq<u8>>, k: int)
    requires 0 <= k <= s.len(),
    ensures
        flat(s.take(k)).len() <= flat(s).len(),
        flat(s).subrange(0, flat(s.take(k)).len() as int) == flat(s.take(k)),
    decreases s.len() - k
{
    if k == s.len() {
        assert(s.take(k) =~= s);
        assert(flat(s).subrange(0, flat(s).len() as int) =~= flat(s));
    } else {
        lemma_flat_prefix(s, k + 1);
        lemma_flat_take_step(s, k);
        let a = flat(s.take(k));
        let b = flat(s.take(k + 1));
        assert(b == a.add(s[k]));
        assert(flat(s).subrange(0, a.len() as int) =~= b.subrange(0, a.len() as int));
        assert(b.subrange(0, a.len() as int) =~= a);
    }
}
/// the k-th item sits, byte for byte, at its prefix-sum offset of flat(s)
pub proof fn lemma_flat_item_at(s: Seq<Seq<u8>>, k: int)
    requires 0 <= k < s.len(),
    ensures
        flat(s.take(k)).len() + s[k].len() <= flat(s).len(),
        flat(s).subrange(flat(s.take(k)).len() as int, (flat(s.take(k)).len() + s[k].len()) as int) == s[k],
{
    lemma_flat_prefix(s, k + 1);
    lemma_flat_take_step(s, k);
    let a = flat(s.take(k));
    let b = flat(s.take(k + 1));
    assert(flat(s).subrange(a.len() as int, (a.len() + s[k].len()) as int) =~= b.subrange(a.len() as int, (a.len() + s[k].len()) as int));
    assert(b.subrange(a.len() as int, (a.len() + s[k].len()) as int) =~= s[k]);
}
pub proof fn lemma_flat_take_all(s: Seq<Seq<u8>>)
    ensures flat(s.take(s.len() as int)) == flat(s), flat(s.take(0)).len() == 0,
{
    assert(s.take(s.len() as int) =~= s);
    assert(s.take(0) =~= Seq::<Seq<u8>>::empty());
    broadcast use lemma_flat_empty;
}
} // mod seqfold
pub use seqfold::*;

pub trait HeaderSetSize: Header {
    /// the header value after `set_size(n)`
    spec fn spec_set_size(self, n: int) -> Self;
}

#[verifier::external_body]
pub fn new_boxed<T: MaybeDynSized<Metadata = usize> + ?Sized>(header: T::Header, additional_bytes_slices: &[&[u8]]) -> (r: Box<T>)
    where T::Header: HeaderSetSize
    ensures
        // C16: header with size = header size + total content length, followed by the content without gaps,
        // in an 8-aligned allocation of the total rounded up to 8
        tag_wf(&*r),
        val_size(&*r) as int == round8(size_of::<T::Header>() + concat_slices(additional_bytes_slices@).len()),
        decode::<T::Header>(mem_at(ref_prov(&*r), ref_addr(&*r) as int, size_of::<T::Header>() as int))
            == header.spec_set_size(size_of::<T::Header>() + concat_slices(additional_bytes_slices@).len()),
        obj_bytes(&*r).subrange(size_of::<T::Header>() as int, size_of::<T::Header>() + concat_slices(additional_bytes_slices@).len())
            == concat_slices(additional_bytes_slices@),
{
    unimplemented!()
}

/// Every reference safe Rust hands out points to an aligned, dereferenceable
/// value of size_of_val bytes (type-system guarantee, trusted).
#[verifier::external_body]
pub broadcast proof fn axiom_safe_ref_wf<T: MaybeDynSized + ?Sized>(r: &T)
    ensures #[trigger] tag_wf_raw(r, T::layout_size(ref_meta(r)), size_of::<T::Header>() as nat),
{
}

} // verus!
