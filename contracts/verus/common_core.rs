// Unit: multiboot2-common parsing core (generic in the header type H).
// Bodies are extracted verbatim from /repo on every run; only the trait /
// impl wrapper lines and the contracts are written here.
verus! {

pub const ALIGNMENT: usize = 8;

// trait wrapper line written here: the supertraits Clone + PartialEq + Eq +
// Debug are dropped (no proof depends on them); spec items are injected.
pub trait Header: Sized {
    /// the total size the header declares (its stored size / length word)
    spec fn declared_total(&self) -> int;

    /// layout facts every implementor must prove from its `global layout`
    proof fn lemma_hdr_layout(&self)
        ensures
            0 <= self.declared_total() <= u32::MAX,
            size_of::<Self>() == 8 || size_of::<Self>() == 16,
            align_of::<Self>() <= 8;

//@extract multiboot2-common/src/lib.rs :: trait Header :: fn payload_len
//@  novis
//@  ret r
//@  spec:
//@        requires panics_allowed() || self.declared_total() >= size_of::<Self>(),
//@        ensures self.declared_total() >= size_of::<Self>(), r == self.declared_total() - size_of::<Self>()
//@end

//@extract multiboot2-common/src/lib.rs :: trait Header :: fn total_size
//@  novis
//@  ret r
//@  prologue proof { self.lemma_hdr_layout(); }
//@  spec:
//@        requires panics_allowed() || self.declared_total() >= size_of::<Self>(),
//@        ensures self.declared_total() >= size_of::<Self>(), r == self.declared_total()
//@end

//@extract multiboot2-common/src/lib.rs :: trait Header :: fn set_size
//@  novis
//@  spec:
//@        requires total_size <= u32::MAX,
//@        ensures final(self).declared_total() == total_size
//@end
}

//@extract multiboot2-common/src/lib.rs :: enum MemoryError
//@  keepattrs #\[derive
//@  rewrite /#\[derive\([^)]*\)\]/ => /#[derive(Copy, Clone, PartialEq, Eq)]/
//@end

//@extract multiboot2-common/src/lib.rs :: fn increase_to_alignment
//@  ret r
//@  prologue proof { lemma_round8_bv(size as u64); lemma_round8_props(size as int); }
//@  spec:
//@    requires size <= usize::MAX - 7,
//@    ensures r as int == round8(size as int), r >= size, r % 8 == 0, r - size < 8,
//@end

// ---------------------------------------------------------------------------
// BytesRef
// ---------------------------------------------------------------------------
//@extract multiboot2-common/src/bytes_ref.rs :: struct BytesRef
//@end

pub open spec fn bytesref_ok<H: Header>(bytes: &[u8]) -> bool {
    bytes@.len() >= size_of::<H>() && slice_addr(bytes) as int % 8 == 0 && bytes@.len() % 8 == 0
}

impl<'a, H: Header> BytesRef<'a, H> {
    pub open spec fn wf(&self) -> bool { bytesref_ok::<H>(self.bytes) }

//@extract multiboot2-common/src/bytes_ref.rs :: impl<'a, H: Header> TryFrom<&'a [u8]> for BytesRef<'a, H> :: fn try_from
//@  ret r
//@  sigrewrite /Self::Error/ => /MemoryError/
//@  spec:
//@    ensures
//@        // C14: exact acceptance condition and error precedence; total (no panic)
//@        bytes@.len() < size_of::<H>() ==> r == Err::<Self, MemoryError>(MemoryError::ShorterThanHeader),
//@        bytes@.len() >= size_of::<H>() && slice_addr(bytes) as int % 8 != 0 ==> r == Err::<Self, MemoryError>(MemoryError::WrongAlignment),
//@        bytes@.len() >= size_of::<H>() && slice_addr(bytes) as int % 8 == 0 && bytes@.len() % 8 != 0 ==> r == Err::<Self, MemoryError>(MemoryError::MissingPadding),
//@        bytesref_ok::<H>(bytes) ==> r is Ok && r->Ok_0.bytes == bytes,
//@end

}

impl<'a, H: Header> BytesRef<'a, H> {
    /// `bytes_ref.as_ref()` (explicit rewrite at the builder sites): the wrapped slice
    pub fn vbytes(self) -> (r: &'a [u8])
        ensures r == self.bytes,
    {
        self.bytes
    }
}

impl<'a, H: Header> Deref for BytesRef<'a, H> {
    type Target = &'a [u8];
//@extract multiboot2-common/src/bytes_ref.rs :: impl<'a, H: Header> Deref for BytesRef<'a, H> :: fn deref
//@  novis
//@  ret r
//@  spec:
//@    ensures *r == self.bytes,
//@end
}

// ---------------------------------------------------------------------------
// DynSizedStructure
// ---------------------------------------------------------------------------
//@extract multiboot2-common/src/lib.rs :: struct DynSizedStructure
//@end

pub mod ptr_meta {
    use super::*;
    /// local stand-in for ptr_meta::Pointee (only the associated type matters)
    pub trait Pointee {
        type Metadata;
    }
    /// shadows ptr_meta::from_raw_parts (call text stays verbatim, R3)
    #[verifier::external_body]
    pub fn from_raw_parts<T: Pointee + ?Sized>(data: *const (), meta: T::Metadata) -> (r: *const T)
        ensures fat_addr(r) == data@.addr, fat_prov(r) == data@.provenance, fat_meta(r) == meta,
    {
        unimplemented!()
    }
}
use ptr_meta::Pointee;

pub uninterp spec fn fat_addr<T: ?Sized>(p: *const T) -> usize;
pub uninterp spec fn fat_prov<T: ?Sized>(p: *const T) -> Provenance;
pub uninterp spec fn fat_meta<T: Pointee + ?Sized>(p: *const T) -> T::Metadata;
pub uninterp spec fn ref_meta<T: Pointee + ?Sized>(r: &T) -> T::Metadata;

// --- MaybeDynSized: trait wrapper line written here (`: Pointee` kept) ------
pub open spec fn tag_wf_raw<T: ?Sized>(r: &T, layout_size: nat, hdr_size: nat) -> bool {
    &&& obj_wf(r)
    &&& val_size(r) == layout_size
    &&& val_size(r) >= hdr_size
    &&& val_size(r) % 8 == 0
}

pub trait MaybeDynSized: Pointee {
    /// rustc's size_of_val for a value of this type with the given pointer
    /// metadata ("truthfully declares its layout", C15).  Trusted per
    /// implementor; engine K checks it against the compiled type.
    spec fn layout_size(meta: Self::Metadata) -> nat;
    /// condition under which `dst_len` returns (otherwise: controlled panic)
    spec fn dst_len_ok(header: &Self::Header) -> bool;
    spec fn dst_len_spec(header: &Self::Header) -> Self::Metadata;

    type Header: Header;

    const BASE_SIZE: usize;

//@extract multiboot2-common/src/tag.rs :: trait MaybeDynSized :: fn dst_len
//@  novis
//@  ret r
//@  spec:
//@        requires
//@            // the header belongs to a well-formed structure (what `cast` and `new_boxed` pass)
//@            header.declared_total() >= size_of::<Self::Header>(),
//@            panics_allowed() || Self::dst_len_ok(header),
//@        ensures Self::dst_len_ok(header), r == Self::dst_len_spec(header)
//@end

//@extract multiboot2-common/src/tag.rs :: trait MaybeDynSized :: fn header
//@  novis
//@  ret r
//@  rules R2,R2b
//@  prologue proof { let hh = decode::<Self::Header>(mem_at(ref_prov(self), ref_addr(self) as int, size_of::<Self::Header>() as int)); hh.lemma_hdr_layout(); }
//@  spec:
//@        requires tag_wf_raw(self, Self::layout_size(ref_meta(self)), size_of::<Self::Header>() as nat),
//@        ensures ref_addr(r) == ref_addr(self), ref_prov(r) == ref_prov(self),
//@            *r == decode::<Self::Header>(mem_at(ref_prov(self), ref_addr(self) as int, size_of::<Self::Header>() as int)),
//@end

//@extract multiboot2-common/src/tag.rs :: trait MaybeDynSized :: fn payload
//@  novis
//@  ret r
//@  rewrite /&self\.as_bytes\(\)\[\s*(\w+)\s*\.\.\s*\]/ => /vslice_from(*self.as_bytes(), \1)/
//@  spec:
//@        requires tag_wf_raw(self, Self::layout_size(ref_meta(self)), size_of::<Self::Header>() as nat),
//@        ensures
//@            slice_addr(r) == ref_addr(self) + size_of::<Self::Header>(), slice_prov(r) == ref_prov(self),
//@            r@.len() == val_size(self) - size_of::<Self::Header>(),
//@            r@ == obj_bytes(self).subrange(size_of::<Self::Header>() as int, val_size(self) as int),
//@end

//@extract multiboot2-common/src/tag.rs :: trait MaybeDynSized :: fn as_bytes
//@  novis
//@  ret r
//@  rules R2b
//@  rewrite /slice::from_raw_parts\(\s*(\w+)\.cast::<u8>\(\)\s*,\s*(\w+)\s*\)/ => /bytes_from_raw_parts(\1.cast::<u8>(), \2)/
//@  rewrite /BytesRef::try_from\((\w+)\)\s*\.unwrap\(\)/ => /res_unwrap(BytesRef::try_from(\1))/
//@  spec:
//@        requires tag_wf_raw(self, Self::layout_size(ref_meta(self)), size_of::<Self::Header>() as nat),
//@        ensures
//@            r.wf(), slice_wf(r.bytes),
//@            slice_addr(r.bytes) == ref_addr(self), slice_prov(r.bytes) == ref_prov(self),
//@            r.bytes@.len() == val_size(self), r.bytes@ == obj_bytes(self),
//@end

//@extract multiboot2-common/src/tag.rs :: trait MaybeDynSized :: fn as_ptr
//@  novis
//@  ret r
//@  spec:
//@        requires tag_wf_raw(self, Self::layout_size(ref_meta(self)), size_of::<Self::Header>() as nat),
//@        ensures r@.addr == ref_addr(self), r@.provenance == ref_prov(self),
//@end
}

/// invariant of every typed tag reference the library hands out
pub open spec fn tag_wf<T: MaybeDynSized + ?Sized>(r: &T) -> bool {
    tag_wf_raw(r, T::layout_size(ref_meta(r)), size_of::<T::Header>() as nat)
}

/// `&*fat_or_thin_ptr` for a MaybeDynSized target (explicit rewrite at the
/// two sites that build such a pointer).  No extent requirement at creation
/// (the code compares sizes only afterwards, in `cast`); instead the result's
/// size is *described*, and every function handing a reference out must prove
/// `obj_wf` / `tag_wf` for it.
#[verifier::external_body]
pub fn deref_dst<'a, T: MaybeDynSized + ?Sized>(p: *const T) -> (r: &'a T)
    requires
        in_prov(fat_prov(p), fat_addr(p) as int, size_of::<T::Header>() as int),
        fat_addr(p) as int % 8 == 0,
    ensures
        ref_addr(r) == fat_addr(p), ref_prov(r) == fat_prov(p), ref_meta(r) == fat_meta(p),
        val_size(r) == T::layout_size(fat_meta(p)),
{
    unimplemented!()
}

// #[derive(ptr_meta::Pointee)] on DynSizedStructure, written out
impl<H: Header> Pointee for DynSizedStructure<H> {
    type Metadata = usize;
}

impl<H: Header> MaybeDynSized for DynSizedStructure<H> {
    /// rustc layout of `#[repr(C, align(8))] struct { header: H, payload: [u8] }`
    open spec fn layout_size(meta: usize) -> nat { round8(size_of::<H>() + meta) as nat }
    open spec fn dst_len_ok(header: &H) -> bool { header.declared_total() >= size_of::<H>() }
    open spec fn dst_len_spec(header: &H) -> usize { (header.declared_total() - size_of::<H>()) as usize }

//@extract multiboot2-common/src/tag.rs :: impl<H: Header> MaybeDynSized for DynSizedStructure<H> :: type Header
//@  novis
//@end
    #[verifier::external_body]
//@extract multiboot2-common/src/tag.rs :: impl<H: Header> MaybeDynSized for DynSizedStructure<H> :: const BASE_SIZE
//@  novis
//@end
//@extract multiboot2-common/src/tag.rs :: impl<H: Header> MaybeDynSized for DynSizedStructure<H> :: fn dst_len
//@  novis
//@  prologue proof { header.lemma_hdr_layout(); }
//@end
}

/// invariant of every `&DynSizedStructure<H>` the library hands out
pub open spec fn dyn_wf<H: Header>(r: &DynSizedStructure<H>) -> bool {
    &&& tag_wf(r)
    &&& dyn_hdr(r).declared_total() == size_of::<H>() + ref_meta(r)
}
/// the header value of a DST reference = decoding of its first bytes
pub open spec fn dyn_hdr<H: Header>(r: &DynSizedStructure<H>) -> H {
    decode::<H>(mem_at(ref_prov(r), ref_addr(r) as int, size_of::<H>() as int))
}

impl<H: Header> DynSizedStructure<H> {

//@extract multiboot2-common/src/lib.rs :: impl<H: Header> DynSizedStructure<H> :: fn ref_from_bytes
//@  ret r
//@  rules R2
//@  rewrite /deref_raw\((\w+)\)\s*\};\s*Ok\((\w+)\)/ => /deref_dst(\1) };\n        Ok(\2)/
//@  prologue proof { let hh = decode::<H>(mem_at(slice_prov(bytes.bytes), slice_addr(bytes.bytes) as int, size_of::<H>() as int)); hh.lemma_hdr_layout(); lemma_round8_props(hh.declared_total()); }
//@  spec:
//@    requires
//@        bytes.wf(), slice_wf(bytes.bytes),
//@        panics_allowed() || hdr_at::<H>(bytes.bytes).declared_total() >= size_of::<H>(),
//@    ensures
//@        hdr_at::<H>(bytes.bytes).declared_total() >= size_of::<H>(),
//@        // C14: oversized declarations are an error, everything else succeeds
//@        hdr_at::<H>(bytes.bytes).declared_total() > bytes.bytes@.len() ==> r == Err::<&Self, MemoryError>(MemoryError::InvalidReportedTotalSize),
//@        hdr_at::<H>(bytes.bytes).declared_total() <= bytes.bytes@.len() ==> r is Ok,
//@        r is Ok ==> ({
//@            let d = r->Ok_0;
//@            &&& dyn_wf(d)
//@            &&& ref_addr(d) == slice_addr(bytes.bytes)
//@            &&& ref_prov(d) == slice_prov(bytes.bytes)
//@            &&& dyn_hdr(d) == hdr_at::<H>(bytes.bytes)
//@            // in-memory size: declared size rounded up to 8, never more than the slice
//@            &&& val_size(d) as int == round8(dyn_hdr(d).declared_total())
//@            &&& val_size(d) <= bytes.bytes@.len()
//@        }),
//@end

//@extract multiboot2-common/src/lib.rs :: impl<H: Header> DynSizedStructure<H> :: fn ref_from_slice
//@  ret r
//@  rewrite /BytesRef::<H>::try_from\((\w+)\)\?/ => /match BytesRef::<H>::try_from(\1) { Ok(b) => b, Err(e) => return Err(e) }/
//@  spec:
//@    requires
//@        slice_wf(bytes),
//@        panics_allowed() || !bytesref_ok::<H>(bytes) || hdr_at::<H>(bytes).declared_total() >= size_of::<H>(),
//@    ensures
//@        // C14 precedence
//@        bytes@.len() < size_of::<H>() ==> r == Err::<&Self, MemoryError>(MemoryError::ShorterThanHeader),
//@        bytes@.len() >= size_of::<H>() && slice_addr(bytes) as int % 8 != 0 ==> r == Err::<&Self, MemoryError>(MemoryError::WrongAlignment),
//@        bytes@.len() >= size_of::<H>() && slice_addr(bytes) as int % 8 == 0 && bytes@.len() % 8 != 0 ==> r == Err::<&Self, MemoryError>(MemoryError::MissingPadding),
//@        bytesref_ok::<H>(bytes) ==> hdr_at::<H>(bytes).declared_total() >= size_of::<H>(),
//@        bytesref_ok::<H>(bytes) && hdr_at::<H>(bytes).declared_total() > bytes@.len() ==> r == Err::<&Self, MemoryError>(MemoryError::InvalidReportedTotalSize),
//@        bytesref_ok::<H>(bytes) && hdr_at::<H>(bytes).declared_total() <= bytes@.len() ==> r is Ok,
//@        r is Ok ==> ({
//@            let d = r->Ok_0;
//@            &&& bytesref_ok::<H>(bytes)
//@            &&& dyn_wf(d)
//@            &&& ref_addr(d) == slice_addr(bytes)
//@            &&& ref_prov(d) == slice_prov(bytes)
//@            &&& dyn_hdr(d) == hdr_at::<H>(bytes)
//@            &&& val_size(d) as int == round8(dyn_hdr(d).declared_total())
//@            &&& val_size(d) <= bytes@.len()
//@        }),
//@end


//@extract multiboot2-common/src/lib.rs :: impl<H: Header> DynSizedStructure<H> :: fn ref_from_ptr
//@  ret r
//@  rules R2
//@  rewrite /slice::from_raw_parts\(\s*(\w+)\.cast::<u8>\(\)\s*,\s*([\w\.]+(?:\(\))?)\s*\)/ => /bytes_from_raw_parts(\1.cast::<u8>(), \2)/
//@  prologue proof { let hh = decode::<H>(mem_at(nonnull_ptr(ptr)@.provenance, nonnull_ptr(ptr)@.addr as int, size_of::<H>() as int)); hh.lemma_hdr_layout(); }
//@  spec:
//@    requires
//@        // the caller's `unsafe` promise: an 8-aligned header followed by the bytes it declares
//@        nonnull_ptr(ptr)@.addr as int % 8 == 0,
//@        in_prov(nonnull_ptr(ptr)@.provenance, nonnull_ptr(ptr)@.addr as int, size_of::<H>() as int),
//@        in_prov(nonnull_ptr(ptr)@.provenance, nonnull_ptr(ptr)@.addr as int, hdr_at_ptr::<H>(nonnull_ptr(ptr)).declared_total()),
//@        panics_allowed() || hdr_at_ptr::<H>(nonnull_ptr(ptr)).declared_total() >= size_of::<H>(),
//@    ensures
//@        hdr_at_ptr::<H>(nonnull_ptr(ptr)).declared_total() >= size_of::<H>(),
//@        hdr_at_ptr::<H>(nonnull_ptr(ptr)).declared_total() % 8 != 0 ==> r == Err::<&Self, MemoryError>(MemoryError::MissingPadding),
//@        hdr_at_ptr::<H>(nonnull_ptr(ptr)).declared_total() % 8 == 0 ==> r is Ok,
//@        r is Ok ==> ({
//@            let d = r->Ok_0;
//@            &&& dyn_wf(d)
//@            &&& ref_addr(d) == nonnull_ptr(ptr)@.addr
//@            &&& ref_prov(d) == nonnull_ptr(ptr)@.provenance
//@            &&& dyn_hdr(d) == hdr_at_ptr::<H>(nonnull_ptr(ptr))
//@            &&& val_size(d) as int == dyn_hdr(d).declared_total()
//@        }),
//@end

// field projections of the repr(C) DST: trusted layout statements (external_body),
// checked on the compiled type by engine K
#[verifier::external_body]
//@extract multiboot2-common/src/lib.rs :: impl<H: Header> DynSizedStructure<H> :: fn header
//@  ret r
//@  spec:
//@    ensures *r == dyn_hdr(self), ref_addr(r) == ref_addr(self), ref_prov(r) == ref_prov(self),
//@end

#[verifier::external_body]
//@extract multiboot2-common/src/lib.rs :: impl<H: Header> DynSizedStructure<H> :: fn payload
//@  ret r
//@  spec:
//@    ensures r@.len() == ref_meta(self),
//@        r@ == mem_at(ref_prov(self), ref_addr(self) + size_of::<H>(), ref_meta(self) as int),
//@        slice_addr(r) == ref_addr(self) + size_of::<H>(), slice_prov(r) == ref_prov(self),
//@end

//@extract multiboot2-common/src/lib.rs :: impl<H: Header> DynSizedStructure<H> :: fn cast
//@  ret r
//@  rules R2,R2b
//@  rewrite /deref_raw\((\w+)\)/ => /deref_dst(\1)/
//@  prologue proof { dyn_hdr(self).lemma_hdr_layout(); }
//@  spec:
//@    requires dyn_wf(self), panics_allowed(),
//@    ensures
//@        // C15: same address, same in-memory size (the tag's own size rounded up to 8)
//@        ref_addr(r) == ref_addr(self), ref_prov(r) == ref_prov(self),
//@        val_size(r) == val_size(self),
//@        val_size(r) as int == round8(dyn_hdr(self).declared_total()),
//@        ref_meta(r) == T::dst_len_spec(&dyn_hdr(self)), T::dst_len_ok(&dyn_hdr(self)),
//@        tag_wf(r),
//@end
}

pub open spec fn hdr_at_ptr<H: Header>(p: *mut H) -> H {
    decode::<H>(mem_at(p@.provenance, p@.addr as int, size_of::<H>() as int))
}

/// the header value stored at the start of a byte slice
pub open spec fn hdr_at<H: Header>(bytes: &[u8]) -> H {
    decode::<H>(mem_at(slice_prov(bytes), slice_addr(bytes) as int, size_of::<H>() as int))
}


// ---------------------------------------------------------------------------
// TagIter
// ---------------------------------------------------------------------------
//@extract multiboot2-common/src/iter.rs :: struct TagIter
//@end

impl<'a, H: Header> TagIter<'a, H> {
    /// state invariant: an 8-aligned buffer whose length is a multiple of 8 and
    /// a cursor that is a multiple of 8 inside it
    pub open spec fn wf(&self) -> bool {
        &&& slice_wf(self.buffer)
        &&& slice_addr(self.buffer) as int % 8 == 0
        &&& self.buffer@.len() % 8 == 0
        &&& self.next_tag_offset <= self.buffer@.len()
        &&& self.next_tag_offset % 8 == 0
    }
    /// what holds in EVERY state a caller can observe, including after a controlled panic inside
    /// `next` was caught and the iterator is used again (unwind safety): the cursor may have been
    /// advanced past the end before the panic, but it is always a multiple of 8
    pub open spec fn wf_weak(&self) -> bool {
        &&& slice_wf(self.buffer)
        &&& slice_addr(self.buffer) as int % 8 == 0
        &&& self.buffer@.len() % 8 == 0
        &&& self.next_tag_offset % 8 == 0
    }
    /// header stored at byte offset `off` of the buffer
    pub open spec fn hdr_at_off(&self, off: int) -> H {
        decode::<H>(mem_at(slice_prov(self.buffer), slice_addr(self.buffer) + off, size_of::<H>() as int))
    }

//@extract multiboot2-common/src/iter.rs :: impl<'a, H: Header> TagIter<'a, H> :: fn new
//@  ret r
//@  spec:
//@    requires slice_wf(mem), mem@.len() % 8 == 0, panics_allowed() || slice_addr(mem) as int % 8 == 0,
//@    ensures r.wf(), r.buffer == mem, r.next_tag_offset == 0,
//@end

// `impl Iterator for TagIter` (R4: hosted as an inherent method, Self::Item written out)
//@extractall multiboot2-common/src/iter.rs :: impl<'a, H: Header + 'a> Iterator for TagIter<'a, H>
//@  onlyfns next
//@  type Item: skip
//@  fn *: nocontract
//@  fn *: rules R2
//@  fn *: sigrewrite /Self::Item/ => /&'a DynSizedStructure<H>/ x*
//@  fn next: ret r
//@  fn next: rules R2
//@  fn next: sigrewrite /Option<Self::Item>/ => /Option<&'a DynSizedStructure<H>>/
//@  fn next: rewrite /&self\.buffer\[\s*(\w+)\s*\.\.\s*(\w+)\s*\]/ => /vslice(self.buffer, \1, \2)/
//@  fn next: rewrite /DynSizedStructure::ref_from_slice\((\w+)\)\s*\.unwrap\(\)/ => /res_unwrap(DynSizedStructure::ref_from_slice(\1))/
//@  fn next: prologue proof { old(self).hdr_at_off(old(self).next_tag_offset as int).lemma_hdr_layout(); if old(self).next_tag_offset <= old(self).buffer@.len() { lemma_round8_props(old(self).next_tag_offset + old(self).hdr_at_off(old(self).next_tag_offset as int).declared_total()); } }
//@  fn next: spec:
//@    requires old(self).wf_weak(), panics_allowed(), size_of::<H>() == 8,
//@    ensures
//@        old(self).wf(), final(self).wf(), final(self).buffer == old(self).buffer,
//@        // exhausted iterators stay exhausted
//@        old(self).next_tag_offset == old(self).buffer@.len() ==> r is None && final(self).next_tag_offset == old(self).next_tag_offset,
//@        old(self).next_tag_offset < old(self).buffer@.len() ==> r is Some,
//@        r is Some ==> ({
//@            let t = r->Some_0;
//@            let from = old(self).next_tag_offset as int;
//@            let h = old(self).hdr_at_off(from);
//@            // C03: located at that very address, reports the stored header, spans size rounded up to 8
//@            &&& from < old(self).buffer@.len()
//@            &&& h.declared_total() >= size_of::<H>()
//@            &&& dyn_wf(t)
//@            &&& dyn_hdr(t) == h
//@            &&& ref_addr(t) == slice_addr(old(self).buffer) + from
//@            &&& ref_prov(t) == slice_prov(old(self).buffer)
//@            &&& ref_meta(t) == h.declared_total() - size_of::<H>()
//@            &&& val_size(t) as int == round8(h.declared_total())
//@            // the walk: next tag at previous offset + size rounded up to 8, never past the end
//@            &&& final(self).next_tag_offset == from + round8(h.declared_total())
//@            &&& final(self).next_tag_offset <= old(self).buffer@.len()
//@        }),
//@end
}


// ---------------------------------------------------------------------------
// C03: the specification's tag walk, and the proof that iterating the real
// `next` reproduces it (glue code written here, calling the extracted `next`).
// ---------------------------------------------------------------------------
/// offsets (relative to the buffer) of the tags a spec-following walk finds:
/// the first at `off`, each next one at the previous offset plus its size
/// rounded up to 8, until the end of the buffer.  A size below the header size
/// cannot be walked past (the real iterator panics there).
pub open spec fn spec_walk<H: Header>(it: TagIter<H>, off: int) -> Seq<int>
    decreases it.buffer@.len() - off
{
    if off < 0 || off >= it.buffer@.len() {
        Seq::empty()
    } else {
        let sz = it.hdr_at_off(off).declared_total();
        if sz < 8 || off + round8(sz) > it.buffer@.len() {
            // a size below 8 or a tag that would leave the region: the walk
            // cannot continue (the real iterator ends in a controlled panic)
            seq![off]
        } else {
            seq![off].add(spec_walk(it, off + round8(sz)))
        }
    }
}

pub fn walk_collect<'a, H: Header + 'a>(it: &mut TagIter<'a, H>) -> (offs: Ghost<Seq<int>>)
    requires old(it).wf(), panics_allowed(), size_of::<H>() == 8,
    ensures
        // finite, yields exactly the spec walk, ends exhausted
        offs@ == spec_walk(*old(it), old(it).next_tag_offset as int),
        final(it).next_tag_offset == final(it).buffer@.len(),
        final(it).buffer == old(it).buffer,
{
    let ghost mut seen: Seq<int> = Seq::empty();
    let ghost start = *it;
    loop
        invariant
            it.wf(), it.buffer == start.buffer, panics_allowed(), size_of::<H>() == 8,
            seen.add(spec_walk(start, it.next_tag_offset as int)) == spec_walk(start, start.next_tag_offset as int),
        ensures
            it.next_tag_offset == it.buffer@.len(), it.buffer == start.buffer,
            seen == spec_walk(start, start.next_tag_offset as int),
        decreases it.buffer@.len() - it.next_tag_offset,
    {
        let ghost from = it.next_tag_offset as int;
        let ghost before = *it;
        match it.next() {
            None => {
                proof {
                    assert(spec_walk(start, from) =~= Seq::empty());
                    assert(seen.add(Seq::<int>::empty()) =~= seen);
                }
                break;
            }
            Some(t) => {
                proof {
                    let sz = before.hdr_at_off(from).declared_total();
                    assert(start.hdr_at_off(from) == before.hdr_at_off(from));
                    lemma_round8_props(sz);
                    assert(spec_walk(start, from) == seq![from].add(spec_walk(start, from + round8(sz))));
                    assert(seen.push(from).add(spec_walk(start, it.next_tag_offset as int))
                        =~= seen.add(seq![from].add(spec_walk(start, from + round8(sz)))));
                    seen = seen.push(from);
                }
            }
        }
    }
    Ghost(seen)
}


} // verus!

// crate-qualified paths used inside extracted bodies resolve to this file's items (R3)
pub mod multiboot2_common {
    pub use super::*;
}
pub mod multiboot2 {
    pub use super::*;
}
//@include find_glue.rs
