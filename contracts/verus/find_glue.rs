// Unit fragment: `trait Tag` and the typed-getter selection `iter.find(pred)` (C04 / C11
// "the first tag in walk order whose type number matches, and nothing when there is none").
//
// `Iterator::find` is a *provided* trait method: this Verus can neither verify core's body nor
// attach an `assume_specification` to it.  The extraction therefore rewrites the call text
// `ITER.find(CLOSURE)` to `tagiter_find_owned(ITER, CLOSURE)` / `tagiter_find(&mut ITER, CLOSURE)`
// (logged rule Rfind) and this file gives that function a body: core's definition of `find` for an
// iterator that overrides neither `find` nor `try_fold` -- "call `next` until the predicate accepts
// an item" (core::iter::Iterator::find = try_fold(check(pred)), default try_fold = `while let
// Some(x) = self.next()`).  The loop is VERIFIED against the contract of the extracted
// `TagIter::next`; that core's `find` is this loop is a TRUSTED statement about the standard
// library (listed in the evidence), and `impl Iterator for TagIter` is extracted with `onlyfns next`
// so that an override of `find` / `try_fold` / `nth` in /repo loses the anchor (undecided) rather
// than being silently ignored.  The closures keep their body text; their `ensures` lines are
// contract annotations spliced by the template.
verus! {

pub trait Tag: MaybeDynSized {
//@extract multiboot2-common/src/tag.rs :: trait Tag :: type IDType
//@  novis
//@  rewrite /:\s*PartialEq\s*\+\s*Eq\s*;/ => /;/
//@end
//@extract multiboot2-common/src/tag.rs :: trait Tag :: const ID
//@  novis
//@end
}

/// what `next` guarantees about the tag reference it yields for buffer offset `off`
pub open spec fn tag_at<'a, H: Header>(it: TagIter<'a, H>, off: int, t: &'a DynSizedStructure<H>) -> bool {
    &&& dyn_wf(t)
    &&& dyn_hdr(t) == it.hdr_at_off(off)
    &&& ref_addr(t) == slice_addr(it.buffer) + off
    &&& ref_prov(t) == slice_prov(it.buffer)
    &&& val_size(t) as int == round8(it.hdr_at_off(off).declared_total())
}

/// the predicate was evaluated on the tag at offset `off` and answered `b`
pub open spec fn pred_said<'a, H: Header, F: Fn(&&'a DynSizedStructure<H>) -> bool>(pred: F, it: TagIter<'a, H>, off: int, b: bool) -> bool {
    exists|u: &'a DynSizedStructure<H>| tag_at(it, off, u) && pred.ensures((&u,), b)
}

/// C04/C11 selection, relative to the spec walk (C03) from the iterator's current position:
/// the result is the tag at walk position `k`, the predicate accepted it, and rejected every
/// earlier tag of the walk; `None` means it rejected every tag of the walk.
pub open spec fn find_post<'a, H: Header, F: Fn(&&'a DynSizedStructure<H>) -> bool>(it: TagIter<'a, H>, pred: F, r: Option<&'a DynSizedStructure<H>>) -> bool {
    let walk = spec_walk(it, it.next_tag_offset as int);
    match r {
        Some(t) => exists|k: int| 0 <= k < walk.len() && tag_at(it, #[trigger] walk[k], t) && pred.ensures((&t,), true)
            && forall|j: int| 0 <= j < k ==> pred_said(pred, it, #[trigger] walk[j], false),
        None => forall|j: int| 0 <= j < walk.len() ==> pred_said(pred, it, #[trigger] walk[j], false),
    }
}

/// postcondition of `DynSizedStructure::cast` as a predicate (for the `.map(|tag| tag.cast::<T>())` closures)
pub open spec fn cast_post<H: Header, T: MaybeDynSized<Header = H> + ?Sized>(d: &DynSizedStructure<H>, r: &T) -> bool {
    &&& ref_addr(r) == ref_addr(d)
    &&& ref_prov(r) == ref_prov(d)
    &&& val_size(r) == val_size(d)
    &&& val_size(r) as int == round8(dyn_hdr(d).declared_total())
    &&& ref_meta(r) == T::dst_len_spec(&dyn_hdr(d))
    &&& T::dst_len_ok(&dyn_hdr(d))
    &&& tag_wf(r)
}

/// C04 / C11, first sentence, for a typed getter: relative to the spec walk (C03) of the region,
/// `Some(t)`: `t` is the typed view of the FIRST tag of the walk whose header satisfies `matches`
/// (same address, same provenance, in-memory size = its size rounded up to 8, element count as C05);
/// `None`: no tag of the walk satisfies `matches`.
pub open spec fn getter_post<'a, H: Header, T: MaybeDynSized<Header = H> + ?Sized>(it: TagIter<'a, H>, matches: spec_fn(H) -> bool, r: Option<&'a T>) -> bool {
    let walk = spec_walk(it, it.next_tag_offset as int);
    match r {
        Some(t) => exists|k: int| 0 <= k < walk.len() && matches(it.hdr_at_off(#[trigger] walk[k]))
            && ref_addr(t) == slice_addr(it.buffer) + walk[k]
            && ref_prov(t) == slice_prov(it.buffer)
            && val_size(t) as int == round8(it.hdr_at_off(walk[k]).declared_total())
            && ref_meta(t) == T::dst_len_spec(&it.hdr_at_off(walk[k]))
            && T::dst_len_ok(&it.hdr_at_off(walk[k]))
            && tag_wf(t)
            && forall|j: int| 0 <= j < k ==> !matches(it.hdr_at_off(#[trigger] walk[j])),
        None => forall|j: int| 0 <= j < walk.len() ==> !matches(it.hdr_at_off(#[trigger] walk[j])),
    }
}

pub fn tagiter_find<'a, H: Header + 'a, F: Fn(&&'a DynSizedStructure<H>) -> bool>(it: &mut TagIter<'a, H>, pred: F) -> (r: Option<&'a DynSizedStructure<H>>)
    requires
        old(it).wf(), panics_allowed(), size_of::<H>() == 8,
        forall|t: &&'a DynSizedStructure<H>| dyn_wf(*t) ==> pred.requires((t,)),
    ensures
        find_post(*old(it), pred, r),
        final(it).wf(), final(it).buffer == old(it).buffer,
        // the iterator is left just behind the accepted tag (or exhausted): a later call continues the same walk
        r is None ==> final(it).next_tag_offset == final(it).buffer@.len(),
        r is Some ==> final(it).next_tag_offset as int == (ref_addr(r->Some_0) - slice_addr(old(it).buffer)) + val_size(r->Some_0),
{
    let ghost mut seen: Seq<int> = Seq::empty();
    let ghost start = *it;
    let ghost walk = spec_walk(start, start.next_tag_offset as int);
    loop
        invariant
            it.wf(), it.buffer == start.buffer, panics_allowed(), size_of::<H>() == 8,
            start == *old(it), walk == spec_walk(start, start.next_tag_offset as int),
            forall|t: &&'a DynSizedStructure<H>| dyn_wf(*t) ==> pred.requires((t,)),
            seen.add(spec_walk(start, it.next_tag_offset as int)) == walk,
            forall|j: int| 0 <= j < seen.len() ==> pred_said(pred, start, #[trigger] seen[j], false),
        decreases it.buffer@.len() - it.next_tag_offset,
    {
        let ghost from = it.next_tag_offset as int;
        let ghost before = *it;
        match it.next() {
            None => {
                proof {
                    assert(spec_walk(start, from) =~= Seq::empty());
                    assert(seen.add(Seq::<int>::empty()) =~= seen);
                    assert(walk == seen);
                }
                return None;
            }
            Some(t) => {
                proof {
                    let sz = before.hdr_at_off(from).declared_total();
                    assert(start.hdr_at_off(from) == before.hdr_at_off(from));
                    lemma_round8_props(sz);
                    assert(spec_walk(start, from) == seq![from].add(spec_walk(start, from + round8(sz))));
                    assert(seen.push(from).add(spec_walk(start, it.next_tag_offset as int))
                        =~= seen.add(seq![from].add(spec_walk(start, from + round8(sz)))));
                    assert(tag_at(start, from, t));
                    assert(walk[seen.len() as int] == from);
                }
                if pred(&t) {
                    proof {
                        let k = seen.len() as int;
                        assert(0 <= k < walk.len() && tag_at(start, walk[k], t));
                        assert forall|j: int| 0 <= j < k implies pred_said(pred, start, #[trigger] walk[j], false) by {
                            assert(walk[j] == seen[j]);
                        }
                    }
                    return Some(t);
                }
                proof {
                    assert(pred_said(pred, start, from, false));
                    seen = seen.push(from);
                }
            }
        }
    }
}

/// `ITER.find(pred)` on an iterator *value* (a temporary such as `self.tags()`)
pub fn tagiter_find_owned<'a, H: Header + 'a, F: Fn(&&'a DynSizedStructure<H>) -> bool>(it: TagIter<'a, H>, pred: F) -> (r: Option<&'a DynSizedStructure<H>>)
    requires
        it.wf(), panics_allowed(), size_of::<H>() == 8,
        forall|t: &&'a DynSizedStructure<H>| dyn_wf(*t) ==> pred.requires((t,)),
    ensures find_post(it, pred, r),
{
    let mut it = it;
    tagiter_find(&mut it, pred)
}

} // verus!
