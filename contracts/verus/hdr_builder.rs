// Unit fragment: multiboot2_header::Builder (C12), verbatim setters and build().
verus! {

impl HeaderSetSize for Multiboot2BasicHeader {
    /// `set_size`: length := n, checksum recomputed (verified below against the extracted set_size)
    open spec fn spec_set_size(self, n: int) -> Self {
        Multiboot2BasicHeader { header_magic: self.header_magic, arch: self.arch, length: n as u32,
            checksum: spec_checksum(self.header_magic, self.arch, n as u32) }
    }
}
/// the unique checksum satisfying the congruence
pub open spec fn spec_checksum(magic: u32, arch: HeaderTagISA, length: u32) -> u32 {
    ((0x1_0000_0000 - (magic as int + (arch as u32) as int + length as int) % 0x1_0000_0000) % 0x1_0000_0000) as u32
}
pub broadcast proof fn lemma_spec_checksum(magic: u32, arch: HeaderTagISA, length: u32)
    ensures checksum_ok(magic, arch, length, #[trigger] spec_checksum(magic, arch, length)),
{
}

/// trusted layout: an EndHeaderTag value is exactly its 8-byte header (repr(C), first and only field);
/// checked on the compiled type by the engine-K constructor harness
#[verifier::external_body]
pub broadcast proof fn axiom_end_tag_bytes(t: &EndHeaderTag)
    ensures decode::<HeaderTagHeader>(#[trigger] obj_bytes(t)) == t.header, obj_bytes(t).len() == 8,
{
}

/// layout facts (global layout declarations are only visible in the declaring module)
pub proof fn lemma_hdr_layouts()
    ensures size_of::<Multiboot2BasicHeader>() == 16, size_of::<HeaderTagHeader>() == 8, size_of::<EndHeaderTag>() == 8,
{
}


// ---------------------------------------------------------------------------
// C07 / C12: the information-request constructor for ALL list lengths (the Kani harnesses bound
// n <= 4): type 1, the given flags, size 8 + 4n, followed by a byte copy of the request array --
// from the (assumed, C16) contract of new_boxed.
// ---------------------------------------------------------------------------
impl HeaderSetSize for HeaderTagHeader {
    open spec fn spec_set_size(self, n: int) -> Self { HeaderTagHeader { typ: self.typ, flags: self.flags, size: n as u32 } }
}
pub mod hctors {
use super::*;
use std::boxed::Box;
broadcast use {super::seqfold::lemma_concat_push, super::seqfold::lemma_concat_empty};

impl InformationRequestHeaderTag {
//@extract multiboot2-header/src/information_request.rs :: impl InformationRequestHeaderTag :: fn new
//@  ret r
//@  optional
//@  rules R2b
//@  rewrite /slice::from_raw_parts\((\w+)\.cast::<u8>\(\), mem::size_of_val\((\w+)\)\)/ => /bytes_from_raw_parts(\1.cast::<u8>(), mem::size_of_val(\2))/
//@  rewrite /new_boxed\(header, &\[(\w+)\]\)/ => /{ let parts: [&[u8]; 1] = [\1]; proof { assert(parts@ =~= Seq::<&[u8]>::empty().push(\1)); } new_boxed(header, parts.as_slice()) }/
//@  prologue proof { lemma_hdr_layouts(); }
//@  prologue let ghost arg = requests;
//@  spec:
//@    requires
//@        // `requests` is a valid shared slice (type-system guarantee): dereferenceable, 4 bytes per entry
//@        in_prov(ref_prov(requests), ref_addr(requests) as int, val_size(requests) as int), val_size(requests) == 4 * requests@.len(),
//@        8 + 4 * requests@.len() <= u32::MAX,
//@    ensures
//@        tag_wf(&*r),
//@        decode::<HeaderTagHeader>(mem_at(ref_prov(&*r), ref_addr(&*r) as int, 8))
//@            == (HeaderTagHeader { typ: HeaderTagType::InformationRequest, flags: flags, size: (8 + 4 * requests@.len()) as u32 }),
//@        val_size(&*r) as int == round8(8 + 4 * requests@.len() as int),
//@        obj_bytes(&*r).subrange(8, 8 + 4 * requests@.len() as int)
//@            == mem_at(ref_prov(requests), ref_addr(requests) as int, 4 * requests@.len() as int),
//@end
}
} // mod hctors

pub mod hb {
use super::*;
use std::boxed::Box;
use std::vec::Vec;
// Tags stored in the builder and the local end tag are ordinary Rust values:
// references to them are well-formed (type-system guarantee).  Scoped to this
// module so that no other unit's proof can lean on it.
broadcast use {super::axiom_safe_ref_wf, super::seqfold::lemma_concat_push, super::seqfold::lemma_concat_empty, super::seqfold::lemma_flat_push, super::seqfold::lemma_flat_empty, super::seqfold::lemma_all_mult8_push, super::seqfold::lemma_all_mult8_empty, super::lemma_spec_checksum, super::axiom_end_tag_bytes};

//@extract multiboot2-header/src/builder.rs :: struct Builder
//@end

impl Builder {
    /// bytes each present slot contributes, in the order build() documents (s_k = after the first k slots)
    pub open spec fn s0(&self) -> Seq<Seq<u8>> { Seq::empty() }
    pub open spec fn s1(&self) -> Seq<Seq<u8>> { if self.information_request_tag is Some { self.s0().push(obj_bytes(&*self.information_request_tag->Some_0)) } else { self.s0() } }
    pub open spec fn s2(&self) -> Seq<Seq<u8>> { if self.address_tag is Some { self.s1().push(obj_bytes(&self.address_tag->Some_0)) } else { self.s1() } }
    pub open spec fn s3(&self) -> Seq<Seq<u8>> { if self.entry_tag is Some { self.s2().push(obj_bytes(&self.entry_tag->Some_0)) } else { self.s2() } }
    pub open spec fn s4(&self) -> Seq<Seq<u8>> { if self.console_tag is Some { self.s3().push(obj_bytes(&self.console_tag->Some_0)) } else { self.s3() } }
    pub open spec fn s5(&self) -> Seq<Seq<u8>> { if self.framebuffer_tag is Some { self.s4().push(obj_bytes(&self.framebuffer_tag->Some_0)) } else { self.s4() } }
    pub open spec fn s6(&self) -> Seq<Seq<u8>> { if self.module_align_tag is Some { self.s5().push(obj_bytes(&self.module_align_tag->Some_0)) } else { self.s5() } }
    pub open spec fn s7(&self) -> Seq<Seq<u8>> { if self.efi_bs_tag is Some { self.s6().push(obj_bytes(&self.efi_bs_tag->Some_0)) } else { self.s6() } }
    pub open spec fn s8(&self) -> Seq<Seq<u8>> { if self.efi_32_tag is Some { self.s7().push(obj_bytes(&self.efi_32_tag->Some_0)) } else { self.s7() } }
    pub open spec fn s9(&self) -> Seq<Seq<u8>> { if self.efi_64_tag is Some { self.s8().push(obj_bytes(&self.efi_64_tag->Some_0)) } else { self.s8() } }
    pub open spec fn s10(&self) -> Seq<Seq<u8>> { if self.relocatable_tag is Some { self.s9().push(obj_bytes(&self.relocatable_tag->Some_0)) } else { self.s9() } }
    pub open spec fn slots(&self) -> Seq<Seq<u8>> { self.s10() }

//@extract multiboot2-header/src/builder.rs :: impl Builder :: fn new
//@  ret r
//@  spec:
//@    ensures r.arch == arch, r.information_request_tag is None, r.address_tag is None, r.entry_tag is None, r.console_tag is None,
//@        r.framebuffer_tag is None, r.module_align_tag is None, r.efi_bs_tag is None, r.efi_32_tag is None, r.efi_64_tag is None,
//@        r.relocatable_tag is None,
//@end

//@extract multiboot2-header/src/builder.rs :: impl Builder :: fn information_request_tag
//@  ret r
//@  rules R7
//@  spec:
//@    ensures
//@        // C12: the named slot holds the supplied tag (last call wins), every other slot and the architecture are unchanged
//@        r == (Builder { information_request_tag: Some(information_request_tag), ..self }),
//@end

//@extract multiboot2-header/src/builder.rs :: impl Builder :: fn address_tag
//@  ret r
//@  rules R7
//@  spec:
//@    ensures
//@        // C12: the named slot holds the supplied tag (last call wins), every other slot and the architecture are unchanged
//@        r == (Builder { address_tag: Some(address_tag), ..self }),
//@end

//@extract multiboot2-header/src/builder.rs :: impl Builder :: fn entry_tag
//@  ret r
//@  rules R7
//@  spec:
//@    ensures
//@        // C12: the named slot holds the supplied tag (last call wins), every other slot and the architecture are unchanged
//@        r == (Builder { entry_tag: Some(entry_tag), ..self }),
//@end

//@extract multiboot2-header/src/builder.rs :: impl Builder :: fn console_tag
//@  ret r
//@  rules R7
//@  spec:
//@    ensures
//@        // C12: the named slot holds the supplied tag (last call wins), every other slot and the architecture are unchanged
//@        r == (Builder { console_tag: Some(console_tag), ..self }),
//@end

//@extract multiboot2-header/src/builder.rs :: impl Builder :: fn framebuffer_tag
//@  ret r
//@  rules R7
//@  spec:
//@    ensures
//@        // C12: the named slot holds the supplied tag (last call wins), every other slot and the architecture are unchanged
//@        r == (Builder { framebuffer_tag: Some(framebuffer_tag), ..self }),
//@end

//@extract multiboot2-header/src/builder.rs :: impl Builder :: fn module_align_tag
//@  ret r
//@  rules R7
//@  spec:
//@    ensures
//@        // C12: the named slot holds the supplied tag (last call wins), every other slot and the architecture are unchanged
//@        r == (Builder { module_align_tag: Some(module_align_tag), ..self }),
//@end

//@extract multiboot2-header/src/builder.rs :: impl Builder :: fn efi_bs_tag
//@  ret r
//@  rules R7
//@  spec:
//@    ensures
//@        // C12: the named slot holds the supplied tag (last call wins), every other slot and the architecture are unchanged
//@        r == (Builder { efi_bs_tag: Some(efi_bs_tag), ..self }),
//@end

//@extract multiboot2-header/src/builder.rs :: impl Builder :: fn efi_32_tag
//@  ret r
//@  rules R7
//@  spec:
//@    ensures
//@        // C12: the named slot holds the supplied tag (last call wins), every other slot and the architecture are unchanged
//@        r == (Builder { efi_32_tag: Some(efi_32_tag), ..self }),
//@end

//@extract multiboot2-header/src/builder.rs :: impl Builder :: fn efi_64_tag
//@  ret r
//@  rules R7
//@  spec:
//@    ensures
//@        // C12: the named slot holds the supplied tag (last call wins), every other slot and the architecture are unchanged
//@        r == (Builder { efi_64_tag: Some(efi_64_tag), ..self }),
//@end

//@extract multiboot2-header/src/builder.rs :: impl Builder :: fn relocatable_tag
//@  ret r
//@  rules R7
//@  spec:
//@    ensures
//@        // C12: the named slot holds the supplied tag (last call wins), every other slot and the architecture are unchanged
//@        r == (Builder { relocatable_tag: Some(relocatable_tag), ..self }),
//@end

//@extract multiboot2-header/src/builder.rs :: impl Builder :: fn build
//@  ret r
//@  capture BR /let\s+mut\s+(\w+)\s*=\s*Vec::new\(\)/
//@  rewrite /\.as_bytes\(\)\.as_ref\(\)/ => /.as_bytes().vbytes()/ x*
//@  ghoststmt 0 of /\.push\(/ => assert(concat_slices($BR@) == flat(self.s1()) && all_mult8(self.s1()));
//@  ghoststmt 1 of /\.push\(/ => assert(concat_slices($BR@) == flat(self.s2()) && all_mult8(self.s2()));
//@  ghoststmt 2 of /\.push\(/ => assert(concat_slices($BR@) == flat(self.s3()) && all_mult8(self.s3()));
//@  ghoststmt 3 of /\.push\(/ => assert(concat_slices($BR@) == flat(self.s4()) && all_mult8(self.s4()));
//@  ghoststmt 4 of /\.push\(/ => assert(concat_slices($BR@) == flat(self.s5()) && all_mult8(self.s5()));
//@  ghoststmt 5 of /\.push\(/ => assert(concat_slices($BR@) == flat(self.s6()) && all_mult8(self.s6()));
//@  ghoststmt 6 of /\.push\(/ => assert(concat_slices($BR@) == flat(self.s7()) && all_mult8(self.s7()));
//@  ghoststmt 7 of /\.push\(/ => assert(concat_slices($BR@) == flat(self.s8()) && all_mult8(self.s8()));
//@  ghoststmt 8 of /\.push\(/ => assert(concat_slices($BR@) == flat(self.s9()) && all_mult8(self.s9()));
//@  ghoststmt 9 of /\.push\(/ => assert(concat_slices($BR@) == flat(self.s10()) && all_mult8(self.s10()));
//@  ghoststmt 10 of /\.push\(/ => assert(concat_slices($BR@) == flat(self.slots()).add(obj_bytes(&end_tag))); proof { lemma_all_mult8_flat(self.slots()); lemma_round8_props(16 + flat(self.slots()).len() as int + 8); }
//@  rewrite /new_boxed\(header, $BR\.as_slice\(\)\)\s*\}$/ => /let boxed: Box<DynSizedStructure<Multiboot2BasicHeader>> = new_boxed(header, $BR.as_slice());\n        proof { lemma_hdr_layouts(); let eb = obj_bytes(&end_tag); assert(decode::<HeaderTagHeader>(eb) == end_tag.header); assert(eb.len() == 8); assert(concat_slices($BR@).len() == flat(self.slots()).len() + 8); assert(obj_bytes(&*boxed).subrange(16, 16 + flat(self.slots()).len() as int + 8) == flat(self.slots()).add(eb)); }\n        boxed\n    }/
//@  spec:
//@    requires
//@        // the header must be representable: its byte length fits the u32 length field
//@        16 + flat(self.slots()).len() + 8 <= u32::MAX,
//@    ensures
//@        // C12: 8-aligned; magic, chosen architecture, length = byte length, valid checksum
//@        tag_wf(&*r),
//@        val_size(&*r) as int == 16 + flat(self.slots()).len() + 8,
//@        dyn_hdr(&*r).header_magic == 0xE85250D6u32,
//@        dyn_hdr(&*r).arch == self.arch,
//@        dyn_hdr(&*r).length as int == 16 + flat(self.slots()).len() + 8,
//@        checksum_ok(dyn_hdr(&*r).header_magic, dyn_hdr(&*r).arch, dyn_hdr(&*r).length, dyn_hdr(&*r).checksum),
//@        // payload = exactly the supplied tags, byte-identical, in the documented order, followed by
//@        // an end tag (type 0, flags 0, size 8) as the final 8 bytes
//@        exists|end_bytes: Seq<u8>| end_bytes.len() == 8
//@            && #[trigger] decode::<HeaderTagHeader>(end_bytes) == (HeaderTagHeader { typ: HeaderTagType::End, flags: HeaderTagFlag::Required, size: 8 })
//@            && obj_bytes(&*r).subrange(16, 16 + flat(self.slots()).len() as int + 8) == flat(self.slots()).add(end_bytes),
//@end
}

// ---------------------------------------------------------------------------
// C12, mechanised composition (glue code written here; it CALLS the verified build(),
// Multiboot2Header::load(), iter() and -- through walk_collect -- TagIter::next): for every
// builder state whose supplied tags are tags (item_ok), the built header LOADS (so: 8-aligned,
// magic, length, valid checksum -- load's acceptance condition), its architecture is the chosen
// one, and its tag walk visits exactly the supplied tag images in the documented order, each
// byte-identical at its offset, followed by the end tag (type 0, flags 0, size 8) as the last 8 bytes.
// ---------------------------------------------------------------------------
pub fn build_load_walk(b: Builder) -> (res: (Ghost<Seq<int>>, Ghost<Seq<u8>>, Ghost<Seq<u8>>, Ghost<HeaderTagISA>))
    requires
        panics_allowed(),
        16 + flat(b.slots()).len() + 8 <= u32::MAX,
        all_items_ok::<HeaderTagHeader>(b.slots()),
    ensures ({
        let offs = res.0@;        // offsets (relative to the first tag) the real iterator visited
        let payload = res.1@;     // bytes of the loaded header after its 16-byte basic header
        let end_bytes = res.2@;
        let items = b.slots().push(end_bytes);
        &&& end_bytes.len() == 8
        &&& decode::<HeaderTagHeader>(end_bytes) == (HeaderTagHeader { typ: HeaderTagType::End, flags: HeaderTagFlag::Required, size: 8 })
        &&& res.3@ == b.arch
        &&& payload == flat(items)
        &&& offs == item_offs(items, 0)
        &&& offs.len() == b.slots().len() + 1
        &&& forall|k: int| 0 <= k < items.len() ==>
                payload.subrange(flat(items.take(k)).len() as int, (flat(items.take(k)).len() + (#[trigger] items[k]).len()) as int) == items[k]
    }),
{
    let ghost slots = b.slots();
    let ghost arch = b.arch;
    let boxed = b.build();
    let ghost end_bytes: Seq<u8> = choose|e: Seq<u8>| e.len() == 8
        && #[trigger] decode::<HeaderTagHeader>(e) == (HeaderTagHeader { typ: HeaderTagType::End, flags: HeaderTagFlag::Required, size: 8 })
        && obj_bytes(&*boxed).subrange(16, 16 + flat(slots).len() as int + 8) == flat(slots).add(e);
    let ghost items = slots.push(end_bytes);
    let ghost total = 16 + flat(slots).len() as int + 8;
    let ptr = (&*boxed).as_ptr();
    proof {
        lemma_hdr_layouts();
        assert(val_size(&*boxed) as int == total);
        assert(bh_at_cptr(ptr) == dyn_hdr(&*boxed));
        assert(total % 8 == 0) by { lemma_round8_props(16 + ref_meta(&*boxed) as int); }
    }
    let r = unsafe { Multiboot2Header::load(ptr) };
    match r {
        Err(_e) => {
            // unreachable: the contract of load() accepts the built header
            proof { assert(false); }
            (Ghost(Seq::empty()), Ghost(Seq::empty()), Ghost(end_bytes), Ghost(arch))
        }
        Ok(h) => {
            let a = h.arch();
            let mut it = h.iter();
            let ghost it0 = it;
            proof {
                assert(it0.buffer@ =~= obj_bytes(&*boxed).subrange(16, total));
                assert(flat(items) == flat(slots).add(end_bytes));
                assert(it0.buffer@ == flat(items));
                assert(item_ok::<HeaderTagHeader>(end_bytes)) by {
                    assert(end_bytes.subrange(0, 8) =~= end_bytes);
                }
                assert(all_items_ok::<HeaderTagHeader>(items));
                lemma_walk_items::<HeaderTagHeader>(it0, items, 0);
                lemma_flat_take_all(items);
                lemma_item_offs_len(items, 0);
                assert forall|k: int| 0 <= k < items.len() implies
                    it0.buffer@.subrange(flat(items.take(k)).len() as int, (flat(items.take(k)).len() + (#[trigger] items[k]).len()) as int) == items[k] by {
                    lemma_flat_item_at(items, k);
                }
            }
            let offs = walk_collect(&mut it);
            (offs, Ghost(it0.buffer@), Ghost(end_bytes), Ghost(a))
        }
    }
}

} // mod hb

} // verus!
