// Unit fragment: multiboot2-header Builder (C12) and EndHeaderTag::new (C07).
// Struct definitions, setters and build() are extracted verbatim from /repo.
use core::ptr;
verus! {

//@extract multiboot2-header/src/console.rs :: enum ConsoleHeaderTagFlags
//@  keepattrs #\[(derive|repr)
//@  rewrite /#\[derive\([^)]*\)\]/ => /#[derive(Copy, Clone)]/
//@end
//@extract multiboot2-header/src/relocatable.rs :: enum RelocatableHeaderTagPreference
//@  keepattrs #\[(derive|repr)
//@  rewrite /#\[derive\([^)]*\)\]/ => /#[derive(Copy, Clone)]/
//@end

/// multiboot2::TagTypeId re-exported as MbiTagTypeId (4-byte repr(transparent) u32)
pub struct MbiTagTypeId(pub u32);
global layout MbiTagTypeId is size == 4, align == 4;

// ---- AddressHeaderTag (Rust size 24, align 8) ----
//@extract multiboot2-header/src/address.rs :: struct AddressHeaderTag
//@  keepattrs #\[(derive|repr)
//@  rewrite /#\[derive\([^)]*\)\]/ => /#[derive(Copy, Clone)]/
//@end
global layout AddressHeaderTag is size == 24, align == 8;
impl Pointee for AddressHeaderTag {
    type Metadata = ();
}
impl MaybeDynSized for AddressHeaderTag {
    open spec fn layout_size(meta: ()) -> nat { 24 }
    open spec fn dst_len_ok(header: &HeaderTagHeader) -> bool { true }
    open spec fn dst_len_spec(header: &HeaderTagHeader) -> () { () }
    type Header = HeaderTagHeader;
    #[verifier::external_body]
//@extract multiboot2-header/src/address.rs :: impl MaybeDynSized for AddressHeaderTag :: const BASE_SIZE
//@  novis
//@  rewrite /(?<![:\w])size_of::</ => /mem::size_of::</ x*
//@end
//@extractall multiboot2-header/src/address.rs :: impl MaybeDynSized for AddressHeaderTag
//@  const BASE_SIZE: skip
//@  type Header: skip
//@  fn *: rules R2
//@  fn dst_len: novis
//@end
}

// ---- EntryAddressHeaderTag (Rust size 16, align 8) ----
//@extract multiboot2-header/src/entry_address.rs :: struct EntryAddressHeaderTag
//@  keepattrs #\[(derive|repr)
//@  rewrite /#\[derive\([^)]*\)\]/ => /#[derive(Copy, Clone)]/
//@end
global layout EntryAddressHeaderTag is size == 16, align == 8;
impl Pointee for EntryAddressHeaderTag {
    type Metadata = ();
}
impl MaybeDynSized for EntryAddressHeaderTag {
    open spec fn layout_size(meta: ()) -> nat { 16 }
    open spec fn dst_len_ok(header: &HeaderTagHeader) -> bool { true }
    open spec fn dst_len_spec(header: &HeaderTagHeader) -> () { () }
    type Header = HeaderTagHeader;
    #[verifier::external_body]
//@extract multiboot2-header/src/entry_address.rs :: impl MaybeDynSized for EntryAddressHeaderTag :: const BASE_SIZE
//@  novis
//@  rewrite /(?<![:\w])size_of::</ => /mem::size_of::</ x*
//@end
//@extractall multiboot2-header/src/entry_address.rs :: impl MaybeDynSized for EntryAddressHeaderTag
//@  const BASE_SIZE: skip
//@  type Header: skip
//@  fn *: rules R2
//@  fn dst_len: novis
//@end
}

// ---- ConsoleHeaderTag (Rust size 16, align 8) ----
//@extract multiboot2-header/src/console.rs :: struct ConsoleHeaderTag
//@  keepattrs #\[(derive|repr)
//@  rewrite /#\[derive\([^)]*\)\]/ => /#[derive(Copy, Clone)]/
//@end
global layout ConsoleHeaderTag is size == 16, align == 8;
impl Pointee for ConsoleHeaderTag {
    type Metadata = ();
}
impl MaybeDynSized for ConsoleHeaderTag {
    open spec fn layout_size(meta: ()) -> nat { 16 }
    open spec fn dst_len_ok(header: &HeaderTagHeader) -> bool { true }
    open spec fn dst_len_spec(header: &HeaderTagHeader) -> () { () }
    type Header = HeaderTagHeader;
    #[verifier::external_body]
//@extract multiboot2-header/src/console.rs :: impl MaybeDynSized for ConsoleHeaderTag :: const BASE_SIZE
//@  novis
//@  rewrite /(?<![:\w])size_of::</ => /mem::size_of::</ x*
//@end
//@extractall multiboot2-header/src/console.rs :: impl MaybeDynSized for ConsoleHeaderTag
//@  const BASE_SIZE: skip
//@  type Header: skip
//@  fn *: rules R2
//@  fn dst_len: novis
//@end
}

// ---- FramebufferHeaderTag (Rust size 24, align 8) ----
//@extract multiboot2-header/src/framebuffer.rs :: struct FramebufferHeaderTag
//@  keepattrs #\[(derive|repr)
//@  rewrite /#\[derive\([^)]*\)\]/ => /#[derive(Copy, Clone)]/
//@end
global layout FramebufferHeaderTag is size == 24, align == 8;
impl Pointee for FramebufferHeaderTag {
    type Metadata = ();
}
impl MaybeDynSized for FramebufferHeaderTag {
    open spec fn layout_size(meta: ()) -> nat { 24 }
    open spec fn dst_len_ok(header: &HeaderTagHeader) -> bool { true }
    open spec fn dst_len_spec(header: &HeaderTagHeader) -> () { () }
    type Header = HeaderTagHeader;
    #[verifier::external_body]
//@extract multiboot2-header/src/framebuffer.rs :: impl MaybeDynSized for FramebufferHeaderTag :: const BASE_SIZE
//@  novis
//@  rewrite /(?<![:\w])size_of::</ => /mem::size_of::</ x*
//@end
//@extractall multiboot2-header/src/framebuffer.rs :: impl MaybeDynSized for FramebufferHeaderTag
//@  const BASE_SIZE: skip
//@  type Header: skip
//@  fn *: rules R2
//@  fn dst_len: novis
//@end
}

// ---- ModuleAlignHeaderTag (Rust size 8, align 8) ----
//@extract multiboot2-header/src/module_align.rs :: struct ModuleAlignHeaderTag
//@  keepattrs #\[(derive|repr)
//@  rewrite /#\[derive\([^)]*\)\]/ => /#[derive(Copy, Clone)]/
//@end
global layout ModuleAlignHeaderTag is size == 8, align == 8;
impl Pointee for ModuleAlignHeaderTag {
    type Metadata = ();
}
impl MaybeDynSized for ModuleAlignHeaderTag {
    open spec fn layout_size(meta: ()) -> nat { 8 }
    open spec fn dst_len_ok(header: &HeaderTagHeader) -> bool { true }
    open spec fn dst_len_spec(header: &HeaderTagHeader) -> () { () }
    type Header = HeaderTagHeader;
    #[verifier::external_body]
//@extract multiboot2-header/src/module_align.rs :: impl MaybeDynSized for ModuleAlignHeaderTag :: const BASE_SIZE
//@  novis
//@  rewrite /(?<![:\w])size_of::</ => /mem::size_of::</ x*
//@end
//@extractall multiboot2-header/src/module_align.rs :: impl MaybeDynSized for ModuleAlignHeaderTag
//@  const BASE_SIZE: skip
//@  type Header: skip
//@  fn *: rules R2
//@  fn dst_len: novis
//@end
}

// ---- EfiBootServiceHeaderTag (Rust size 8, align 8) ----
//@extract multiboot2-header/src/uefi_bs.rs :: struct EfiBootServiceHeaderTag
//@  keepattrs #\[(derive|repr)
//@  rewrite /#\[derive\([^)]*\)\]/ => /#[derive(Copy, Clone)]/
//@end
global layout EfiBootServiceHeaderTag is size == 8, align == 8;
impl Pointee for EfiBootServiceHeaderTag {
    type Metadata = ();
}
impl MaybeDynSized for EfiBootServiceHeaderTag {
    open spec fn layout_size(meta: ()) -> nat { 8 }
    open spec fn dst_len_ok(header: &HeaderTagHeader) -> bool { true }
    open spec fn dst_len_spec(header: &HeaderTagHeader) -> () { () }
    type Header = HeaderTagHeader;
    #[verifier::external_body]
//@extract multiboot2-header/src/uefi_bs.rs :: impl MaybeDynSized for EfiBootServiceHeaderTag :: const BASE_SIZE
//@  novis
//@  rewrite /(?<![:\w])size_of::</ => /mem::size_of::</ x*
//@end
//@extractall multiboot2-header/src/uefi_bs.rs :: impl MaybeDynSized for EfiBootServiceHeaderTag
//@  const BASE_SIZE: skip
//@  type Header: skip
//@  fn *: rules R2
//@  fn dst_len: novis
//@end
}

// ---- EntryEfi32HeaderTag (Rust size 16, align 8) ----
//@extract multiboot2-header/src/entry_efi_32.rs :: struct EntryEfi32HeaderTag
//@  keepattrs #\[(derive|repr)
//@  rewrite /#\[derive\([^)]*\)\]/ => /#[derive(Copy, Clone)]/
//@end
global layout EntryEfi32HeaderTag is size == 16, align == 8;
impl Pointee for EntryEfi32HeaderTag {
    type Metadata = ();
}
impl MaybeDynSized for EntryEfi32HeaderTag {
    open spec fn layout_size(meta: ()) -> nat { 16 }
    open spec fn dst_len_ok(header: &HeaderTagHeader) -> bool { true }
    open spec fn dst_len_spec(header: &HeaderTagHeader) -> () { () }
    type Header = HeaderTagHeader;
    #[verifier::external_body]
//@extract multiboot2-header/src/entry_efi_32.rs :: impl MaybeDynSized for EntryEfi32HeaderTag :: const BASE_SIZE
//@  novis
//@  rewrite /(?<![:\w])size_of::</ => /mem::size_of::</ x*
//@end
//@extractall multiboot2-header/src/entry_efi_32.rs :: impl MaybeDynSized for EntryEfi32HeaderTag
//@  const BASE_SIZE: skip
//@  type Header: skip
//@  fn *: rules R2
//@  fn dst_len: novis
//@end
}

// ---- EntryEfi64HeaderTag (Rust size 16, align 8) ----
//@extract multiboot2-header/src/entry_efi_64.rs :: struct EntryEfi64HeaderTag
//@  keepattrs #\[(derive|repr)
//@  rewrite /#\[derive\([^)]*\)\]/ => /#[derive(Copy, Clone)]/
//@end
global layout EntryEfi64HeaderTag is size == 16, align == 8;
impl Pointee for EntryEfi64HeaderTag {
    type Metadata = ();
}
impl MaybeDynSized for EntryEfi64HeaderTag {
    open spec fn layout_size(meta: ()) -> nat { 16 }
    open spec fn dst_len_ok(header: &HeaderTagHeader) -> bool { true }
    open spec fn dst_len_spec(header: &HeaderTagHeader) -> () { () }
    type Header = HeaderTagHeader;
    #[verifier::external_body]
//@extract multiboot2-header/src/entry_efi_64.rs :: impl MaybeDynSized for EntryEfi64HeaderTag :: const BASE_SIZE
//@  novis
//@  rewrite /(?<![:\w])size_of::</ => /mem::size_of::</ x*
//@end
//@extractall multiboot2-header/src/entry_efi_64.rs :: impl MaybeDynSized for EntryEfi64HeaderTag
//@  const BASE_SIZE: skip
//@  type Header: skip
//@  fn *: rules R2
//@  fn dst_len: novis
//@end
}

// ---- RelocatableHeaderTag (Rust size 24, align 8) ----
//@extract multiboot2-header/src/relocatable.rs :: struct RelocatableHeaderTag
//@  keepattrs #\[(derive|repr)
//@  rewrite /#\[derive\([^)]*\)\]/ => /#[derive(Copy, Clone)]/
//@end
global layout RelocatableHeaderTag is size == 24, align == 8;
impl Pointee for RelocatableHeaderTag {
    type Metadata = ();
}
impl MaybeDynSized for RelocatableHeaderTag {
    open spec fn layout_size(meta: ()) -> nat { 24 }
    open spec fn dst_len_ok(header: &HeaderTagHeader) -> bool { true }
    open spec fn dst_len_spec(header: &HeaderTagHeader) -> () { () }
    type Header = HeaderTagHeader;
    #[verifier::external_body]
//@extract multiboot2-header/src/relocatable.rs :: impl MaybeDynSized for RelocatableHeaderTag :: const BASE_SIZE
//@  novis
//@  rewrite /(?<![:\w])size_of::</ => /mem::size_of::</ x*
//@end
//@extractall multiboot2-header/src/relocatable.rs :: impl MaybeDynSized for RelocatableHeaderTag
//@  const BASE_SIZE: skip
//@  type Header: skip
//@  fn *: rules R2
//@  fn dst_len: novis
//@end
}

// ---- EndHeaderTag (Rust size 8, align 8) ----
//@extract multiboot2-header/src/end.rs :: struct EndHeaderTag
//@  keepattrs #\[(derive|repr)
//@  rewrite /#\[derive\([^)]*\)\]/ => /#[derive(Copy, Clone)]/
//@end
global layout EndHeaderTag is size == 8, align == 8;
impl Pointee for EndHeaderTag {
    type Metadata = ();
}
impl MaybeDynSized for EndHeaderTag {
    open spec fn layout_size(meta: ()) -> nat { 8 }
    open spec fn dst_len_ok(header: &HeaderTagHeader) -> bool { true }
    open spec fn dst_len_spec(header: &HeaderTagHeader) -> () { () }
    type Header = HeaderTagHeader;
    #[verifier::external_body]
//@extract multiboot2-header/src/end.rs :: impl MaybeDynSized for EndHeaderTag :: const BASE_SIZE
//@  novis
//@  rewrite /(?<![:\w])size_of::</ => /mem::size_of::</ x*
//@end
//@extractall multiboot2-header/src/end.rs :: impl MaybeDynSized for EndHeaderTag
//@  const BASE_SIZE: skip
//@  type Header: skip
//@  fn *: rules R2
//@  fn dst_len: novis
//@end
}

// ---- InformationRequestHeaderTag (DST: fixed part 8, 4-byte elements) ----
//@extract multiboot2-header/src/information_request.rs :: struct InformationRequestHeaderTag
//@end
impl Pointee for InformationRequestHeaderTag {
    type Metadata = usize;
}
//@extract multiboot2-header/src/information_request.rs :: impl MaybeDynSized for InformationRequestHeaderTag :: const BASE_SIZE
//@  rename INFOREQ_BASE_SIZE
//@  execconst @NAME == 8
//@end
impl MaybeDynSized for InformationRequestHeaderTag {
    open spec fn layout_size(meta: usize) -> nat { round8(8 + meta * 4) as nat }
    /// C05: size >= 8 (guaranteed by the walk / trait precondition) and a whole number of 4-byte requests
    open spec fn dst_len_ok(header: &HeaderTagHeader) -> bool { header.size >= 8 && (header.size - 8) % 4 == 0 }
    open spec fn dst_len_spec(header: &HeaderTagHeader) -> usize { ((header.size - 8) / 4) as usize }
    type Header = HeaderTagHeader;
    #[verifier::external_body]
    const BASE_SIZE: usize = INFOREQ_BASE_SIZE;
//@extractall multiboot2-header/src/information_request.rs :: impl MaybeDynSized for InformationRequestHeaderTag
//@  const BASE_SIZE: skip
//@  type Header: skip
//@  fn *: rules R2
//@  fn dst_len: novis
//@  fn dst_len: rewrite /Self::BASE_SIZE/ => /INFOREQ_BASE_SIZE/ x*
//@  fn dst_len: sigrewrite /Self::Metadata/ => /usize/
//@  fn dst_len: prologue proof { assert(size_of::<HeaderTagHeader>() == 8 && size_of::<MbiTagTypeId>() == 4); }
//@end
}

impl InformationRequestHeaderTag {
//@extractall multiboot2-header/src/information_request.rs :: impl InformationRequestHeaderTag
//@  fn *: nocontract
//@  fn *: rules R2b
//@  fn new: skip
//@  fn typ: skip
//@  fn flags: skip
//@end
}

impl HeaderTagHeader {
//@extract multiboot2-header/src/tags.rs :: impl HeaderTagHeader :: fn new
//@  ret r
//@  spec:
//@    ensures r.typ == typ, r.flags == flags, r.size == size,
//@end
//@extract multiboot2-header/src/tags.rs :: impl HeaderTagHeader :: fn size
//@  ret r
//@  spec:
//@    ensures r == self.size,
//@end
}

impl EndHeaderTag {
//@extract multiboot2-header/src/end.rs :: impl EndHeaderTag :: fn new
//@  ret r
//@  prologue proof { assert(size_of::<EndHeaderTag>() == 8); }
//@  spec:
//@    ensures
//@        // C07/C12: the terminator the specification requires: type 0 (End), flags 0 (Required), size 8
//@        r.header.typ == HeaderTagType::End, r.header.flags == HeaderTagFlag::Required, r.header.size == 8,
//@end
}

impl Multiboot2BasicHeader {
//@extract multiboot2-header/src/header.rs :: impl Multiboot2BasicHeader :: fn new
//@  ret r
//@  spec:
//@    ensures r.header_magic == 0xE85250D6u32, r.arch == arch, r.length == length,
//@        checksum_ok(r.header_magic, r.arch, r.length, r.checksum),
//@end
}


} // verus!
