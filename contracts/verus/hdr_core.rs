// Unit fragment: multiboot2-header basic header, header-tag header, load (C09, C10).
verus! {

//@extract multiboot2-header/src/tags.rs :: enum HeaderTagISA
//@  keepattrs #\[(derive|repr)
//@  rewrite /#\[derive\([^)]*\)\]/ => /#[derive(Copy, Clone)]/
//@end
//@extract multiboot2-header/src/tags.rs :: enum HeaderTagType
//@  keepattrs #\[(derive|repr)
//@  rewrite /#\[derive\([^)]*\)\]/ => /#[derive(Copy, Clone, PartialEq, Eq)]/
//@end
//@extract multiboot2-header/src/tags.rs :: enum HeaderTagFlag
//@  keepattrs #\[(derive|repr)
//@  rewrite /#\[derive\([^)]*\)\]/ => /#[derive(Copy, Clone)]/
//@end

//@extract multiboot2-header/src/tags.rs :: struct HeaderTagHeader
//@  keepattrs #\[(derive|repr)
//@  rewrite /#\[derive\([^)]*\)\]/ => /#[derive(Copy, Clone)]/
//@end
global layout HeaderTagHeader is size == 8, align == 4;

impl Header for HeaderTagHeader {
    open spec fn declared_total(&self) -> int { self.size as int }
    proof fn lemma_hdr_layout(&self) {}
//@extractall multiboot2-header/src/tags.rs :: impl Header for HeaderTagHeader
//@end
}

/// `#[derive(PartialEq)]` on a field-less enum is equality of variants (TRUSTED statement about the derive)
impl vstd::std_specs::cmp::PartialEqSpecImpl for HeaderTagType {
    open spec fn obeys_eq_spec() -> bool { true }
    open spec fn eq_spec(&self, other: &HeaderTagType) -> bool { *self == *other }
}

impl HeaderTagHeader {
//@extract multiboot2-header/src/tags.rs :: impl HeaderTagHeader :: fn typ
//@  ret r
//@  spec:
//@    ensures r == self.typ,
//@end
}

//@extract multiboot2-header/src/header.rs :: const MAGIC
//@end

//@extract multiboot2-header/src/header.rs :: enum LoadError
//@  keepattrs #\[derive
//@  rewrite /#\[derive\([^)]*\)\]/ => /#[derive(Copy, Clone, PartialEq, Eq)]/
//@end

//@extract multiboot2-header/src/header.rs :: struct Multiboot2BasicHeader
//@  keepattrs #\[(derive|repr)
//@  rewrite /#\[derive\([^)]*\)\]/ => /#[derive(Copy, Clone)]/
//@end
global layout Multiboot2BasicHeader is size == 16, align == 8;

/// C10: the checksum congruence  magic + architecture + length + checksum == 0 (mod 2^32)
pub open spec fn checksum_ok(magic: u32, arch: HeaderTagISA, length: u32, checksum: u32) -> bool {
    (magic as int + (arch as u32) as int + length as int + checksum as int) % 0x1_0000_0000 == 0
}

impl Multiboot2BasicHeader {
//@extract multiboot2-header/src/header.rs :: impl Multiboot2BasicHeader :: fn calc_checksum
//@  ret r
//@  spec:
//@    ensures
//@        // C10: for ALL magic, both architectures, ALL lengths (total: no panic)
//@        checksum_ok(magic, arch, length, r),
//@        forall|c: u32| checksum_ok(magic, arch, length, c) ==> c == r,
//@end
//@extract multiboot2-header/src/header.rs :: impl Multiboot2BasicHeader :: fn verify_checksum
//@  ret r
//@  spec:
//@    ensures r == checksum_ok(self.header_magic, self.arch, self.length, self.checksum),
//@end
//@extract multiboot2-header/src/header.rs :: impl Multiboot2BasicHeader :: fn length
//@  ret r
//@  spec:
//@    ensures r == self.length,
//@end
//@extract multiboot2-header/src/header.rs :: impl Multiboot2BasicHeader :: fn header_magic
//@  ret r
//@  spec:
//@    ensures r == self.header_magic,
//@end
//@extract multiboot2-header/src/header.rs :: impl Multiboot2BasicHeader :: fn checksum
//@  ret r
//@  spec:
//@    ensures r == self.checksum,
//@end
//@extract multiboot2-header/src/header.rs :: impl Multiboot2BasicHeader :: fn arch
//@  ret r
//@  spec:
//@    ensures r == self.arch,
//@end
}

impl Header for Multiboot2BasicHeader {
    open spec fn declared_total(&self) -> int { self.length as int }
    proof fn lemma_hdr_layout(&self) {}
//@extractall multiboot2-header/src/header.rs :: impl Header for Multiboot2BasicHeader
//@  fn payload_len: rewrite /(?<![:\w])size_of::<Self>\(\)/ => /mem::size_of::<Self>()/ x*
//@  fn set_size: spec:
//@        ensures
//@            // C10/C12: after set_size the header is consistent again: same magic and architecture,
//@            // length = the new size, checksum satisfying the congruence
//@            final(self).header_magic == old(self).header_magic, final(self).arch == old(self).arch,
//@            final(self).length == total_size,
//@            checksum_ok(final(self).header_magic, final(self).arch, final(self).length, final(self).checksum),
//@end
}

//@extract multiboot2-header/src/header.rs :: struct Multiboot2Header
//@end

pub open spec fn bh_at_cptr(p: *const Multiboot2BasicHeader) -> Multiboot2BasicHeader {
    decode::<Multiboot2BasicHeader>(mem_at(p@.provenance, p@.addr as int, 16))
}

impl<'a> Multiboot2Header<'a> {
    pub open spec fn wf(&self) -> bool {
        &&& dyn_wf(self.0)
        &&& dyn_hdr(self.0).length as int == val_size(self.0)
        &&& val_size(self.0) >= 16
    }

//@extract multiboot2-header/src/header.rs :: impl<'a> Multiboot2Header<'a> :: fn load
//@  ret r
//@  rewrite /NonNull::new\(ptr\.cast_mut\(\)\)\.ok_or\(LoadError::Memory\(MemoryError::Null\)\)\?/ => /match NonNull::new(ptr.cast_mut()) { Some(p) => p, None => return Err(LoadError::Memory(MemoryError::Null)) }/
//@  rewrite /DynSizedStructure::ref_from_ptr\(ptr\)\.map_err\(LoadError::Memory\)\?/ => /match DynSizedStructure::ref_from_ptr(ptr) { Ok(i) => i, Err(e) => return Err(LoadError::Memory(e)) }/
//@  rewrite /ptr\.as_ref\(\)/ => /deref_raw(ptr.as_ptr().cast_const())/
//@  rewrite /size_of::<Multiboot2BasicHeader>\(\)/ => /mem::size_of::<Multiboot2BasicHeader>()/
//@  prologue proof { assert(size_of::<Multiboot2BasicHeader>() == 16 && align_of::<Multiboot2BasicHeader>() == 8); }
//@  spec:
//@    requires
//@        // caller's unsafe promise (C10): null, or an 8-aligned 16-byte header followed by the bytes it declares
//@        ptr@.addr != 0 ==> ptr@.addr as int % 8 == 0 && in_prov(ptr@.provenance, ptr@.addr as int, 16)
//@            && in_prov(ptr@.provenance, ptr@.addr as int, bh_at_cptr(ptr).length as int),
//@    ensures
//@        // C10: total; exact acceptance condition and precedence
//@        ptr@.addr == 0 ==> r == Err::<Self, LoadError>(LoadError::Memory(MemoryError::Null)),
//@        ptr@.addr != 0 && bh_at_cptr(ptr).length < 16 ==> r == Err::<Self, LoadError>(LoadError::Memory(MemoryError::ShorterThanHeader)),
//@        ptr@.addr != 0 && bh_at_cptr(ptr).length >= 16 && bh_at_cptr(ptr).length % 8 != 0 ==> r == Err::<Self, LoadError>(LoadError::Memory(MemoryError::MissingPadding)),
//@        ptr@.addr != 0 && bh_at_cptr(ptr).length >= 16 && bh_at_cptr(ptr).length % 8 == 0 && bh_at_cptr(ptr).header_magic != 0xE85250D6u32
//@            ==> r == Err::<Self, LoadError>(LoadError::MagicNotFound),
//@        ptr@.addr != 0 && bh_at_cptr(ptr).length >= 16 && bh_at_cptr(ptr).length % 8 == 0 && bh_at_cptr(ptr).header_magic == 0xE85250D6u32
//@            && !checksum_ok(bh_at_cptr(ptr).header_magic, bh_at_cptr(ptr).arch, bh_at_cptr(ptr).length, bh_at_cptr(ptr).checksum)
//@            ==> r == Err::<Self, LoadError>(LoadError::ChecksumMismatch),
//@        ptr@.addr != 0 && bh_at_cptr(ptr).length >= 16 && bh_at_cptr(ptr).length % 8 == 0 && bh_at_cptr(ptr).header_magic == 0xE85250D6u32
//@            && checksum_ok(bh_at_cptr(ptr).header_magic, bh_at_cptr(ptr).arch, bh_at_cptr(ptr).length, bh_at_cptr(ptr).checksum)
//@            ==> r is Ok,
//@        r is Ok ==> ({
//@            let h = r->Ok_0;
//@            &&& h.wf()
//@            &&& ref_addr(h.0) == ptr@.addr
//@            &&& ref_prov(h.0) == ptr@.provenance
//@            &&& dyn_hdr(h.0) == bh_at_cptr(ptr)
//@        }),
//@end

//@extract multiboot2-header/src/header.rs :: impl<'a> Multiboot2Header<'a> :: fn verify_checksum
//@  ret r
//@  spec:
//@    ensures r == checksum_ok(dyn_hdr(self.0).header_magic, dyn_hdr(self.0).arch, dyn_hdr(self.0).length, dyn_hdr(self.0).checksum),
//@end
//@extract multiboot2-header/src/header.rs :: impl<'a> Multiboot2Header<'a> :: fn header_magic
//@  ret r
//@  spec:
//@    ensures r == dyn_hdr(self.0).header_magic,   // C11: the stored magic
//@end
//@extract multiboot2-header/src/header.rs :: impl<'a> Multiboot2Header<'a> :: fn arch
//@  ret r
//@  spec:
//@    ensures r == dyn_hdr(self.0).arch,
//@end
//@extract multiboot2-header/src/header.rs :: impl<'a> Multiboot2Header<'a> :: fn length
//@  ret r
//@  spec:
//@    ensures r == dyn_hdr(self.0).length,
//@end
//@extract multiboot2-header/src/header.rs :: impl<'a> Multiboot2Header<'a> :: fn checksum
//@  ret r
//@  spec:
//@    ensures r == dyn_hdr(self.0).checksum,
//@end
//@extract multiboot2-header/src/header.rs :: impl<'a> Multiboot2Header<'a> :: fn calc_checksum
//@  ret r
//@  spec:
//@    ensures checksum_ok(magic, arch, length, r),
//@end

//@extract multiboot2-header/src/header.rs :: impl<'a> Multiboot2Header<'a> :: fn iter
//@  ret r
//@  sigrewrite /-> \(r: TagIter\)/ => /-> (r: TagIter<'a, HeaderTagHeader>)/
//@  prologue proof { assert(size_of::<Multiboot2BasicHeader>() == 16); }
//@  spec:
//@    requires self.wf(),
//@    ensures
//@        // C11/C09: the walk starts at offset 16 and covers exactly the declared length
//@        r.wf(), r.next_tag_offset == 0,
//@        slice_addr(r.buffer) == ref_addr(self.0) + 16,
//@        slice_prov(r.buffer) == ref_prov(self.0),
//@        r.buffer@.len() == val_size(self.0) - 16,
//@        hdr_iter(self, r),
//@end

//@extract multiboot2-header/src/header.rs :: impl<'a> Multiboot2Header<'a> :: fn get_tag
//@  ret r
//@  stubonloss
//@  closure 0: |tag: &&'a DynSizedStructure<HeaderTagHeader>| -> (b: bool) ensures b == (dyn_hdr(*tag).typ as u16 == T::ID as u16)
//@  closure 1: |tag: &'a DynSizedStructure<HeaderTagHeader>| -> (c: &'a T) requires dyn_wf(tag) ensures cast_post(tag, c)
//@  rewrite /self\s*\.iter\(\)\s*\.find\(/ => /tagiter_find_owned(self.iter(), /
//@  spec:
//@    requires self.wf(), panics_allowed(),
//@    ensures
//@        // C11: the first tag in walk order whose type is T::ID, viewed as T; nothing when there is none
//@        hdr_getter_post::<T>(self, T::ID as u16, r),
//@end
}

/// "the header tag's type number is `num`"
pub open spec fn htyp_is(num: u16) -> spec_fn(HeaderTagHeader) -> bool {
    |h: HeaderTagHeader| h.typ as u16 == num
}

/// C11: `r` is the typed view of the first tag of the header's walk whose type number is `num`; `None`: there is none
pub open spec fn hdr_getter_post<'a, T: MaybeDynSized<Header = HeaderTagHeader> + ?Sized>(b: &Multiboot2Header<'a>, num: u16, r: Option<&'a T>) -> bool {
    exists|it: TagIter<'a, HeaderTagHeader>| #[trigger] hdr_iter(b, it)
        && getter_post::<HeaderTagHeader, T>(it, htyp_is(num), r)
}

/// the iterator state `iter()` starts from: offset 16 of the header, covering exactly the rest of its declared length
pub open spec fn hdr_iter<'a>(b: &Multiboot2Header<'a>, it: TagIter<'a, HeaderTagHeader>) -> bool {
    &&& it.wf()
    &&& it.next_tag_offset == 0
    &&& slice_addr(it.buffer) == ref_addr(b.0) + 16
    &&& slice_prov(it.buffer) == ref_prov(b.0)
    &&& it.buffer@.len() == val_size(b.0) - 16
}

} // verus!
