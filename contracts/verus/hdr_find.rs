// Unit fragment: Multiboot2Header::find_header (C13), verified for ALL buffer lengths.
//
// Three pieces of the body are outside this Verus and are replaced by logged rewrites:
//  * `S.windows(4)` / `Windows::position(pred)`  ->  `vwindows(S, 4)` returning the glue struct
//    `Windows4`, whose inherent method `position` keeps the call text `windows.position(|vals| ..)`
//    verbatim.  The glue is core's definition (`position` is a provided method; `Windows` overrides
//    neither it nor `try_fold`): evaluate the predicate on the windows `S[i..i+4]`, i = 0, 1, ..,
//    while `i + 4 <= S.len()`, and return the first index it accepts.  The loop is VERIFIED; that
//    core's `windows(4).position(p)` is this loop is a TRUSTED statement about the standard library.
//  * `u32::from_le_bytes(X.try_into().unwrap())`  ->  `le_u32(X)`: trusted primitive whose
//    PRECONDITION `X.len() == 4` is exactly the condition under which the `unwrap` does not panic
//    (find_header is verified in total mode, so the precondition is proved at both call sites) and
//    whose result is the little-endian value of the four bytes (Kani checks this decoding on the
//    compiled code in k_mb2hdr_find_header_small).
//  * closures get annotated headers (rule Rcl); their bodies are verbatim.
// Everything else (`min`, `get(range)`, `map`, `ok_or`, `?`, `try_into().unwrap()` u32 -> usize,
// `checked_add`, `and_then`) is verified against vstd's specifications of the standard library.
verus! {
use vstd::slice::slice_subrange;

/// little-endian u32 at offset `i`
pub open spec fn le32(s: Seq<u8>, i: int) -> u32 {
    (s[i] as u32) | ((s[i + 1] as u32) << 8) | ((s[i + 2] as u32) << 16) | ((s[i + 3] as u32) << 24)
}

#[verifier::external_body]
pub fn le_u32(b: &[u8]) -> (r: u32)
    requires b@.len() == 4,
    ensures r == le32(b@, 0),
{
    u32::from_le_bytes(b.try_into().unwrap())
}

pub struct Windows4<'a> {
    pub s: &'a [u8],
    pub pos: usize,
    pub size: usize,
}

/// `<[u8]>::windows(size)` (panics for size 0)
pub fn vwindows<'a>(s: &'a [u8], size: usize) -> (w: Windows4<'a>)
    requires size > 0,
    ensures w.s == s, w.pos == 0, w.size == size,
{
    Windows4 { s, pos: 0, size }
}

/// the predicate was evaluated on a window with contents `w` and answered `b`
pub open spec fn win_said<F: Fn(&[u8]) -> bool>(pred: F, w: Seq<u8>, b: bool) -> bool {
    exists|u: &[u8]| u@ == w && pred.ensures((u,), b)
}

impl<'a> Windows4<'a> {
    pub fn position<F: Fn(&[u8]) -> bool>(&mut self, pred: F) -> (r: Option<usize>)
        requires
            old(self).pos == 0, old(self).size > 0,
            forall|w: &[u8]| w@.len() == old(self).size ==> pred.requires((w,)),
        ensures
            // windows are S[j..e] with e == j + size, in the order j = 0, 1, ..
            match r {
                Some(i) => i + old(self).size <= old(self).s@.len()
                    && win_said(pred, old(self).s@.subrange(i as int, i + old(self).size), true)
                    && forall|j: int, e: int| #![trigger old(self).s@.subrange(j, e)] 0 <= j < i && e == j + old(self).size ==> win_said(pred, old(self).s@.subrange(j, e), false),
                None => forall|j: int, e: int| #![trigger old(self).s@.subrange(j, e)] 0 <= j && e == j + old(self).size && e <= old(self).s@.len() ==> win_said(pred, old(self).s@.subrange(j, e), false),
            },
    {
        let ghost s0 = self.s@;
        let ghost sz = self.size as int;
        loop
            invariant
                self.s@ == s0, self.size == sz, sz > 0, self.s == old(self).s,
                forall|w: &[u8]| w@.len() == sz ==> pred.requires((w,)),
                forall|j: int, e: int| #![trigger s0.subrange(j, e)] 0 <= j < self.pos && e == j + sz ==> win_said(pred, s0.subrange(j, e), false),
            decreases s0.len() - self.pos,
        {
            if self.size > self.s.len() || self.pos > self.s.len() - self.size {
                return None;
            }
            let i = self.pos;
            let w = slice_subrange(self.s, i, i + self.size);
            self.pos = i + 1;
            if pred(w) {
                return Some(i);
            }
            proof { assert(win_said(pred, s0.subrange(i as int, i + sz), false)); }
        }
    }
}

/// "the magic occurs at offset j of the first n bytes"
/// (phrased over the window `s[0..n][j..j+4]` the search looks at; `lemma_magic_at_plain` proves that this is
/// `le32(s, j) == MAGIC`)
pub open spec fn magic_at(s: Seq<u8>, n: int, j: int) -> bool {
    0 <= j && j + 4 <= n && le32(s.subrange(0, n).subrange(j, j + 4), 0) == MAGIC
}
pub proof fn lemma_magic_at_plain(s: Seq<u8>, n: int, j: int)
    requires 0 <= n <= s.len(),
    ensures magic_at(s, n, j) <==> (0 <= j && j + 4 <= n && le32(s, j) == MAGIC),
{
    if 0 <= j && j + 4 <= n {
        let w = s.subrange(0, n).subrange(j, j + 4);
        assert(w[0] == s[j] && w[1] == s[j + 1] && w[2] == s[j + 2] && w[3] == s[j + 3]);
    }
}
pub open spec fn spec_search_len(len: int) -> int { if len < 8192 { len } else { 8192 } }

impl<'a> Multiboot2Header<'a> {
//@extract multiboot2-header/src/header.rs :: impl<'a> Multiboot2Header<'a> :: fn find_header
//@  ret r
//@  optional
//@  closure 0: |vals: &[u8]| -> (b: bool) requires vals@.len() == 4 ensures b == (le32(vals@, 0) == MAGIC)
//@  closure 1: |bytes: &[u8]| -> (v: u32) requires bytes@.len() == 4 ensures v == le32(bytes@, 0)
//@  closure 2: |end: usize| -> (o: Option<&[u8]>) ensures (magic_index <= end <= buffer@.len()) ==> o is Some && o->Some_0@ == buffer@.subrange(magic_index as int, end as int), !(magic_index <= end <= buffer@.len()) ==> o is None
//@  capture IDX /Some\((\w+)\)\s*=>\s*\{/
//@  ghostafter /Some\(\w+\)\s*=>\s*\{/ => proof { let n = spec_search_len(buffer@.len() as int); assert(magic_at(buffer@, n, $IDX as int)); assert forall|i: int| #![trigger magic_at(buffer@, n, i)] magic_at(buffer@, n, i) && (forall|j: int| 0 <= j < i ==> !magic_at(buffer@, n, j)) implies i == $IDX by { } }   // the index position() returns is THE first occurrence
//@  rewrite /buffer\[0\.\.search_len\]\.windows\(4\)/ => /vwindows(&buffer[0..search_len], 4)/
//@  rewrite /u32::from_le_bytes\((\w+)\.try_into\(\)\.unwrap\(\)\)/ => /le_u32(\1)/ x*
//@  spec:
//@    ensures
//@        // C13, total (no panics_allowed()): for ANY buffer of ANY length
//@        slice_addr(buffer) as int % 8 != 0 ==> r == Err::<Option<(&[u8], u32)>, LoadError>(LoadError::Memory(MemoryError::WrongAlignment)),
//@        slice_addr(buffer) as int % 8 == 0 ==> ({
//@            let n = spec_search_len(buffer@.len() as int);
//@            // "no header" iff the magic does not occur in the first 8192 bytes (or the whole buffer if shorter)
//@            &&& (r == Ok::<Option<(&[u8], u32)>, LoadError>(None)) <==> (forall|j: int| !magic_at(buffer@, n, j))
//@            // with i the first occurrence:
//@            &&& forall|i: int| #![trigger magic_at(buffer@, n, i)] magic_at(buffer@, n, i) && (forall|j: int| 0 <= j < i ==> !magic_at(buffer@, n, j)) ==> ({
//@                let len = le32(buffer@, i + 8);
//@                // misaligned or truncated (length word or declared extent outside the buffer): an error
//@                &&& (i % 8 != 0 || i + 12 > buffer@.len() || i + len > buffer@.len()) ==> r is Err
//@                // otherwise: i together with exactly the sub-slice from i to i + stored length
//@                &&& (i % 8 == 0 && i + 12 <= buffer@.len() && i + len <= buffer@.len()) ==> r is Ok && r->Ok_0 is Some
//@                        && r->Ok_0->Some_0.1 == i && r->Ok_0->Some_0.0@ == buffer@.subrange(i, i + len)
//@            })
//@        }),
//@end
}

} // verus!
