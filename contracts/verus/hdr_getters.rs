// Unit fragment: `impl Tag for <kind>` and the ten typed getters of Multiboot2Header (C11:
// "each typed getter returns the first tag in walk order whose type matches, and nothing when there
// is none").  The type numbers in the postconditions are the Multiboot2 specification's (3.1.x),
// written as literals: a kind whose `Tag::ID` disagrees, or a getter that asks for another kind, fails.
verus! {

impl Tag for InformationRequestHeaderTag {
//@extractall multiboot2-header/src/information_request.rs :: impl Tag for InformationRequestHeaderTag
//@  const ID: novis
//@end
}

impl Tag for AddressHeaderTag {
//@extractall multiboot2-header/src/address.rs :: impl Tag for AddressHeaderTag
//@  const ID: novis
//@end
}

impl Tag for EntryAddressHeaderTag {
//@extractall multiboot2-header/src/entry_address.rs :: impl Tag for EntryAddressHeaderTag
//@  const ID: novis
//@end
}

impl Tag for ConsoleHeaderTag {
//@extractall multiboot2-header/src/console.rs :: impl Tag for ConsoleHeaderTag
//@  const ID: novis
//@end
}

impl Tag for FramebufferHeaderTag {
//@extractall multiboot2-header/src/framebuffer.rs :: impl Tag for FramebufferHeaderTag
//@  const ID: novis
//@end
}

impl Tag for ModuleAlignHeaderTag {
//@extractall multiboot2-header/src/module_align.rs :: impl Tag for ModuleAlignHeaderTag
//@  const ID: novis
//@end
}

impl Tag for EfiBootServiceHeaderTag {
//@extractall multiboot2-header/src/uefi_bs.rs :: impl Tag for EfiBootServiceHeaderTag
//@  const ID: novis
//@end
}

impl Tag for EntryEfi32HeaderTag {
//@extractall multiboot2-header/src/entry_efi_32.rs :: impl Tag for EntryEfi32HeaderTag
//@  const ID: novis
//@end
}

impl Tag for EntryEfi64HeaderTag {
//@extractall multiboot2-header/src/entry_efi_64.rs :: impl Tag for EntryEfi64HeaderTag
//@  const ID: novis
//@end
}

impl Tag for RelocatableHeaderTag {
//@extractall multiboot2-header/src/relocatable.rs :: impl Tag for RelocatableHeaderTag
//@  const ID: novis
//@end
}

impl Tag for EndHeaderTag {
//@extractall multiboot2-header/src/end.rs :: impl Tag for EndHeaderTag
//@  const ID: novis
//@end
}

impl<'a> Multiboot2Header<'a> {
//@extract multiboot2-header/src/header.rs :: impl<'a> Multiboot2Header<'a> :: fn information_request_tag
//@  ret r
//@  optional
//@  spec:
//@    requires self.wf(), panics_allowed(),
//@    ensures hdr_getter_post::<InformationRequestHeaderTag>(self, 1, r),   // specification: type = 1
//@end

//@extract multiboot2-header/src/header.rs :: impl<'a> Multiboot2Header<'a> :: fn address_tag
//@  ret r
//@  optional
//@  spec:
//@    requires self.wf(), panics_allowed(),
//@    ensures hdr_getter_post::<AddressHeaderTag>(self, 2, r),   // specification: type = 2
//@end

//@extract multiboot2-header/src/header.rs :: impl<'a> Multiboot2Header<'a> :: fn entry_address_tag
//@  ret r
//@  optional
//@  spec:
//@    requires self.wf(), panics_allowed(),
//@    ensures hdr_getter_post::<EntryAddressHeaderTag>(self, 3, r),   // specification: type = 3
//@end

//@extract multiboot2-header/src/header.rs :: impl<'a> Multiboot2Header<'a> :: fn console_flags_tag
//@  ret r
//@  optional
//@  spec:
//@    requires self.wf(), panics_allowed(),
//@    ensures hdr_getter_post::<ConsoleHeaderTag>(self, 4, r),   // specification: type = 4
//@end

//@extract multiboot2-header/src/header.rs :: impl<'a> Multiboot2Header<'a> :: fn framebuffer_tag
//@  ret r
//@  optional
//@  spec:
//@    requires self.wf(), panics_allowed(),
//@    ensures hdr_getter_post::<FramebufferHeaderTag>(self, 5, r),   // specification: type = 5
//@end

//@extract multiboot2-header/src/header.rs :: impl<'a> Multiboot2Header<'a> :: fn module_align_tag
//@  ret r
//@  optional
//@  spec:
//@    requires self.wf(), panics_allowed(),
//@    ensures hdr_getter_post::<ModuleAlignHeaderTag>(self, 6, r),   // specification: type = 6
//@end

//@extract multiboot2-header/src/header.rs :: impl<'a> Multiboot2Header<'a> :: fn efi_boot_services_tag
//@  ret r
//@  optional
//@  spec:
//@    requires self.wf(), panics_allowed(),
//@    ensures hdr_getter_post::<EfiBootServiceHeaderTag>(self, 7, r),   // specification: type = 7
//@end

//@extract multiboot2-header/src/header.rs :: impl<'a> Multiboot2Header<'a> :: fn entry_address_efi32_tag
//@  ret r
//@  optional
//@  spec:
//@    requires self.wf(), panics_allowed(),
//@    ensures hdr_getter_post::<EntryEfi32HeaderTag>(self, 8, r),   // specification: type = 8
//@end

//@extract multiboot2-header/src/header.rs :: impl<'a> Multiboot2Header<'a> :: fn entry_address_efi64_tag
//@  ret r
//@  optional
//@  spec:
//@    requires self.wf(), panics_allowed(),
//@    ensures hdr_getter_post::<EntryEfi64HeaderTag>(self, 9, r),   // specification: type = 9
//@end

//@extract multiboot2-header/src/header.rs :: impl<'a> Multiboot2Header<'a> :: fn relocatable_tag
//@  ret r
//@  optional
//@  spec:
//@    requires self.wf(), panics_allowed(),
//@    ensures hdr_getter_post::<RelocatableHeaderTag>(self, 10, r),   // specification: type = 10
//@end

}

} // verus!
