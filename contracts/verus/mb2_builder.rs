// Unit fragment: multiboot2::Builder (C06).  Builder struct, setters and build()
// are extracted verbatim; VBEInfoTag appears as an opaque stub (its contents are
// irrelevant to build(), which treats every tag as bytes).
verus! {

/// opaque stub for multiboot2::VBEInfoTag (784-byte fixed-size tag; nested VBE
/// structures and bitflags! types are not extracted)
#[repr(C, align(8))]
pub struct VBEInfoTag { pub opaque: [u64; 98] }
impl Pointee for VBEInfoTag { type Metadata = (); }
impl MaybeDynSized for VBEInfoTag {
    open spec fn layout_size(meta: ()) -> nat { size_of::<VBEInfoTag>() as nat }
    open spec fn dst_len_ok(header: &TagHeader) -> bool { true }
    open spec fn dst_len_spec(header: &TagHeader) -> () { () }
    type Header = TagHeader;
    #[verifier::external_body]
    const BASE_SIZE: usize = 784;
    fn dst_len(_h: &TagHeader) {}
}

//@extract multiboot2/src/memory_map.rs :: struct BasicMemoryInfoTag
//@  keepattrs #\[repr
//@end
impl Pointee for BasicMemoryInfoTag { type Metadata = (); }
impl MaybeDynSized for BasicMemoryInfoTag {
    open spec fn layout_size(meta: ()) -> nat { size_of::<BasicMemoryInfoTag>() as nat }
    open spec fn dst_len_ok(header: &TagHeader) -> bool { true }
    open spec fn dst_len_spec(header: &TagHeader) -> () { () }
    type Header = TagHeader;
    #[verifier::external_body]
//@extract multiboot2/src/memory_map.rs :: impl MaybeDynSized for BasicMemoryInfoTag :: const BASE_SIZE
//@  novis
//@  rewrite /(?<![:\w])size_of::</ => /mem::size_of::</ x*
//@end
//@extractall multiboot2/src/memory_map.rs :: impl MaybeDynSized for BasicMemoryInfoTag
//@  const BASE_SIZE: skip
//@  type Header: skip
//@  fn *: rules R2
//@  fn dst_len: novis
//@  fn dst_len: sigrewrite /\(_: / => /(_h: /
//@end
}

//@extract multiboot2/src/bootdev.rs :: struct BootdevTag
//@  keepattrs #\[repr
//@end
impl Pointee for BootdevTag { type Metadata = (); }
impl MaybeDynSized for BootdevTag {
    open spec fn layout_size(meta: ()) -> nat { size_of::<BootdevTag>() as nat }
    open spec fn dst_len_ok(header: &TagHeader) -> bool { true }
    open spec fn dst_len_spec(header: &TagHeader) -> () { () }
    type Header = TagHeader;
    #[verifier::external_body]
//@extract multiboot2/src/bootdev.rs :: impl MaybeDynSized for BootdevTag :: const BASE_SIZE
//@  novis
//@  rewrite /(?<![:\w])size_of::</ => /mem::size_of::</ x*
//@end
//@extractall multiboot2/src/bootdev.rs :: impl MaybeDynSized for BootdevTag
//@  const BASE_SIZE: skip
//@  type Header: skip
//@  fn *: rules R2
//@  fn dst_len: novis
//@  fn dst_len: sigrewrite /\(_: / => /(_h: /
//@end
}

//@extract multiboot2/src/apm.rs :: struct ApmTag
//@  keepattrs #\[repr
//@end
impl Pointee for ApmTag { type Metadata = (); }
impl MaybeDynSized for ApmTag {
    open spec fn layout_size(meta: ()) -> nat { size_of::<ApmTag>() as nat }
    open spec fn dst_len_ok(header: &TagHeader) -> bool { true }
    open spec fn dst_len_spec(header: &TagHeader) -> () { () }
    type Header = TagHeader;
    #[verifier::external_body]
//@extract multiboot2/src/apm.rs :: impl MaybeDynSized for ApmTag :: const BASE_SIZE
//@  novis
//@  rewrite /(?<![:\w])size_of::</ => /mem::size_of::</ x*
//@end
//@extractall multiboot2/src/apm.rs :: impl MaybeDynSized for ApmTag
//@  const BASE_SIZE: skip
//@  type Header: skip
//@  fn *: rules R2
//@  fn dst_len: novis
//@  fn dst_len: sigrewrite /\(_: / => /(_h: /
//@end
}

//@extract multiboot2/src/efi.rs :: struct EFISdt32Tag
//@  keepattrs #\[repr
//@end
impl Pointee for EFISdt32Tag { type Metadata = (); }
impl MaybeDynSized for EFISdt32Tag {
    open spec fn layout_size(meta: ()) -> nat { size_of::<EFISdt32Tag>() as nat }
    open spec fn dst_len_ok(header: &TagHeader) -> bool { true }
    open spec fn dst_len_spec(header: &TagHeader) -> () { () }
    type Header = TagHeader;
    #[verifier::external_body]
//@extract multiboot2/src/efi.rs :: impl MaybeDynSized for EFISdt32Tag :: const BASE_SIZE
//@  novis
//@  rewrite /(?<![:\w])size_of::</ => /mem::size_of::</ x*
//@end
//@extractall multiboot2/src/efi.rs :: impl MaybeDynSized for EFISdt32Tag
//@  const BASE_SIZE: skip
//@  type Header: skip
//@  fn *: rules R2
//@  fn dst_len: novis
//@  fn dst_len: sigrewrite /\(_: / => /(_h: /
//@end
}

//@extract multiboot2/src/efi.rs :: struct EFISdt64Tag
//@  keepattrs #\[repr
//@end
impl Pointee for EFISdt64Tag { type Metadata = (); }
impl MaybeDynSized for EFISdt64Tag {
    open spec fn layout_size(meta: ()) -> nat { size_of::<EFISdt64Tag>() as nat }
    open spec fn dst_len_ok(header: &TagHeader) -> bool { true }
    open spec fn dst_len_spec(header: &TagHeader) -> () { () }
    type Header = TagHeader;
    #[verifier::external_body]
//@extract multiboot2/src/efi.rs :: impl MaybeDynSized for EFISdt64Tag :: const BASE_SIZE
//@  novis
//@  rewrite /(?<![:\w])size_of::</ => /mem::size_of::</ x*
//@end
//@extractall multiboot2/src/efi.rs :: impl MaybeDynSized for EFISdt64Tag
//@  const BASE_SIZE: skip
//@  type Header: skip
//@  fn *: rules R2
//@  fn dst_len: novis
//@  fn dst_len: sigrewrite /\(_: / => /(_h: /
//@end
}

//@extract multiboot2/src/rsdp.rs :: struct RsdpV1Tag
//@  keepattrs #\[repr
//@end
impl Pointee for RsdpV1Tag { type Metadata = (); }
impl MaybeDynSized for RsdpV1Tag {
    open spec fn layout_size(meta: ()) -> nat { size_of::<RsdpV1Tag>() as nat }
    open spec fn dst_len_ok(header: &TagHeader) -> bool { true }
    open spec fn dst_len_spec(header: &TagHeader) -> () { () }
    type Header = TagHeader;
    #[verifier::external_body]
//@extract multiboot2/src/rsdp.rs :: impl MaybeDynSized for RsdpV1Tag :: const BASE_SIZE
//@  novis
//@  rewrite /(?<![:\w])size_of::</ => /mem::size_of::</ x*
//@end
//@extractall multiboot2/src/rsdp.rs :: impl MaybeDynSized for RsdpV1Tag
//@  const BASE_SIZE: skip
//@  type Header: skip
//@  fn *: rules R2
//@  fn dst_len: novis
//@  fn dst_len: sigrewrite /\(_: / => /(_h: /
//@end
}

//@extract multiboot2/src/rsdp.rs :: struct RsdpV2Tag
//@  keepattrs #\[repr
//@end
impl Pointee for RsdpV2Tag { type Metadata = (); }
impl MaybeDynSized for RsdpV2Tag {
    open spec fn layout_size(meta: ()) -> nat { size_of::<RsdpV2Tag>() as nat }
    open spec fn dst_len_ok(header: &TagHeader) -> bool { true }
    open spec fn dst_len_spec(header: &TagHeader) -> () { () }
    type Header = TagHeader;
    #[verifier::external_body]
//@extract multiboot2/src/rsdp.rs :: impl MaybeDynSized for RsdpV2Tag :: const BASE_SIZE
//@  novis
//@  rewrite /(?<![:\w])size_of::</ => /mem::size_of::</ x*
//@end
//@extractall multiboot2/src/rsdp.rs :: impl MaybeDynSized for RsdpV2Tag
//@  const BASE_SIZE: skip
//@  type Header: skip
//@  fn *: rules R2
//@  fn dst_len: novis
//@  fn dst_len: sigrewrite /\(_: / => /(_h: /
//@end
}

//@extract multiboot2/src/efi.rs :: struct EFIBootServicesNotExitedTag
//@  keepattrs #\[repr
//@end
impl Pointee for EFIBootServicesNotExitedTag { type Metadata = (); }
impl MaybeDynSized for EFIBootServicesNotExitedTag {
    open spec fn layout_size(meta: ()) -> nat { size_of::<EFIBootServicesNotExitedTag>() as nat }
    open spec fn dst_len_ok(header: &TagHeader) -> bool { true }
    open spec fn dst_len_spec(header: &TagHeader) -> () { () }
    type Header = TagHeader;
    #[verifier::external_body]
//@extract multiboot2/src/efi.rs :: impl MaybeDynSized for EFIBootServicesNotExitedTag :: const BASE_SIZE
//@  novis
//@  rewrite /(?<![:\w])size_of::</ => /mem::size_of::</ x*
//@end
//@extractall multiboot2/src/efi.rs :: impl MaybeDynSized for EFIBootServicesNotExitedTag
//@  const BASE_SIZE: skip
//@  type Header: skip
//@  fn *: rules R2
//@  fn dst_len: novis
//@  fn dst_len: sigrewrite /\(_: / => /(_h: /
//@end
}

//@extract multiboot2/src/efi.rs :: struct EFIImageHandle32Tag
//@  keepattrs #\[repr
//@end
impl Pointee for EFIImageHandle32Tag { type Metadata = (); }
impl MaybeDynSized for EFIImageHandle32Tag {
    open spec fn layout_size(meta: ()) -> nat { size_of::<EFIImageHandle32Tag>() as nat }
    open spec fn dst_len_ok(header: &TagHeader) -> bool { true }
    open spec fn dst_len_spec(header: &TagHeader) -> () { () }
    type Header = TagHeader;
    #[verifier::external_body]
//@extract multiboot2/src/efi.rs :: impl MaybeDynSized for EFIImageHandle32Tag :: const BASE_SIZE
//@  novis
//@  rewrite /(?<![:\w])size_of::</ => /mem::size_of::</ x*
//@end
//@extractall multiboot2/src/efi.rs :: impl MaybeDynSized for EFIImageHandle32Tag
//@  const BASE_SIZE: skip
//@  type Header: skip
//@  fn *: rules R2
//@  fn dst_len: novis
//@  fn dst_len: sigrewrite /\(_: / => /(_h: /
//@end
}

//@extract multiboot2/src/efi.rs :: struct EFIImageHandle64Tag
//@  keepattrs #\[repr
//@end
impl Pointee for EFIImageHandle64Tag { type Metadata = (); }
impl MaybeDynSized for EFIImageHandle64Tag {
    open spec fn layout_size(meta: ()) -> nat { size_of::<EFIImageHandle64Tag>() as nat }
    open spec fn dst_len_ok(header: &TagHeader) -> bool { true }
    open spec fn dst_len_spec(header: &TagHeader) -> () { () }
    type Header = TagHeader;
    #[verifier::external_body]
//@extract multiboot2/src/efi.rs :: impl MaybeDynSized for EFIImageHandle64Tag :: const BASE_SIZE
//@  novis
//@  rewrite /(?<![:\w])size_of::</ => /mem::size_of::</ x*
//@end
//@extractall multiboot2/src/efi.rs :: impl MaybeDynSized for EFIImageHandle64Tag
//@  const BASE_SIZE: skip
//@  type Header: skip
//@  fn *: rules R2
//@  fn dst_len: novis
//@  fn dst_len: sigrewrite /\(_: / => /(_h: /
//@end
}

//@extract multiboot2/src/image_load_addr.rs :: struct ImageLoadPhysAddrTag
//@  keepattrs #\[repr
//@end
impl Pointee for ImageLoadPhysAddrTag { type Metadata = (); }
impl MaybeDynSized for ImageLoadPhysAddrTag {
    open spec fn layout_size(meta: ()) -> nat { size_of::<ImageLoadPhysAddrTag>() as nat }
    open spec fn dst_len_ok(header: &TagHeader) -> bool { true }
    open spec fn dst_len_spec(header: &TagHeader) -> () { () }
    type Header = TagHeader;
    #[verifier::external_body]
//@extract multiboot2/src/image_load_addr.rs :: impl MaybeDynSized for ImageLoadPhysAddrTag :: const BASE_SIZE
//@  novis
//@  rewrite /(?<![:\w])size_of::</ => /mem::size_of::</ x*
//@end
//@extractall multiboot2/src/image_load_addr.rs :: impl MaybeDynSized for ImageLoadPhysAddrTag
//@  const BASE_SIZE: skip
//@  type Header: skip
//@  fn *: rules R2
//@  fn dst_len: novis
//@  fn dst_len: sigrewrite /\(_: / => /(_h: /
//@end
}

impl Pointee for EndTag { type Metadata = (); }
impl MaybeDynSized for EndTag {
    open spec fn layout_size(meta: ()) -> nat { 8 }
    open spec fn dst_len_ok(header: &TagHeader) -> bool { true }
    open spec fn dst_len_spec(header: &TagHeader) -> () { () }
    type Header = TagHeader;
    #[verifier::external_body]
//@extract multiboot2/src/end.rs :: impl MaybeDynSized for EndTag :: const BASE_SIZE
//@  novis
//@end
//@extractall multiboot2/src/end.rs :: impl MaybeDynSized for EndTag
//@  const BASE_SIZE: skip
//@  type Header: skip
//@  fn *: rules R2
//@  fn dst_len: novis
//@  fn dst_len: sigrewrite /\(_: / => /(_h: /
//@end
}

impl vstd::std_specs::convert::FromSpecImpl<TagTypeId> for TagType {
    open spec fn obeys_from_spec() -> bool { true }
    open spec fn from_spec(t: TagTypeId) -> TagType { spec_tag_type(t.0) }
}
impl From<TagTypeId> for TagType {
//@extract multiboot2/src/tag_type.rs :: mod intermediate_conversion_impls :: impl From<TagTypeId> for TagType :: fn from
//@  novis
//@end
}

impl TagHeader {
//@extract multiboot2/src/tag.rs :: impl TagHeader :: fn new
//@  ret r
//@  sigrewrite /typ: impl Into<TagTypeId>/ => /typ: TagType/
//@  rewrite /typ\.into\(\)/ => /TagTypeId(u32::from(typ))/
//@  spec:
//@    ensures r.typ.0 == spec_tag_num(typ), r.size == size,
//@end
}

impl EndTag {
// `impl Default for EndTag` (R4)
//@extract multiboot2/src/end.rs :: impl Default for EndTag :: fn default
//@  ret r
//@  rewrite /Self::ID/ => /ENDTAG_ID/
//@  prologue proof { assert(size_of::<EndTag>() == 8); }
//@  spec:
//@    ensures r.header.typ.0 == 0, r.header.size == 8,   // C06: the end tag: type 0, size 8
//@end
}

impl BootInformationHeader {
//@extract multiboot2/src/boot_information.rs :: impl BootInformationHeader :: fn new
//@  ret r
//@  spec:
//@    ensures r.total_size == total_size, r._reserved == 0,
//@end
}
impl HeaderSetSize for BootInformationHeader {
    open spec fn spec_set_size(self, n: int) -> Self { BootInformationHeader { total_size: n as u32, _reserved: self._reserved } }
}

/// layout facts for the submodule (global layout declarations are only visible in the declaring module)
pub proof fn lemma_mb2_layouts()
    ensures size_of::<BootInformationHeader>() == 8, size_of::<TagHeader>() == 8, size_of::<EndTag>() == 8,
{
}
/// trusted layout: an EndTag value is exactly its 8-byte header (checked by the engine-K constructor harness)
#[verifier::external_body]
pub broadcast proof fn axiom_mb2_end_tag_bytes(t: &EndTag)
    ensures decode::<TagHeader>(#[trigger] obj_bytes(t)) == t.header, obj_bytes(t).len() == 8,
{
}

pub mod mb {
use super::*;
use std::boxed::Box;
use std::vec::Vec;
broadcast use {super::axiom_safe_ref_wf, super::seqfold::lemma_concat_push, super::seqfold::lemma_concat_empty, super::seqfold::lemma_flat_push,
    super::seqfold::lemma_flat_empty, super::seqfold::lemma_all_mult8_push, super::seqfold::lemma_all_mult8_empty, super::seqfold::lemma_push_upto_step,
    super::seqfold::lemma_push_upto_zero, super::axiom_mb2_end_tag_bytes};

//@extract multiboot2/src/builder.rs :: struct Builder
//@end

impl Builder {
    pub open spec fn mods(&self) -> Seq<Seq<u8>> { Seq::new(self.modules@.len(), |j: int| obj_bytes(&*self.modules@[j])) }
    pub open spec fn smbs(&self) -> Seq<Seq<u8>> { Seq::new(self.smbios@.len(), |j: int| obj_bytes(&*self.smbios@[j])) }
    pub open spec fn custs(&self) -> Seq<Seq<u8>> { Seq::new(self.custom_tags@.len(), |j: int| obj_bytes(&*self.custom_tags@[j])) }
    /// bytes contributed after the first k slots, in the order build() documents:
    /// single-valued kinds once, repeatable kinds (modules, SMBIOS, custom tags) all of them in call order
    pub open spec fn s0(&self) -> Seq<Seq<u8>> { Seq::empty() }
    pub open spec fn s1(&self) -> Seq<Seq<u8>> { if self.cmdline is Some { self.s0().push(obj_bytes(&*self.cmdline->Some_0)) } else { self.s0() } }
    pub open spec fn s2(&self) -> Seq<Seq<u8>> { if self.bootloader is Some { self.s1().push(obj_bytes(&*self.bootloader->Some_0)) } else { self.s1() } }
    pub open spec fn s3(&self) -> Seq<Seq<u8>> { push_upto(self.s2(), self.mods(), self.mods().len() as int) }
    pub open spec fn s4(&self) -> Seq<Seq<u8>> { if self.meminfo is Some { self.s3().push(obj_bytes(&self.meminfo->Some_0)) } else { self.s3() } }
    pub open spec fn s5(&self) -> Seq<Seq<u8>> { if self.bootdev is Some { self.s4().push(obj_bytes(&self.bootdev->Some_0)) } else { self.s4() } }
    pub open spec fn s6(&self) -> Seq<Seq<u8>> { if self.mmap is Some { self.s5().push(obj_bytes(&*self.mmap->Some_0)) } else { self.s5() } }
    pub open spec fn s7(&self) -> Seq<Seq<u8>> { if self.vbe is Some { self.s6().push(obj_bytes(&self.vbe->Some_0)) } else { self.s6() } }
    pub open spec fn s8(&self) -> Seq<Seq<u8>> { if self.framebuffer is Some { self.s7().push(obj_bytes(&*self.framebuffer->Some_0)) } else { self.s7() } }
    pub open spec fn s9(&self) -> Seq<Seq<u8>> { if self.elf_sections is Some { self.s8().push(obj_bytes(&*self.elf_sections->Some_0)) } else { self.s8() } }
    pub open spec fn s10(&self) -> Seq<Seq<u8>> { if self.apm is Some { self.s9().push(obj_bytes(&self.apm->Some_0)) } else { self.s9() } }
    pub open spec fn s11(&self) -> Seq<Seq<u8>> { if self.efi32 is Some { self.s10().push(obj_bytes(&self.efi32->Some_0)) } else { self.s10() } }
    pub open spec fn s12(&self) -> Seq<Seq<u8>> { if self.efi64 is Some { self.s11().push(obj_bytes(&self.efi64->Some_0)) } else { self.s11() } }
    pub open spec fn s13(&self) -> Seq<Seq<u8>> { push_upto(self.s12(), self.smbs(), self.smbs().len() as int) }
    pub open spec fn s14(&self) -> Seq<Seq<u8>> { if self.rsdpv1 is Some { self.s13().push(obj_bytes(&self.rsdpv1->Some_0)) } else { self.s13() } }
    pub open spec fn s15(&self) -> Seq<Seq<u8>> { if self.rsdpv2 is Some { self.s14().push(obj_bytes(&self.rsdpv2->Some_0)) } else { self.s14() } }
    pub open spec fn s16(&self) -> Seq<Seq<u8>> { if self.network is Some { self.s15().push(obj_bytes(&*self.network->Some_0)) } else { self.s15() } }
    pub open spec fn s17(&self) -> Seq<Seq<u8>> { if self.efi_mmap is Some { self.s16().push(obj_bytes(&*self.efi_mmap->Some_0)) } else { self.s16() } }
    pub open spec fn s18(&self) -> Seq<Seq<u8>> { if self.efi_bs is Some { self.s17().push(obj_bytes(&self.efi_bs->Some_0)) } else { self.s17() } }
    pub open spec fn s19(&self) -> Seq<Seq<u8>> { if self.efi32_ih is Some { self.s18().push(obj_bytes(&self.efi32_ih->Some_0)) } else { self.s18() } }
    pub open spec fn s20(&self) -> Seq<Seq<u8>> { if self.efi64_ih is Some { self.s19().push(obj_bytes(&self.efi64_ih->Some_0)) } else { self.s19() } }
    pub open spec fn s21(&self) -> Seq<Seq<u8>> { if self.image_load_addr is Some { self.s20().push(obj_bytes(&self.image_load_addr->Some_0)) } else { self.s20() } }
    pub open spec fn s22(&self) -> Seq<Seq<u8>> { push_upto(self.s21(), self.custs(), self.custs().len() as int) }
    pub open spec fn slots(&self) -> Seq<Seq<u8>> { self.s22() }

//@extract multiboot2/src/builder.rs :: impl Builder :: fn new
//@  ret r
//@  rewrite /vec!\[\]/ => /Vec::new()/ x3
//@  spec:
//@    ensures r.slots() =~= Seq::<Seq<u8>>::empty(),
//@        r.modules@.len() == 0, r.smbios@.len() == 0, r.custom_tags@.len() == 0,
//@end

//@extract multiboot2/src/builder.rs :: impl Builder :: fn cmdline
//@  ret r
//@  rules R7
//@  spec:
//@    ensures r == (Builder { cmdline: Some(cmdline), ..self }),   // C06: last call wins; every other slot unchanged
//@end

//@extract multiboot2/src/builder.rs :: impl Builder :: fn bootloader
//@  ret r
//@  rules R7
//@  spec:
//@    ensures r == (Builder { bootloader: Some(bootloader), ..self }),   // C06: last call wins; every other slot unchanged
//@end

//@extract multiboot2/src/builder.rs :: impl Builder :: fn meminfo
//@  ret r
//@  rules R7
//@  spec:
//@    ensures r == (Builder { meminfo: Some(meminfo), ..self }),   // C06: last call wins; every other slot unchanged
//@end

//@extract multiboot2/src/builder.rs :: impl Builder :: fn bootdev
//@  ret r
//@  rules R7
//@  spec:
//@    ensures r == (Builder { bootdev: Some(bootdev), ..self }),   // C06: last call wins; every other slot unchanged
//@end

//@extract multiboot2/src/builder.rs :: impl Builder :: fn mmap
//@  ret r
//@  rules R7
//@  spec:
//@    ensures r == (Builder { mmap: Some(mmap), ..self }),   // C06: last call wins; every other slot unchanged
//@end

//@extract multiboot2/src/builder.rs :: impl Builder :: fn vbe
//@  ret r
//@  rules R7
//@  spec:
//@    ensures r == (Builder { vbe: Some(vbe), ..self }),   // C06: last call wins; every other slot unchanged
//@end

//@extract multiboot2/src/builder.rs :: impl Builder :: fn framebuffer
//@  ret r
//@  rules R7
//@  spec:
//@    ensures r == (Builder { framebuffer: Some(framebuffer), ..self }),   // C06: last call wins; every other slot unchanged
//@end

//@extract multiboot2/src/builder.rs :: impl Builder :: fn elf_sections
//@  ret r
//@  rules R7
//@  spec:
//@    ensures r == (Builder { elf_sections: Some(elf_sections), ..self }),   // C06: last call wins; every other slot unchanged
//@end

//@extract multiboot2/src/builder.rs :: impl Builder :: fn apm
//@  ret r
//@  rules R7
//@  spec:
//@    ensures r == (Builder { apm: Some(apm), ..self }),   // C06: last call wins; every other slot unchanged
//@end

//@extract multiboot2/src/builder.rs :: impl Builder :: fn efi32
//@  ret r
//@  rules R7
//@  spec:
//@    ensures r == (Builder { efi32: Some(efi32), ..self }),   // C06: last call wins; every other slot unchanged
//@end

//@extract multiboot2/src/builder.rs :: impl Builder :: fn efi64
//@  ret r
//@  rules R7
//@  spec:
//@    ensures r == (Builder { efi64: Some(efi64), ..self }),   // C06: last call wins; every other slot unchanged
//@end

//@extract multiboot2/src/builder.rs :: impl Builder :: fn rsdpv1
//@  ret r
//@  rules R7
//@  spec:
//@    ensures r == (Builder { rsdpv1: Some(rsdpv1), ..self }),   // C06: last call wins; every other slot unchanged
//@end

//@extract multiboot2/src/builder.rs :: impl Builder :: fn rsdpv2
//@  ret r
//@  rules R7
//@  spec:
//@    ensures r == (Builder { rsdpv2: Some(rsdpv2), ..self }),   // C06: last call wins; every other slot unchanged
//@end

//@extract multiboot2/src/builder.rs :: impl Builder :: fn efi_mmap
//@  ret r
//@  rules R7
//@  spec:
//@    ensures r == (Builder { efi_mmap: Some(efi_mmap), ..self }),   // C06: last call wins; every other slot unchanged
//@end

//@extract multiboot2/src/builder.rs :: impl Builder :: fn network
//@  ret r
//@  rules R7
//@  spec:
//@    ensures r == (Builder { network: Some(network), ..self }),   // C06: last call wins; every other slot unchanged
//@end

//@extract multiboot2/src/builder.rs :: impl Builder :: fn efi_bs
//@  ret r
//@  rules R7
//@  spec:
//@    ensures r == (Builder { efi_bs: Some(efi_bs), ..self }),   // C06: last call wins; every other slot unchanged
//@end

//@extract multiboot2/src/builder.rs :: impl Builder :: fn efi32_ih
//@  ret r
//@  rules R7
//@  spec:
//@    ensures r == (Builder { efi32_ih: Some(efi32_ih), ..self }),   // C06: last call wins; every other slot unchanged
//@end

//@extract multiboot2/src/builder.rs :: impl Builder :: fn efi64_ih
//@  ret r
//@  rules R7
//@  spec:
//@    ensures r == (Builder { efi64_ih: Some(efi64_ih), ..self }),   // C06: last call wins; every other slot unchanged
//@end

//@extract multiboot2/src/builder.rs :: impl Builder :: fn image_load_addr
//@  ret r
//@  rules R7
//@  spec:
//@    ensures r == (Builder { image_load_addr: Some(image_load_addr), ..self }),   // C06: last call wins; every other slot unchanged
//@end

//@extract multiboot2/src/builder.rs :: impl Builder :: fn add_module
//@  ret r
//@  rules R7
//@  spec:
//@    ensures r.modules@ == self.modules@.push(module),   // C06: repeatable kind: appended in call order
//@        r == (Builder { modules: r.modules, ..self }),
//@end

//@extract multiboot2/src/builder.rs :: impl Builder :: fn add_smbios
//@  ret r
//@  rules R7
//@  spec:
//@    ensures r.smbios@ == self.smbios@.push(smbios),   // C06: repeatable kind: appended in call order
//@        r == (Builder { smbios: r.smbios, ..self }),
//@end

//@extract multiboot2/src/builder.rs :: impl Builder :: fn add_custom_tag
//@  ret r
//@  rules R7
//@  rewrite /custom_tag\.header\(\)\.typ\.into\(\)/ => /TagType::from(custom_tag.header().typ)/
//@  spec:
//@    requires panics_allowed(),
//@    ensures
//@        // only custom types are accepted (controlled panic otherwise)
//@        dyn_hdr(&*custom_tag).typ.0 > 21,
//@        r.custom_tags@ == self.custom_tags@.push(custom_tag),
//@        r == (Builder { custom_tags: r.custom_tags, ..self }),
//@end

//@extract multiboot2/src/builder.rs :: impl Builder :: fn build
//@  ret r
//@  capture BR /let\s+mut\s+(\w+)\s*=\s*Vec::new\(\)/
//@  rewrite /\.as_bytes\(\)\.as_ref\(\)/ => /.as_bytes().vbytes()/ x*
//@  rewrite /for (\w+) in &self\.modules\b/ => /for \1 in it: &self.modules/
//@  rewrite /for (\w+) in &self\.smbios\b/ => /for \1 in it: &self.smbios/
//@  rewrite /for (\w+) in &self\.custom_tags\b/ => /for \1 in it: &self.custom_tags/
//@  rewrite /new_boxed\(header, $BR\.as_slice\(\)\)\s*\}$/ => /let boxed: Box<DynSizedStructure<BootInformationHeader>> = new_boxed(header, $BR.as_slice());\n        proof { lemma_mb2_layouts(); let eb = obj_bytes(&end_tag); assert(decode::<TagHeader>(eb) == end_tag.header); assert(eb.len() == 8); assert(concat_slices($BR@).len() == flat(self.slots()).len() + 8); assert(obj_bytes(&*boxed).subrange(8, 8 + flat(self.slots()).len() as int + 8) == flat(self.slots()).add(eb)); }\n        boxed\n    }/
//@  ghoststmt 0 of /\.push\(/ => assert(concat_slices($BR@) == flat(self.s1()) && all_mult8(self.s1()));
//@  ghoststmt 1 of /\.push\(/ => assert(concat_slices($BR@) == flat(self.s2()) && all_mult8(self.s2()));
//@  ghoststmt 2 of /\.push\(/ => assert(concat_slices($BR@) == flat(self.s3()) && all_mult8(self.s3()));
//@  ghoststmt 3 of /\.push\(/ => assert(concat_slices($BR@) == flat(self.s4()) && all_mult8(self.s4()));
//@  ghoststmt 4 of /\.push\(/ => assert(concat_slices($BR@) == flat(self.s5()) && all_mult8(self.s5()));
//@  ghoststmt 5 of /\.push\(/ => assert(concat_slices($BR@) == flat(self.s6()) && all_mult8(self.s6()));
//@  ghoststmt 6 of /\.push\(/ => assert(concat_slices($BR@) == flat(self.s7()) && all_mult8(self.s7()));
//@  ghoststmt 7 of /\.push\(/ => assert(concat_slices($BR@) == flat(self.s8()) && all_mult8(self.s8()));
//@  ghoststmt 8 of /\.push\(/ => assert(concat_slices($BR@) == flat(self.s9()) && all_mult8(self.s9()));
//@  ghoststmt 9 of /\.push\(/ => assert(concat_slices($BR@) == flat(self.s10()) && all_mult8(self.s10()));
//@  ghoststmt 10 of /\.push\(/ => assert(concat_slices($BR@) == flat(self.s11()) && all_mult8(self.s11()));
//@  ghoststmt 11 of /\.push\(/ => assert(concat_slices($BR@) == flat(self.s12()) && all_mult8(self.s12()));
//@  ghoststmt 12 of /\.push\(/ => assert(concat_slices($BR@) == flat(self.s13()) && all_mult8(self.s13()));
//@  ghoststmt 13 of /\.push\(/ => assert(concat_slices($BR@) == flat(self.s14()) && all_mult8(self.s14()));
//@  ghoststmt 14 of /\.push\(/ => assert(concat_slices($BR@) == flat(self.s15()) && all_mult8(self.s15()));
//@  ghoststmt 15 of /\.push\(/ => assert(concat_slices($BR@) == flat(self.s16()) && all_mult8(self.s16()));
//@  ghoststmt 16 of /\.push\(/ => assert(concat_slices($BR@) == flat(self.s17()) && all_mult8(self.s17()));
//@  ghoststmt 17 of /\.push\(/ => assert(concat_slices($BR@) == flat(self.s18()) && all_mult8(self.s18()));
//@  ghoststmt 18 of /\.push\(/ => assert(concat_slices($BR@) == flat(self.s19()) && all_mult8(self.s19()));
//@  ghoststmt 19 of /\.push\(/ => assert(concat_slices($BR@) == flat(self.s20()) && all_mult8(self.s20()));
//@  ghoststmt 20 of /\.push\(/ => assert(concat_slices($BR@) == flat(self.s21()) && all_mult8(self.s21()));
//@  ghoststmt 21 of /\.push\(/ => assert(concat_slices($BR@) == flat(self.s22()) && all_mult8(self.s22()));
//@  ghoststmt 22 of /\.push\(/ => assert(concat_slices($BR@) == flat(self.slots()).add(obj_bytes(&end_tag))); proof { lemma_all_mult8_flat(self.slots()); lemma_round8_props(8 + flat(self.slots()).len() as int + 8); }
//@  spec:
//@    requires
//@        // the structure must be representable: its byte length fits the u32 total_size field
//@        8 + flat(self.slots()).len() + 8 <= u32::MAX,
//@    ensures
//@        // C06: 8-aligned, declares its exact byte length
//@        tag_wf(&*r),
//@        val_size(&*r) as int == 8 + flat(self.slots()).len() + 8,
//@        dyn_hdr(&*r).total_size as int == 8 + flat(self.slots()).len() + 8,
//@        // the tags are exactly the supplied ones, byte-identical, single-valued kinds once, repeatable kinds
//@        // in call order, followed by one end tag (type 0, size 8) as the final 8 bytes
//@        exists|end_bytes: Seq<u8>| end_bytes.len() == 8
//@            && #[trigger] decode::<TagHeader>(end_bytes).typ.0 == 0 && decode::<TagHeader>(end_bytes).size == 8
//@            && obj_bytes(&*r).subrange(8, 8 + flat(self.slots()).len() as int + 8) == flat(self.slots()).add(end_bytes),
//@  loop 0:
//@            invariant
//@                it.index@ <= self.modules@.len(),
//@                concat_slices($BR@) == flat(push_upto(self.s2(), self.mods(), it.index@ as int)),
//@                all_mult8(push_upto(self.s2(), self.mods(), it.index@ as int)),
//@  loop 1:
//@            invariant
//@                it.index@ <= self.smbios@.len(),
//@                concat_slices($BR@) == flat(push_upto(self.s12(), self.smbs(), it.index@ as int)),
//@                all_mult8(push_upto(self.s12(), self.smbs(), it.index@ as int)),
//@  loop 2:
//@            invariant
//@                it.index@ <= self.custom_tags@.len(),
//@                concat_slices($BR@) == flat(push_upto(self.s21(), self.custs(), it.index@ as int)),
//@                all_mult8(push_upto(self.s21(), self.custs(), it.index@ as int)),
//@end
}

// ---------------------------------------------------------------------------
// C06, mechanised composition (glue code written here; it CALLS the verified build(), load(),
// tags() and -- through walk_collect -- TagIter::next, so only their contracts are used):
// for every builder state whose supplied tags are tags (item_ok), the built structure LOADS,
// and the tag walk of the loaded structure visits exactly the supplied tag images, in the
// documented order, each byte-identical at its offset, followed by the end tag as the last 8
// bytes; the walk ends exactly at the end of the structure.
// ---------------------------------------------------------------------------
pub fn build_load_walk(b: Builder) -> (res: (Ghost<Seq<int>>, Ghost<Seq<u8>>, Ghost<Seq<u8>>))
    requires
        panics_allowed(),
        8 + flat(b.slots()).len() + 8 <= u32::MAX,
        all_items_ok::<TagHeader>(b.slots()),
    ensures ({
        let offs = res.0@;        // offsets (relative to the first tag) the real iterator visited
        let payload = res.1@;     // bytes of the loaded structure after its 8-byte header
        let end_bytes = res.2@;
        let items = b.slots().push(end_bytes);
        &&& end_bytes.len() == 8 && decode::<TagHeader>(end_bytes).typ.0 == 0 && decode::<TagHeader>(end_bytes).size == 8
        &&& payload == flat(items)
        // exactly one visit per supplied tag, in order, plus the end tag
        &&& offs == item_offs(items, 0)
        &&& offs.len() == b.slots().len() + 1
        // each supplied tag is found byte-identical at the offset the walk visits
        &&& forall|k: int| 0 <= k < items.len() ==>
                payload.subrange(flat(items.take(k)).len() as int, (flat(items.take(k)).len() + (#[trigger] items[k]).len()) as int) == items[k]
    }),
{
    let ghost slots = b.slots();
    let boxed = b.build();
    let ghost end_bytes: Seq<u8> = choose|e: Seq<u8>| e.len() == 8
        && #[trigger] decode::<TagHeader>(e).typ.0 == 0 && decode::<TagHeader>(e).size == 8
        && obj_bytes(&*boxed).subrange(8, 8 + flat(slots).len() as int + 8) == flat(slots).add(e);
    let ghost items = slots.push(end_bytes);
    let ghost total = 8 + flat(slots).len() as int + 8;
    let ptr = (&*boxed).as_ptr();
    proof {
        lemma_mb2_layouts();
        assert(val_size(&*boxed) as int == total);
        assert(hdr_at_cptr(ptr) == dyn_hdr(&*boxed));
        // the last 8 bytes are the end tag
        assert(mem_at(ptr@.provenance, ptr@.addr as int + total - 8, 8) =~= obj_bytes(&*boxed).subrange(8, total).subrange(flat(slots).len() as int, flat(slots).len() as int + 8));
        assert(flat(slots).add(end_bytes).subrange(flat(slots).len() as int, flat(slots).len() as int + 8) =~= end_bytes);
        assert(spec_end_tag_ok(ptr@.provenance, ptr@.addr as int, total));
        assert(total % 8 == 0) by { lemma_round8_props(8 + ref_meta(&*boxed) as int); }
    }
    let r = unsafe { BootInformation::load(ptr) };
    match r {
        Err(_e) => {
            // unreachable: the contract of load() accepts the built structure
            proof { assert(false); }
            (Ghost(Seq::empty()), Ghost(Seq::empty()), Ghost(end_bytes))
        }
        Ok(bi) => {
            let mut it = bi.tags();
            let ghost it0 = it;
            proof {
                assert(it0.buffer@ =~= obj_bytes(&*boxed).subrange(8, total));
                assert(flat(items) == flat(slots).add(end_bytes));
                assert(it0.buffer@ == flat(items));
                assert(item_ok::<TagHeader>(end_bytes)) by {
                    assert(end_bytes.subrange(0, 8) =~= end_bytes);
                }
                assert(all_items_ok::<TagHeader>(items));
                lemma_walk_items::<TagHeader>(it0, items, 0);
                lemma_flat_take_all(items);
                lemma_item_offs_len(items, 0);
                assert forall|k: int| 0 <= k < items.len() implies
                    it0.buffer@.subrange(flat(items.take(k)).len() as int, (flat(items.take(k)).len() + (#[trigger] items[k]).len()) as int) == items[k] by {
                    lemma_flat_item_at(items, k);
                }
            }
            let offs = walk_collect(&mut it);
            (offs, Ghost(it0.buffer@), Ghost(end_bytes))
        }
    }
}
} // mod mb
} // verus!
