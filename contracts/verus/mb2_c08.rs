// Unit fragment: C08 O1 (overflow freedom) for decoding accessors that do
// arithmetic on stored values.  Bodies verbatim, TOTAL mode, no precondition:
// every overflow is an obligation (dev builds panic, release builds wrap).
verus! {

impl MemoryArea {
//@extract multiboot2/src/memory_map.rs :: impl MemoryArea :: fn start_address
//@  ret r
//@  spec:
//@    ensures r == self.base_addr,
//@end
//@extract multiboot2/src/memory_map.rs :: impl MemoryArea :: fn end_address
//@  ret r
//@  spec:
//@    ensures r == self.base_addr + self.length,
//@end
//@extract multiboot2/src/memory_map.rs :: impl MemoryArea :: fn size
//@  ret r
//@  spec:
//@    ensures r == self.length,
//@end
}

impl ModuleTag {
//@extract multiboot2/src/module.rs :: impl ModuleTag :: fn module_size
//@  ret r
//@  spec:
//@    ensures r == self.mod_end - self.mod_start,
//@end
}

} // verus!
