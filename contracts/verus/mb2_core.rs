// Unit fragment: multiboot2 tag header, boot-information header, load & accessors
// (C01, C02, C03).  Bodies verbatim from /repo.
verus! {

// ---------------------------------------------------------------------------
// tag.rs
// ---------------------------------------------------------------------------
//@extract multiboot2/src/tag.rs :: struct TagHeader
//@  keepattrs #\[(repr|derive)
//@  rewrite /#\[derive\([^)]*\)\]/ => /#[derive(Clone, Copy)]/
//@end
global layout TagHeader is size == 8, align == 8;

impl Header for TagHeader {
    open spec fn declared_total(&self) -> int { self.size as int }
    proof fn lemma_hdr_layout(&self) {}
//@extractall multiboot2/src/tag.rs :: impl Header for TagHeader
//@end
}

impl vstd::std_specs::cmp::PartialEqSpecImpl<TagType> for TagTypeId {
    open spec fn obeys_eq_spec() -> bool { true }
    open spec fn eq_spec(&self, other: &TagType) -> bool { self.0 == spec_tag_num(*other) }
}
impl PartialEq<TagType> for TagTypeId {
//@extract multiboot2/src/tag_type.rs :: mod partial_eq_impls :: impl PartialEq<TagType> for TagTypeId :: fn eq
//@  novis
//@end
}
impl vstd::std_specs::cmp::PartialEqSpecImpl<TagTypeId> for TagType {
    open spec fn obeys_eq_spec() -> bool { true }
    open spec fn eq_spec(&self, other: &TagTypeId) -> bool { other.0 == spec_tag_num(*self) }
}
impl PartialEq<TagTypeId> for TagType {
//@extract multiboot2/src/tag_type.rs :: mod partial_eq_impls :: impl PartialEq<TagTypeId> for TagType :: fn eq
//@  novis
//@end
}

// ---------------------------------------------------------------------------
// end.rs (only what has_valid_end_tag needs)
// ---------------------------------------------------------------------------
//@extract multiboot2/src/end.rs :: struct EndTag
//@end
global layout EndTag is size == 8, align == 8;
pub const ENDTAG_ID: TagType = TagType::End;   // `impl Tag for EndTag { const ID }`: see extraction below
//@extract multiboot2/src/end.rs :: impl Tag for EndTag :: const ID
//@  rename ENDTAG_ID_SRC
//@end

// ---------------------------------------------------------------------------
// boot_information.rs
// ---------------------------------------------------------------------------
//@extract multiboot2/src/boot_information.rs :: enum LoadError
//@  keepattrs #\[derive
//@  rewrite /#\[derive\([^)]*\)\]/ => /#[derive(Copy, Clone, PartialEq, Eq)]/
//@end

//@extract multiboot2/src/boot_information.rs :: struct BootInformationHeader
//@  keepattrs #\[(repr|derive)
//@  rewrite /#\[derive\([^)]*\)\]/ => /#[derive(Copy, Clone)]/
//@end
global layout BootInformationHeader is size == 8, align == 8;

impl BootInformationHeader {
//@extract multiboot2/src/boot_information.rs :: impl BootInformationHeader :: fn total_size
//@  ret r
//@  spec:
//@    ensures r == self.total_size,
//@end
}

impl Header for BootInformationHeader {
    open spec fn declared_total(&self) -> int { self.total_size as int }
    proof fn lemma_hdr_layout(&self) {}
//@extractall multiboot2/src/boot_information.rs :: impl Header for BootInformationHeader
//@end
}

//@extract multiboot2/src/boot_information.rs :: struct BootInformation
//@end

/// the end tag the specification requires: the last 8 bytes of the declared region
pub open spec fn spec_end_tag_ok(prov: Provenance, addr: int, total: int) -> bool {
    let e = decode::<TagHeader>(mem_at(prov, addr + total - 8, 8));
    e.typ.0 == 0 && e.size == 8
}

impl<'a> BootInformation<'a> {
    pub open spec fn wf(&self) -> bool {
        &&& dyn_wf(self.0)
        &&& dyn_hdr(self.0).total_size as int == val_size(self.0)
        &&& val_size(self.0) >= 8
    }

//@extract multiboot2/src/boot_information.rs :: impl<'a> BootInformation<'a> :: fn load
//@  ret r
//@  rewrite /NonNull::new\(ptr\.cast_mut\(\)\)\.ok_or\(LoadError::Memory\(MemoryError::Null\)\)\?/ => /match NonNull::new(ptr.cast_mut()) { Some(p) => p, None => return Err(LoadError::Memory(MemoryError::Null)) }/
//@  rewrite /DynSizedStructure::ref_from_ptr\(ptr\)\.map_err\(LoadError::Memory\)\?/ => /match DynSizedStructure::ref_from_ptr(ptr) { Ok(i) => i, Err(e) => return Err(LoadError::Memory(e)) }/
//@  rewrite /ptr\.as_ref\(\)/ => /deref_raw(ptr.as_ptr().cast_const())/
//@  prologue proof { assert(size_of::<BootInformationHeader>() == 8 && align_of::<BootInformationHeader>() == 8); }
//@  spec:
//@    requires
//@        // caller's unsafe promise (C02): null, or an 8-aligned header followed by the bytes it declares
//@        ptr@.addr != 0 ==> ptr@.addr as int % 8 == 0 && in_prov(ptr@.provenance, ptr@.addr as int, 8)
//@            && in_prov(ptr@.provenance, ptr@.addr as int, hdr_at_cptr(ptr).total_size as int),
//@    ensures
//@        // C02: total (no panics_allowed()), exact acceptance condition and precedence
//@        ptr@.addr == 0 ==> r == Err::<Self, LoadError>(LoadError::Memory(MemoryError::Null)),
//@        ptr@.addr != 0 && hdr_at_cptr(ptr).total_size < 8 ==> r == Err::<Self, LoadError>(LoadError::Memory(MemoryError::ShorterThanHeader)),
//@        ptr@.addr != 0 && hdr_at_cptr(ptr).total_size >= 8 && hdr_at_cptr(ptr).total_size % 8 != 0 ==> r == Err::<Self, LoadError>(LoadError::Memory(MemoryError::MissingPadding)),
//@        ptr@.addr != 0 && hdr_at_cptr(ptr).total_size >= 8 && hdr_at_cptr(ptr).total_size % 8 == 0
//@            && !spec_end_tag_ok(ptr@.provenance, ptr@.addr as int, hdr_at_cptr(ptr).total_size as int) ==> r == Err::<Self, LoadError>(LoadError::NoEndTag),
//@        ptr@.addr != 0 && hdr_at_cptr(ptr).total_size >= 8 && hdr_at_cptr(ptr).total_size % 8 == 0
//@            && spec_end_tag_ok(ptr@.provenance, ptr@.addr as int, hdr_at_cptr(ptr).total_size as int) ==> r is Ok,
//@        r is Ok ==> ({
//@            let b = r->Ok_0;
//@            &&& b.wf()
//@            &&& ref_addr(b.0) == ptr@.addr
//@            &&& ref_prov(b.0) == ptr@.provenance
//@            &&& dyn_hdr(b.0) == hdr_at_cptr(ptr)
//@        }),
//@end

//@extract multiboot2/src/boot_information.rs :: impl<'a> BootInformation<'a> :: fn has_valid_end_tag
//@  ret r
//@  rules R2
//@  rewrite /EndTag::ID/ => /ENDTAG_ID/
//@  prologue proof { assert(size_of::<TagHeader>() == 8 && align_of::<TagHeader>() == 8 && size_of::<EndTag>() == 8 && size_of::<BootInformationHeader>() == 8); }
//@  prologue proof { let a = ref_addr(self.0) as int; let sz = val_size(self.0) as int; assert(a % 8 == 0 && sz % 8 == 0 && sz >= 8); assert((a + sz - 8) % 8 == 0); assert(ref_meta(self.0) == sz - 8); }   // stabilises the alignment argument (mod 8) for the solver
//@  spec:
//@    requires self.wf(),
//@    ensures r == spec_end_tag_ok(ref_prov(self.0), ref_addr(self.0) as int, val_size(self.0) as int),
//@end

//@extract multiboot2/src/boot_information.rs :: impl<'a> BootInformation<'a> :: fn as_ptr
//@  ret r
//@  rules R2b
//@  spec:
//@    ensures r@.addr == ref_addr(self.0), r@.provenance == ref_prov(self.0),
//@end

//@extract multiboot2/src/boot_information.rs :: impl<'a> BootInformation<'a> :: fn start_address
//@  ret r
//@  spec:
//@    ensures r == ref_addr(self.0),    // C02: the reported start address is the pointer
//@end

//@extract multiboot2/src/boot_information.rs :: impl<'a> BootInformation<'a> :: fn end_address
//@  ret r
//@  spec:
//@    requires self.wf(),
//@    ensures r == ref_addr(self.0) + dyn_hdr(self.0).total_size,   // C02: pointer plus declared size
//@end

//@extract multiboot2/src/boot_information.rs :: impl<'a> BootInformation<'a> :: fn total_size
//@  ret r
//@  spec:
//@    requires self.wf(),
//@    ensures r == dyn_hdr(self.0).total_size,
//@end

//@extract multiboot2/src/boot_information.rs :: impl<'a> BootInformation<'a> :: fn tags
//@  ret r
//@  sigrewrite /-> \(r: TagIter\)/ => /-> (r: TagIter<'a, TagHeader>)/
//@  prologue proof { assert(size_of::<BootInformationHeader>() == 8); }
//@  spec:
//@    requires self.wf(),
//@    ensures
//@        // C03: the walk starts at offset 8 and covers exactly the rest of the region
//@        r.wf(), r.next_tag_offset == 0,
//@        slice_addr(r.buffer) == ref_addr(self.0) + 8,
//@        slice_prov(r.buffer) == ref_prov(self.0),
//@        r.buffer@.len() == val_size(self.0) - 8,
//@        mbi_iter(self, r),
//@end

//@extract multiboot2/src/boot_information.rs :: impl<'a> BootInformation<'a> :: fn get_tag
//@  ret r
//@  stubonloss
//@  closure 0: |tag: &&'a DynSizedStructure<TagHeader>| -> (b: bool) ensures b == (dyn_hdr(*tag).typ.0 == spec_tag_num(T::ID))
//@  closure 1: |tag: &'a DynSizedStructure<TagHeader>| -> (c: &'a T) requires dyn_wf(tag) ensures cast_post(tag, c)
//@  rewrite /self\s*\.tags\(\)\s*\.find\(/ => /tagiter_find_owned(self.tags(), /
//@  spec:
//@    requires self.wf(), panics_allowed(),
//@    ensures
//@        // C04: the first tag in walk order whose type number is T::ID, viewed as T; nothing when there is none
//@        mb_getter_post::<T>(self, spec_tag_num(T::ID), r),
//@end
}

/// C04: `r` is the typed view of the first tag of the region's walk whose type number is `num`; `None`: there is none
pub open spec fn mb_getter_post<'a, T: MaybeDynSized<Header = TagHeader> + ?Sized>(b: &BootInformation<'a>, num: u32, r: Option<&'a T>) -> bool {
    exists|it: TagIter<'a, TagHeader>| #[trigger] mbi_iter(b, it)
        && getter_post::<TagHeader, T>(it, typ_is(num), r)
}

/// "the tag's type number is `num`"
pub open spec fn typ_is(num: u32) -> spec_fn(TagHeader) -> bool {
    |h: TagHeader| h.typ.0 == num
}

/// the iterator state `tags()` starts from: offset 8 of the region, covering exactly the rest of it
pub open spec fn mbi_iter<'a>(b: &BootInformation<'a>, it: TagIter<'a, TagHeader>) -> bool {
    &&& it.wf()
    &&& it.next_tag_offset == 0
    &&& slice_addr(it.buffer) == ref_addr(b.0) + 8
    &&& slice_prov(it.buffer) == ref_prov(b.0)
    &&& it.buffer@.len() == val_size(b.0) - 8
}

pub open spec fn hdr_at_cptr(p: *const BootInformationHeader) -> BootInformationHeader {
    decode::<BootInformationHeader>(mem_at(p@.provenance, p@.addr as int, 8))
}

} // verus!
