// ---------------------------------------------------------------------------
// C07 for the variable-length constructors whose content is a byte slice: for ALL content
// lengths the constructed tag carries the kind's type number, size = exact unpadded byte
// count, and bytes = the specification's encoding of the arguments -- proved from the
// (assumed, C16) contract of new_boxed.  String constructors (str byte reasoning) and
// FramebufferTag::new (Vec::extend) stay outside this Verus: Kani-bounded + native stand-in.
// ---------------------------------------------------------------------------
verus! {

impl HeaderSetSize for TagHeader {
    open spec fn spec_set_size(self, n: int) -> Self { TagHeader { typ: self.typ, size: n as u32 } }
}

/// little-endian image of a u32 (the specification's encoding)
pub open spec fn le32(x: u32) -> Seq<u8> {
    seq![(x & 0xff) as u8, ((x >> 8) & 0xff) as u8, ((x >> 16) & 0xff) as u8, ((x >> 24) & 0xff) as u8]
}
/// `x.to_ne_bytes()` on the little-endian target (stated machine assumption; Kani checks the constructors'
/// concrete encodings on the compiled code).  Explicit rewrite at the call sites (the std signature uses a
/// const expression this Verus cannot name in an assume_specification).
#[verifier::external_body]
pub fn ne_bytes_u32(x: u32) -> (r: [u8; 4])
    ensures r@ == le32(x),
{
    x.to_ne_bytes()
}

/// layout facts for the submodule (global layout declarations are only visible in the declaring module)
pub proof fn lemma_ctor_layouts()
    ensures size_of::<MemoryArea>() == 24,
{
}

pub mod ctors {
use super::*;
use std::boxed::Box;
broadcast use {super::seqfold::lemma_concat_push, super::seqfold::lemma_concat_empty};

/// the first 8 bytes of a heap-built tag decode to its header
pub open spec fn hdr_of<T: MaybeDynSized<Header = TagHeader> + ?Sized>(r: &T) -> TagHeader {
    decode::<TagHeader>(mem_at(ref_prov(r), ref_addr(r) as int, 8))
}

impl NetworkTag {
//@extract multiboot2/src/network.rs :: impl NetworkTag :: fn new
//@  ret r
//@  optional
//@  rewrite /Self::ID/ => /TagType::Network/
//@  rewrite /new_boxed\(header, &\[(\w+)\]\)/ => /{ let parts: [&[u8]; 1] = [\1]; proof { assert(parts@ =~= Seq::<&[u8]>::empty().push(\1)); } new_boxed(header, parts.as_slice()) }/
//@  prologue proof { lemma_mb2_layouts(); }
//@  spec:
//@    requires 8 + dhcp_pack@.len() <= u32::MAX,
//@    ensures
//@        tag_wf(&*r),
//@        hdr_of(&*r).typ.0 == 16, hdr_of(&*r).size == 8 + dhcp_pack@.len(),
//@        val_size(&*r) as int == round8(8 + dhcp_pack@.len() as int),
//@        obj_bytes(&*r).subrange(8, 8 + dhcp_pack@.len() as int) == dhcp_pack@,
//@end
}
impl SmbiosTag {
//@extract multiboot2/src/smbios.rs :: impl SmbiosTag :: fn new
//@  ret r
//@  optional
//@  rewrite /Self::ID/ => /TagType::Smbios/
//@  rewrite /let reserved = \[0, 0, 0, 0, 0, 0\];/ => /let reserved: [u8; 6] = [0, 0, 0, 0, 0, 0];/
//@  rewrite /new_boxed\(header, &\[&\[(\w+), (\w+)\], &(\w+), (\w+)\]\)/ => /{ let a0: [u8; 2] = [\1, \2]; let p0: &[u8] = a0.as_slice(); let p1: &[u8] = \3.as_slice(); let parts: [&[u8]; 3] = [p0, p1, \4]; proof { assert(parts@ =~= Seq::<&[u8]>::empty().push(p0).push(p1).push(\4)); assert(p0@ =~= seq![\1, \2]); assert(p1@ =~= seq![0u8, 0u8, 0u8, 0u8, 0u8, 0u8]); } new_boxed(header, parts.as_slice()) }/
//@  prologue proof { lemma_mb2_layouts(); }
//@  spec:
//@    requires 16 + tables@.len() <= u32::MAX,
//@    ensures
//@        tag_wf(&*r),
//@        hdr_of(&*r).typ.0 == 13, hdr_of(&*r).size == 16 + tables@.len(),
//@        val_size(&*r) as int == round8(16 + tables@.len() as int),
//@        // major, minor, six reserved zero bytes, then the tables
//@        obj_bytes(&*r).subrange(8, 16 + tables@.len() as int) == seq![major, minor, 0u8, 0u8, 0u8, 0u8, 0u8, 0u8].add(tables@),
//@end
}

impl ElfSectionsTag {
//@extract multiboot2/src/elf_sections.rs :: impl ElfSectionsTag :: fn new
//@  ret r
//@  optional
//@  rewrite /Self::ID/ => /TagType::ElfSections/
//@  rewrite /(\w+)\.to_ne_bytes\(\)/ => /ne_bytes_u32(\1)/ x3
//@  rewrite /new_boxed\(\s*header,\s*&\[&(\w+), &(\w+), &(\w+), (\w+)\],?\s*\)/ => /{ let p0: &[u8] = \1.as_slice(); let p1: &[u8] = \2.as_slice(); let p2: &[u8] = \3.as_slice(); let parts: [&[u8]; 4] = [p0, p1, p2, \4]; proof { assert(parts@ =~= Seq::<&[u8]>::empty().push(p0).push(p1).push(p2).push(\4)); } new_boxed(header, parts.as_slice()) }/
//@  prologue proof { lemma_mb2_layouts(); }
//@  spec:
//@    requires 20 + sections@.len() <= u32::MAX,
//@    ensures
//@        tag_wf(&*r),
//@        hdr_of(&*r).typ.0 == 9, hdr_of(&*r).size == 20 + sections@.len(),
//@        val_size(&*r) as int == round8(20 + sections@.len() as int),
//@        // number of sections, entry size, string-table index (little-endian words), then the section headers
//@        obj_bytes(&*r).subrange(8, 20 + sections@.len() as int) == le32(number_of_sections).add(le32(entry_size)).add(le32(shndx)).add(sections@),
//@end
}

impl EFIMemoryMapTag {
//@extract multiboot2/src/memory_map.rs :: impl EFIMemoryMapTag :: fn new_from_map
//@  ret r
//@  optional
//@  rewrite /Self::ID/ => /TagType::EfiMmap/
//@  rewrite /(\w+)\.to_ne_bytes\(\)/ => /ne_bytes_u32(\1)/ x2
//@  rewrite /new_boxed\(header, &\[&(\w+), &(\w+), (\w+)\]\)/ => /{ let p0: &[u8] = \1.as_slice(); let p1: &[u8] = \2.as_slice(); let parts: [&[u8]; 3] = [p0, p1, \3]; proof { assert(parts@ =~= Seq::<&[u8]>::empty().push(p0).push(p1).push(\3)); } new_boxed(header, parts.as_slice()) }/
//@  prologue proof { lemma_mb2_layouts(); }
//@  spec:
//@    requires panics_allowed(), 16 + efi_mmap@.len() <= u32::MAX,
//@    ensures
//@        desc_size != 0,     // a zero descriptor size is rejected (controlled panic)
//@        tag_wf(&*r),
//@        hdr_of(&*r).typ.0 == 17, hdr_of(&*r).size == 16 + efi_mmap@.len(),
//@        val_size(&*r) as int == round8(16 + efi_mmap@.len() as int),
//@        obj_bytes(&*r).subrange(8, 16 + efi_mmap@.len() as int) == le32(desc_size).add(le32(desc_version)).add(efi_mmap@),
//@end
}
impl MemoryMapTag {
//@extract multiboot2/src/memory_map.rs :: impl MemoryMapTag :: fn new
//@  ret r
//@  optional
//@  rewrite /Self::ID/ => /TagType::Mmap/
//@  rewrite /\(mem::size_of::<MemoryArea>\(\) as u32\)\.to_ne_bytes\(\)/ => /ne_bytes_u32(mem::size_of::<MemoryArea>() as u32)/
//@  rewrite /0_u32\.to_ne_bytes\(\)/ => /ne_bytes_u32(0_u32)/
//@  rewrite /slice::from_raw_parts\((\w+), (\w+)\)/ => /bytes_from_raw_parts(\1, \2)/
//@  rewrite /new_boxed\(header, &\[&(\w+), &(\w+), (\w+)\]\)/ => /{ let p0: &[u8] = \1.as_slice(); let p1: &[u8] = \2.as_slice(); let parts: [&[u8]; 3] = [p0, p1, \3]; proof { assert(parts@ =~= Seq::<&[u8]>::empty().push(p0).push(p1).push(\3)); } new_boxed(header, parts.as_slice()) }/
//@  prologue proof { lemma_mb2_layouts(); lemma_ctor_layouts(); }
//@  prologue let ghost arg = areas;
//@  spec:
//@    requires
//@        // `areas` is a valid shared slice (type-system guarantee): dereferenceable, 24 bytes per entry
//@        tslice_wf(areas, 24), val_size(areas) == 24 * areas@.len(),
//@        16 + 24 * areas@.len() <= u32::MAX,
//@    ensures
//@        tag_wf(&*r),
//@        hdr_of(&*r).typ.0 == 6, hdr_of(&*r).size == 16 + 24 * areas@.len(),
//@        val_size(&*r) as int == round8(16 + 24 * areas@.len() as int),
//@        // entry size 24, entry version 0, then a byte copy of the argument array
//@        obj_bytes(&*r).subrange(8, 16 + 24 * areas@.len() as int)
//@            == le32(24).add(le32(0)).add(mem_at(slice_prov(areas), slice_addr(areas) as int, 24 * areas@.len() as int)),
//@end
}
} // mod ctors
} // verus!
