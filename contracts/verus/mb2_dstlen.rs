// Unit fragment (generated once by hand-run script, then maintained as text):
// `impl MaybeDynSized for <kind>` of the 9 dynamically sized boot-information
// tag kinds (C05, C15).  BASE_SIZE consts and dst_len bodies verbatim from /repo;
// FIXED / ELEM in the per-kind spec functions are the *specification's* fixed
// offset and element size (Multiboot2 spec 3.6.x / multiboot2.h), written as
// literals so that code disagreeing with them fails.
verus! {

//@extract multiboot2/src/memory_map.rs :: struct MemoryAreaTypeId
//@  keepattrs #\[(repr|derive)
//@  rewrite /#\[derive\([^)]*\)\]/ => /#[derive(Copy, Clone)]/
//@end
//@extract multiboot2/src/memory_map.rs :: struct MemoryArea
//@  keepattrs #\[(repr|derive)
//@  rewrite /#\[derive\([^)]*\)\]/ => /#[derive(Copy, Clone)]/
//@end
global layout MemoryArea is size == 24, align == 8;
//@extract multiboot2/src/framebuffer.rs :: enum FramebufferTypeId
//@  keepattrs #\[(repr|derive)
//@  rewrite /#\[derive\([^)]*\)\]/ => /#[derive(Copy, Clone)]/
//@end

// ---- CommandLineTag: fixed part 8 bytes, element size 1 ------------------------
//@extract multiboot2/src/command_line.rs :: struct CommandLineTag
//@end
impl Pointee for CommandLineTag {
    type Metadata = usize;   // #[derive(ptr_meta::Pointee)] written out
}
//@extract multiboot2/src/command_line.rs :: impl MaybeDynSized for CommandLineTag :: const BASE_SIZE
//@  rename COMMANDLINETAG_BASE_SIZE
//@  rewrite /Self::/ => /CommandLineTag::/ x*
//@  execconst @NAME == 8
//@end
impl MaybeDynSized for CommandLineTag {
    /// rustc layout: repr(C), align 8, tail of 1-byte elements at offset 8 (trusted; checked by K where Kani can compile the type)
    open spec fn layout_size(meta: usize) -> nat { round8(8 + meta * 1) as nat }
    /// C05: accepted iff size >= fixed part and the rest is a whole number of elements
    open spec fn dst_len_ok(header: &TagHeader) -> bool { header.size >= 8 && (header.size - 8) % 1 == 0 }
    /// C05: element count = (size - fixed part) / element size
    open spec fn dst_len_spec(header: &TagHeader) -> usize { ((header.size - 8) / 1) as usize }
    type Header = TagHeader;
    #[verifier::external_body]
    const BASE_SIZE: usize = COMMANDLINETAG_BASE_SIZE;
//@extractall multiboot2/src/command_line.rs :: impl MaybeDynSized for CommandLineTag
//@  const BASE_SIZE: skip
//@  type Header: skip
//@  fn *: rules R2
//@  fn dst_len: novis
//@  fn dst_len: rewrite /Self::BASE_SIZE/ => /COMMANDLINETAG_BASE_SIZE/ x*
//@  fn dst_len: prologue proof { assert(size_of::<TagHeader>() == 8 && size_of::<MemoryArea>() == 24); }
//@end
}

// ---- BootLoaderNameTag: fixed part 8 bytes, element size 1 ------------------------
//@extract multiboot2/src/boot_loader_name.rs :: struct BootLoaderNameTag
//@end
impl Pointee for BootLoaderNameTag {
    type Metadata = usize;   // #[derive(ptr_meta::Pointee)] written out
}
//@extract multiboot2/src/boot_loader_name.rs :: impl MaybeDynSized for BootLoaderNameTag :: const BASE_SIZE
//@  rename BOOTLOADERNAMETAG_BASE_SIZE
//@  rewrite /Self::/ => /BootLoaderNameTag::/ x*
//@  execconst @NAME == 8
//@end
impl MaybeDynSized for BootLoaderNameTag {
    /// rustc layout: repr(C), align 8, tail of 1-byte elements at offset 8 (trusted; checked by K where Kani can compile the type)
    open spec fn layout_size(meta: usize) -> nat { round8(8 + meta * 1) as nat }
    /// C05: accepted iff size >= fixed part and the rest is a whole number of elements
    open spec fn dst_len_ok(header: &TagHeader) -> bool { header.size >= 8 && (header.size - 8) % 1 == 0 }
    /// C05: element count = (size - fixed part) / element size
    open spec fn dst_len_spec(header: &TagHeader) -> usize { ((header.size - 8) / 1) as usize }
    type Header = TagHeader;
    #[verifier::external_body]
    const BASE_SIZE: usize = BOOTLOADERNAMETAG_BASE_SIZE;
//@extractall multiboot2/src/boot_loader_name.rs :: impl MaybeDynSized for BootLoaderNameTag
//@  const BASE_SIZE: skip
//@  type Header: skip
//@  fn *: rules R2
//@  fn dst_len: novis
//@  fn dst_len: rewrite /Self::BASE_SIZE/ => /BOOTLOADERNAMETAG_BASE_SIZE/ x*
//@  fn dst_len: prologue proof { assert(size_of::<TagHeader>() == 8 && size_of::<MemoryArea>() == 24); }
//@end
}

// ---- ModuleTag: fixed part 16 bytes, element size 1 ------------------------
//@extract multiboot2/src/module.rs :: struct ModuleTag
//@end
impl Pointee for ModuleTag {
    type Metadata = usize;   // #[derive(ptr_meta::Pointee)] written out
}
//@extract multiboot2/src/module.rs :: impl MaybeDynSized for ModuleTag :: const BASE_SIZE
//@  rename MODULETAG_BASE_SIZE
//@  rewrite /Self::/ => /ModuleTag::/ x*
//@  execconst @NAME == 16
//@end
impl MaybeDynSized for ModuleTag {
    /// rustc layout: repr(C), align 8, tail of 1-byte elements at offset 16 (trusted; checked by K where Kani can compile the type)
    open spec fn layout_size(meta: usize) -> nat { round8(16 + meta * 1) as nat }
    /// C05: accepted iff size >= fixed part and the rest is a whole number of elements
    open spec fn dst_len_ok(header: &TagHeader) -> bool { header.size >= 16 && (header.size - 16) % 1 == 0 }
    /// C05: element count = (size - fixed part) / element size
    open spec fn dst_len_spec(header: &TagHeader) -> usize { ((header.size - 16) / 1) as usize }
    type Header = TagHeader;
    #[verifier::external_body]
    const BASE_SIZE: usize = MODULETAG_BASE_SIZE;
//@extractall multiboot2/src/module.rs :: impl MaybeDynSized for ModuleTag
//@  const BASE_SIZE: skip
//@  type Header: skip
//@  fn *: rules R2
//@  fn dst_len: novis
//@  fn dst_len: rewrite /Self::BASE_SIZE/ => /MODULETAG_BASE_SIZE/ x*
//@  fn dst_len: prologue proof { assert(size_of::<TagHeader>() == 8 && size_of::<MemoryArea>() == 24); }
//@end
}

// ---- MemoryMapTag: fixed part 16 bytes, element size 24 ------------------------
//@extract multiboot2/src/memory_map.rs :: struct MemoryMapTag
//@end
impl Pointee for MemoryMapTag {
    type Metadata = usize;   // #[derive(ptr_meta::Pointee)] written out
}
//@extract multiboot2/src/memory_map.rs :: impl MaybeDynSized for MemoryMapTag :: const BASE_SIZE
//@  rename MEMORYMAPTAG_BASE_SIZE
//@  rewrite /Self::/ => /MemoryMapTag::/ x*
//@  execconst @NAME == 16
//@end
impl MaybeDynSized for MemoryMapTag {
    /// rustc layout: repr(C), align 8, tail of 24-byte elements at offset 16 (trusted; checked by K where Kani can compile the type)
    open spec fn layout_size(meta: usize) -> nat { round8(16 + meta * 24) as nat }
    /// C05: accepted iff size >= fixed part and the rest is a whole number of elements
    open spec fn dst_len_ok(header: &TagHeader) -> bool { header.size >= 16 && (header.size - 16) % 24 == 0 }
    /// C05: element count = (size - fixed part) / element size
    open spec fn dst_len_spec(header: &TagHeader) -> usize { ((header.size - 16) / 24) as usize }
    type Header = TagHeader;
    #[verifier::external_body]
    const BASE_SIZE: usize = MEMORYMAPTAG_BASE_SIZE;
//@extractall multiboot2/src/memory_map.rs :: impl MaybeDynSized for MemoryMapTag
//@  const BASE_SIZE: skip
//@  type Header: skip
//@  fn *: rules R2
//@  fn dst_len: novis
//@  fn dst_len: rewrite /Self::BASE_SIZE/ => /MEMORYMAPTAG_BASE_SIZE/ x*
//@  fn dst_len: prologue proof { assert(size_of::<TagHeader>() == 8 && size_of::<MemoryArea>() == 24); }
//@end
}

// ---- EFIMemoryMapTag: fixed part 16 bytes, element size 1 ------------------------
//@extract multiboot2/src/memory_map.rs :: struct EFIMemoryMapTag
//@end
impl Pointee for EFIMemoryMapTag {
    type Metadata = usize;   // #[derive(ptr_meta::Pointee)] written out
}
//@extract multiboot2/src/memory_map.rs :: impl MaybeDynSized for EFIMemoryMapTag :: const BASE_SIZE
//@  rename EFIMEMORYMAPTAG_BASE_SIZE
//@  rewrite /Self::/ => /EFIMemoryMapTag::/ x*
//@  execconst @NAME == 16
//@end
impl MaybeDynSized for EFIMemoryMapTag {
    /// rustc layout: repr(C), align 8, tail of 1-byte elements at offset 16 (trusted; checked by K where Kani can compile the type)
    open spec fn layout_size(meta: usize) -> nat { round8(16 + meta * 1) as nat }
    /// C05: accepted iff size >= fixed part and the rest is a whole number of elements
    open spec fn dst_len_ok(header: &TagHeader) -> bool { header.size >= 16 && (header.size - 16) % 1 == 0 }
    /// C05: element count = (size - fixed part) / element size
    open spec fn dst_len_spec(header: &TagHeader) -> usize { ((header.size - 16) / 1) as usize }
    type Header = TagHeader;
    #[verifier::external_body]
    const BASE_SIZE: usize = EFIMEMORYMAPTAG_BASE_SIZE;
//@extractall multiboot2/src/memory_map.rs :: impl MaybeDynSized for EFIMemoryMapTag
//@  const BASE_SIZE: skip
//@  type Header: skip
//@  fn *: rules R2
//@  fn dst_len: novis
//@  fn dst_len: rewrite /Self::BASE_SIZE/ => /EFIMEMORYMAPTAG_BASE_SIZE/ x*
//@  fn dst_len: prologue proof { assert(size_of::<TagHeader>() == 8 && size_of::<MemoryArea>() == 24); }
//@end
}

// ---- SmbiosTag: fixed part 16 bytes, element size 1 ------------------------
//@extract multiboot2/src/smbios.rs :: struct SmbiosTag
//@end
impl Pointee for SmbiosTag {
    type Metadata = usize;   // #[derive(ptr_meta::Pointee)] written out
}
//@extract multiboot2/src/smbios.rs :: impl MaybeDynSized for SmbiosTag :: const BASE_SIZE
//@  rename SMBIOSTAG_BASE_SIZE
//@  rewrite /Self::/ => /SmbiosTag::/ x*
//@  execconst @NAME == 16
//@end
impl MaybeDynSized for SmbiosTag {
    /// rustc layout: repr(C), align 8, tail of 1-byte elements at offset 16 (trusted; checked by K where Kani can compile the type)
    open spec fn layout_size(meta: usize) -> nat { round8(16 + meta * 1) as nat }
    /// C05: accepted iff size >= fixed part and the rest is a whole number of elements
    open spec fn dst_len_ok(header: &TagHeader) -> bool { header.size >= 16 && (header.size - 16) % 1 == 0 }
    /// C05: element count = (size - fixed part) / element size
    open spec fn dst_len_spec(header: &TagHeader) -> usize { ((header.size - 16) / 1) as usize }
    type Header = TagHeader;
    #[verifier::external_body]
    const BASE_SIZE: usize = SMBIOSTAG_BASE_SIZE;
//@extractall multiboot2/src/smbios.rs :: impl MaybeDynSized for SmbiosTag
//@  const BASE_SIZE: skip
//@  type Header: skip
//@  fn *: rules R2
//@  fn dst_len: novis
//@  fn dst_len: rewrite /Self::BASE_SIZE/ => /SMBIOSTAG_BASE_SIZE/ x*
//@  fn dst_len: prologue proof { assert(size_of::<TagHeader>() == 8 && size_of::<MemoryArea>() == 24); }
//@end
}

// ---- ElfSectionsTag: fixed part 20 bytes, element size 1 ------------------------
//@extract multiboot2/src/elf_sections.rs :: struct ElfSectionsTag
//@end
impl Pointee for ElfSectionsTag {
    type Metadata = usize;   // #[derive(ptr_meta::Pointee)] written out
}
//@extract multiboot2/src/elf_sections.rs :: impl MaybeDynSized for ElfSectionsTag :: const BASE_SIZE
//@  rename ELFSECTIONSTAG_BASE_SIZE
//@  rewrite /Self::/ => /ElfSectionsTag::/ x*
//@  execconst @NAME == 20
//@end
impl MaybeDynSized for ElfSectionsTag {
    /// rustc layout: repr(C), align 8, tail of 1-byte elements at offset 20 (trusted; checked by K where Kani can compile the type)
    open spec fn layout_size(meta: usize) -> nat { round8(20 + meta * 1) as nat }
    /// C05: accepted iff size >= fixed part and the rest is a whole number of elements
    open spec fn dst_len_ok(header: &TagHeader) -> bool { header.size >= 20 && (header.size - 20) % 1 == 0 }
    /// C05: element count = (size - fixed part) / element size
    open spec fn dst_len_spec(header: &TagHeader) -> usize { ((header.size - 20) / 1) as usize }
    type Header = TagHeader;
    #[verifier::external_body]
    const BASE_SIZE: usize = ELFSECTIONSTAG_BASE_SIZE;
//@extractall multiboot2/src/elf_sections.rs :: impl MaybeDynSized for ElfSectionsTag
//@  const BASE_SIZE: skip
//@  type Header: skip
//@  fn *: rules R2
//@  fn dst_len: novis
//@  fn dst_len: rewrite /Self::BASE_SIZE/ => /ELFSECTIONSTAG_BASE_SIZE/ x*
//@  fn dst_len: prologue proof { assert(size_of::<TagHeader>() == 8 && size_of::<MemoryArea>() == 24); }
//@end
}

// ---- NetworkTag: fixed part 8 bytes, element size 1 ------------------------
//@extract multiboot2/src/network.rs :: struct NetworkTag
//@end
impl Pointee for NetworkTag {
    type Metadata = usize;   // #[derive(ptr_meta::Pointee)] written out
}
//@extract multiboot2/src/network.rs :: impl MaybeDynSized for NetworkTag :: const BASE_SIZE
//@  rename NETWORKTAG_BASE_SIZE
//@  rewrite /Self::/ => /NetworkTag::/ x*
//@  execconst @NAME == 8
//@end
impl MaybeDynSized for NetworkTag {
    /// rustc layout: repr(C), align 8, tail of 1-byte elements at offset 8 (trusted; checked by K where Kani can compile the type)
    open spec fn layout_size(meta: usize) -> nat { round8(8 + meta * 1) as nat }
    /// C05: accepted iff size >= fixed part and the rest is a whole number of elements
    open spec fn dst_len_ok(header: &TagHeader) -> bool { header.size >= 8 && (header.size - 8) % 1 == 0 }
    /// C05: element count = (size - fixed part) / element size
    open spec fn dst_len_spec(header: &TagHeader) -> usize { ((header.size - 8) / 1) as usize }
    type Header = TagHeader;
    #[verifier::external_body]
    const BASE_SIZE: usize = NETWORKTAG_BASE_SIZE;
//@extractall multiboot2/src/network.rs :: impl MaybeDynSized for NetworkTag
//@  const BASE_SIZE: skip
//@  type Header: skip
//@  fn *: rules R2
//@  fn dst_len: novis
//@  fn dst_len: rewrite /Self::BASE_SIZE/ => /NETWORKTAG_BASE_SIZE/ x*
//@  fn dst_len: prologue proof { assert(size_of::<TagHeader>() == 8 && size_of::<MemoryArea>() == 24); }
//@end
}

// ---- FramebufferTag: fixed part 32 bytes, element size 1 ------------------------
//@extract multiboot2/src/framebuffer.rs :: struct FramebufferTag
//@end
impl Pointee for FramebufferTag {
    type Metadata = usize;   // #[derive(ptr_meta::Pointee)] written out
}
//@extract multiboot2/src/framebuffer.rs :: impl MaybeDynSized for FramebufferTag :: const BASE_SIZE
//@  rename FRAMEBUFFERTAG_BASE_SIZE
//@  rewrite /Self::/ => /FramebufferTag::/ x*
//@  execconst @NAME == 32
//@end
impl MaybeDynSized for FramebufferTag {
    /// rustc layout: repr(C), align 8, tail of 1-byte elements at offset 32 (trusted; checked by K where Kani can compile the type)
    open spec fn layout_size(meta: usize) -> nat { round8(32 + meta * 1) as nat }
    /// C05: accepted iff size >= fixed part and the rest is a whole number of elements
    open spec fn dst_len_ok(header: &TagHeader) -> bool { header.size >= 32 && (header.size - 32) % 1 == 0 }
    /// C05: element count = (size - fixed part) / element size
    open spec fn dst_len_spec(header: &TagHeader) -> usize { ((header.size - 32) / 1) as usize }
    type Header = TagHeader;
    #[verifier::external_body]
    const BASE_SIZE: usize = FRAMEBUFFERTAG_BASE_SIZE;
//@extractall multiboot2/src/framebuffer.rs :: impl MaybeDynSized for FramebufferTag
//@  const BASE_SIZE: skip
//@  type Header: skip
//@  fn *: rules R2
//@  fn dst_len: novis
//@  fn dst_len: rewrite /Self::BASE_SIZE/ => /FRAMEBUFFERTAG_BASE_SIZE/ x*
//@  fn dst_len: prologue proof { assert(size_of::<TagHeader>() == 8 && size_of::<MemoryArea>() == 24); }
//@end
}

// ---------------------------------------------------------------------------
// C05 / C17: the string accessors hand EXACTLY the declared string bytes (the DST tail, whose
// length is dst_len = size - fixed part) to the parser.  `parse_slice_as_string` is core-library
// code (CStr / UTF-8; bounded Kani harnesses): here it is an uninterpreted function of the bytes
// it is given, so a result computed from any other byte sequence (the padded payload, a longer
// or shorter slice) cannot be proved equal to it.
// ---------------------------------------------------------------------------
pub struct StringError { pub _opaque: u8 }   // stand-in for multiboot2::StringError (never inspected)
pub uninterp spec fn spec_parse_str(bytes: Seq<u8>) -> Result<&'static str, StringError>;

#[verifier::external_body]
pub fn parse_slice_as_string(bytes: &[u8]) -> (r: Result<&str, StringError>)
    ensures r == spec_parse_str(bytes@),
{ unimplemented!() }

impl CommandLineTag {
//@extract multiboot2/src/command_line.rs :: impl CommandLineTag :: fn cmdline
//@  ret r
//@  spec:
//@    ensures r == spec_parse_str(self.cmdline@),
//@end
}
impl BootLoaderNameTag {
//@extract multiboot2/src/boot_loader_name.rs :: impl BootLoaderNameTag :: fn name
//@  ret r
//@  spec:
//@    ensures r == spec_parse_str(self.name@),
//@end
}
impl ModuleTag {
//@extract multiboot2/src/module.rs :: impl ModuleTag :: fn cmdline
//@  ret r
//@  spec:
//@    ensures r == spec_parse_str(self.cmdline@),
//@end
}

// ---------------------------------------------------------------------------
// C04 / C05: the plain accessors of the variable-length kinds hand out EXACTLY the DST tail
// (whose length is dst_len, proved above) and the stored fixed fields -- for all lengths.
// ---------------------------------------------------------------------------
impl MemoryMapTag {
//@extract multiboot2/src/memory_map.rs :: impl MemoryMapTag :: fn entry_size
//@  ret r
//@  spec:
//@    ensures r == self.entry_size,
//@end
//@extract multiboot2/src/memory_map.rs :: impl MemoryMapTag :: fn entry_version
//@  ret r
//@  spec:
//@    ensures r == self.entry_version,
//@end
//@extract multiboot2/src/memory_map.rs :: impl MemoryMapTag :: fn memory_areas
//@  ret r
//@  prologue proof { assert(size_of::<MemoryArea>() == 24); }
//@  spec:
//@    requires panics_allowed(),
//@    ensures
//@        // an entry size other than the 24 bytes of this crate's MemoryArea is rejected (controlled panic)
//@        self.entry_size == 24,
//@        r@ == self.areas@,
//@end
}
impl SmbiosTag {
//@extract multiboot2/src/smbios.rs :: impl SmbiosTag :: fn major
//@  ret r
//@  spec:
//@    ensures r == self.major,
//@end
//@extract multiboot2/src/smbios.rs :: impl SmbiosTag :: fn minor
//@  ret r
//@  spec:
//@    ensures r == self.minor,
//@end
//@extract multiboot2/src/smbios.rs :: impl SmbiosTag :: fn tables
//@  ret r
//@  spec:
//@    ensures r@ == self.tables@,
//@end
}
impl ModuleTag {
//@extract multiboot2/src/module.rs :: impl ModuleTag :: fn start_address
//@  ret r
//@  spec:
//@    ensures r == self.mod_start,
//@end
//@extract multiboot2/src/module.rs :: impl ModuleTag :: fn end_address
//@  ret r
//@  spec:
//@    ensures r == self.mod_end,
//@end
}

} // verus!
