// Unit fragment: EFI memory map iteration (C18, C01).  Bodies verbatim.
verus! {

/// Stand-in for the external type uefi_raw::table::boot::MemoryDescriptor
/// (assumed dependency layout: repr(C), 40 bytes, align 8 -- engine K checks
/// size, alignment and field decoding on the real type).
#[repr(C)]
pub struct EFIMemoryDesc {
    pub ty: u32,
    pub phys_start: u64,
    pub virt_start: u64,
    pub page_count: u64,
    pub att: u64,
}
global layout EFIMemoryDesc is size == 40, align == 8;
/// stand-ins for the other uefi-raw types re-exported next to it (size/alignment only)
pub struct EFIMemoryAreaType(pub u32);
global layout EFIMemoryAreaType is size == 4, align == 4;
pub struct EFIMemoryAttribute(pub u64);
global layout EFIMemoryAttribute is size == 8, align == 8;

/// trusted layout of `#[repr(C)] struct EFIMemoryMapTag { header, desc_size: u32, desc_version: u32, memory_map: [u8] }`
/// (tail at offset 16, length = pointer metadata); checked by engine K on the compiled type
pub open spec fn efi_tag_wf(t: &EFIMemoryMapTag) -> bool {
    &&& tag_wf(t)
    &&& slice_addr(&t.memory_map) == ref_addr(t) + 16
    &&& slice_prov(&t.memory_map) == ref_prov(t)
    &&& t.memory_map@.len() == ref_meta(t)
    &&& t.header.size == 16 + ref_meta(t)
}

//@extract multiboot2/src/memory_map.rs :: struct EFIMemoryAreaIter
//@end

impl<'a> EFIMemoryAreaIter<'a> {
    /// iterator invariant (C18): stride d >= 40, multiple of 8; entries * d == map length; i <= entries
    pub open spec fn wf(&self) -> bool {
        &&& efi_tag_wf(self.mmap_tag)
        &&& self.mmap_tag.desc_size >= 40
        &&& self.mmap_tag.desc_size % 8 == 0
        &&& self.entries * self.mmap_tag.desc_size == self.mmap_tag.memory_map@.len()
        &&& self.i <= self.entries
    }

//@extract multiboot2/src/memory_map.rs :: impl<'a> EFIMemoryAreaIter<'a> :: fn new
//@  ret r
//@  prologue proof { assert(size_of::<EFIMemoryDesc>() == 40 && align_of::<EFIMemoryDesc>() == 8); if mmap_tag.desc_size > 0 { lemma_div_exact(mmap_tag.memory_map@.len() as int, mmap_tag.desc_size as int); } }
//@  spec:
//@    requires efi_tag_wf(mmap_tag), panics_allowed(),
//@    ensures
//@        // C18: any other combination of descriptor size and length is rejected
//@        mmap_tag.desc_size >= 40, mmap_tag.desc_size % 8 == 0,
//@        mmap_tag.memory_map@.len() as int % (mmap_tag.desc_size as int) == 0,
//@        r.wf(), r.mmap_tag == mmap_tag, r.i == 0,
//@        r.entries == mmap_tag.memory_map@.len() as int / (mmap_tag.desc_size as int),
//@end

// `impl Iterator for EFIMemoryAreaIter` (R4)
//@extractall multiboot2/src/memory_map.rs :: impl<'a> Iterator for EFIMemoryAreaIter<'a>
//@  type Item: skip
//@  fn *: nocontract
//@  fn *: rules R2, R8
//@  fn *: sigrewrite /Self::Item/ => /&'a EFIMemoryDesc/ x*
//@  fn next: ret r
//@  fn next: sigrewrite /Self::Item/ => /&'a EFIMemoryDesc/ x*
//@  fn next: rules R8
//@  fn next: prologue proof { assert(size_of::<EFIMemoryDesc>() == 40 && align_of::<EFIMemoryDesc>() == 8); lemma_efi_index(old(self).i as int, old(self).entries as int, old(self).mmap_tag.desc_size as int); }
//@  fn next: spec:
//@    requires old(self).wf(),
//@    ensures
//@        final(self).wf(), final(self).mmap_tag == old(self).mmap_tag, final(self).entries == old(self).entries,
//@        old(self).i >= old(self).entries ==> r is None && final(self).i == old(self).i,
//@        old(self).i < old(self).entries ==> r is Some && final(self).i == old(self).i + 1,
//@        r is Some ==> ({
//@            let d = r->Some_0;
//@            let off = old(self).i * old(self).mmap_tag.desc_size;
//@            // the i-th descriptor: 40 bytes at map offset i*d, 8-aligned, inside the map (never overlapping the end of the tag)
//@            &&& ref_addr(d) == slice_addr(&old(self).mmap_tag.memory_map) + off
//@            &&& ref_addr(d) as int % 8 == 0
//@            &&& off + 40 <= old(self).mmap_tag.memory_map@.len()
//@            &&& *d == decode::<EFIMemoryDesc>(mem_at(ref_prov(old(self).mmap_tag), ref_addr(d) as int, 40))
//@        }),
//@end

// `impl ExactSizeIterator for EFIMemoryAreaIter` (R4)
//@extractall multiboot2/src/memory_map.rs :: impl ExactSizeIterator for EFIMemoryAreaIter<'_>
//@  fn *: nocontract
//@  fn *: rules R2, R8
//@  fn len: ret r
//@  fn len: spec:
//@    requires self.wf(),
//@    ensures r == self.entries - self.i,   // C18: remaining length = items still to come
//@end
}

pub proof fn lemma_div_exact(l: int, d: int)
    requires d > 0, l >= 0,
    ensures l % d == 0 ==> (l / d) * d == l,
{
    vstd::arithmetic::div_mod::lemma_fundamental_div_mod(l, d);
    assert(d * (l / d) == (l / d) * d) by (nonlinear_arith);
}

pub proof fn lemma_efi_index(i: int, n: int, d: int)
    requires 0 <= i < n || i >= n, d >= 40, n >= 0,
    ensures i < n ==> (0 <= i * d && i * d + d <= n * d && (d % 8 == 0 ==> (i * d) % 8 == 0)),
{
    if i < n {
        assert(0 <= i * d) by (nonlinear_arith) requires i >= 0, d >= 0;
        assert(i * d + d <= n * d) by (nonlinear_arith) requires i + 1 <= n, d >= 0;
        if d % 8 == 0 {
            let k = d / 8;
            assert(d == 8 * k);
            assert(i * d == (i * k) * 8) by (nonlinear_arith) requires d == 8 * k;
            vstd::arithmetic::div_mod::lemma_mod_multiples_basic(i * k, 8);
        }
    }
}

impl EFIMemoryMapTag {
//@extract multiboot2/src/memory_map.rs :: impl EFIMemoryMapTag :: fn memory_areas
//@  ret r
//@  sigrewrite /-> \(r: EFIMemoryAreaIter\)/ => /-> (r: EFIMemoryAreaIter<'_>)/
//@  rewrite /EFIMemoryDesc::VERSION/ => /EFI_MEMORY_DESC_VERSION/
//@  rewrite /\.align_offset\(mem::align_of::<EFIMemoryDesc>\(\)\)/ => /.align_offset(8)/
//@  prologue proof { assert(align_of::<EFIMemoryDesc>() == 8); }
//@  spec:
//@    requires efi_tag_wf(self), panics_allowed(),
//@    ensures
//@        // C18: version 1, d >= 40, d % 8 == 0, L % d == 0 -- anything else does not return
//@        self.desc_version == 1, self.desc_size >= 40, self.desc_size % 8 == 0,
//@        self.memory_map@.len() as int % (self.desc_size as int) == 0,
//@        r.wf(), r.mmap_tag == self, r.i == 0, r.entries == self.memory_map@.len() as int / (self.desc_size as int),
//@end
}

/// uefi_raw::table::boot::MemoryDescriptor::VERSION (UEFI spec: EFI_MEMORY_DESCRIPTOR_VERSION = 1)
pub const EFI_MEMORY_DESC_VERSION: u32 = 1;

} // verus!
