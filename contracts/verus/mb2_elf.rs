// Unit fragment: ELF sections tag, iterator and entry access (C19, C01).
verus! {
//@extract multiboot2/src/elf_sections.rs :: enum ElfSectionType
//@  keepattrs #\[(derive|repr)
//@  rewrite /#\[derive\([^)]*\)\]/ => /#[derive(Copy, Clone, PartialEq, Eq)]/
//@end

// derive(PartialEq) on a field-less enum is structural equality (rustc's derive, trusted)
impl vstd::std_specs::cmp::PartialEqSpecImpl for ElfSectionType {
    open spec fn obeys_eq_spec() -> bool { true }
    open spec fn eq_spec(&self, other: &ElfSectionType) -> bool { *self == *other }
}

pub mod elf_arith {
use super::*;
/// bytes spanned by `r` entries of `es` bytes.  Closed, with exactly the two
/// facts the iterator needs exported as a broadcast lemma: this keeps the
/// nonlinear product out of the solver's way.
pub closed spec fn elf_span(r: int, es: int) -> int { r * es }

pub broadcast proof fn lemma_span_step(r1: int, r2: int, es: int)
    requires r1 == r2 + 1, r2 >= 0, es >= 0,
    ensures #![trigger elf_span(r1, es), elf_span(r2, es)]
        elf_span(r1, es) == elf_span(r2, es) + es, elf_span(r2, es) >= 0,
{
    assert((r2 + 1) * es == r2 * es + es) by (nonlinear_arith);
    assert(r2 * es >= 0) by (nonlinear_arith) requires r2 >= 0, es >= 0;
}

pub broadcast proof fn lemma_span_ge(r: int, es: int)
    requires r >= 1, es >= 0,
    ensures #[trigger] elf_span(r, es) >= es,
{
    assert(r * es >= es) by (nonlinear_arith) requires r >= 1, es >= 0;
}

pub proof fn lemma_span_def(r: int, es: int)
    ensures elf_span(r, es) == r * es,
{
}

}

pub mod elf {
use super::*;
use super::elf_arith::*;
// multiplication facts (distributivity, commutativity) for the entry-stride arithmetic,
// scoped to this module so that other units' queries stay small
broadcast use {super::elf_arith::lemma_span_step, super::elf_arith::lemma_span_ge};

/// trusted layout of `#[repr(C, align(8))] struct ElfSectionsTag { header, number_of_sections: u32, entry_size: u32, shndx: u32, sections: [u8] }`
/// (tail at offset 20; Kani cannot compile this type -- K-L1 -- so this layout
/// statement is checked only by rustc's own `offset_of!` at build time of /repo's tests)
pub open spec fn elf_tag_wf(t: &ElfSectionsTag) -> bool {
    &&& tag_wf(t)
    &&& slice_addr(&t.sections) == ref_addr(t) + 20
    &&& slice_prov(&t.sections) == ref_prov(t)
    &&& t.sections@.len() == ref_meta(t)
    &&& t.header.size == 20 + ref_meta(t)
    &&& in_prov(ref_prov(t), ref_addr(t) + 20, ref_meta(t) as int)
}

//@extract multiboot2/src/elf_sections.rs :: struct ElfSectionIter
//@  keepattrs #\[derive
//@  rewrite /#\[derive\(Clone\)\]/ => // x*
//@end

//@extract multiboot2/src/elf_sections.rs :: struct ElfSection
//@  keepattrs #\[derive
//@  rewrite /#\[derive\([^)]*\)\]/ => /#[derive(Copy, Clone)]/
//@end

//@extract multiboot2/src/elf_sections.rs :: struct ElfSectionInner32
//@  keepattrs #\[(derive|repr)
//@  rewrite /#\[derive\([^)]*\)\]/ => /#[derive(Copy, Clone)]/
//@end
//@extract multiboot2/src/elf_sections.rs :: struct ElfSectionInner64
//@  keepattrs #\[(derive|repr)
//@  rewrite /#\[derive\([^)]*\)\]/ => /#[derive(Copy, Clone)]/
//@end
global layout ElfSectionInner32 is size == 40, align == 1;
global layout ElfSectionInner64 is size == 64, align == 1;


/// an entry pointer: `es` readable bytes at `p`, inside the allocation
pub open spec fn elf_entry_ok(p: *const u8, es: u32) -> bool {
    in_prov(p@.provenance, p@.addr as int, es as int)
}

impl ElfSection<'_> {
    /// invariant of every ElfSection the iterator hands out (fields are private)
    pub open spec fn wf(&self) -> bool {
        elf_entry_ok(self.inner, self.entry_size) && elf_entry_ok(self.string_section, self.entry_size)
    }
    /// raw type word of the entry (offset 4 in both layouts)
    pub open spec fn spec_typ(&self) -> u32 {
        if self.entry_size == 40 {
            decode::<ElfSectionInner32>(mem_at(self.inner@.provenance, self.inner@.addr as int, 40)).typ
        } else {
            decode::<ElfSectionInner64>(mem_at(self.inner@.provenance, self.inner@.addr as int, 64)).typ
        }
    }
}

/// C20/C19: classification of raw ELF section types (documented values and ranges)
pub open spec fn spec_elf_type(t: u32) -> ElfSectionType {
    if t == 0 { ElfSectionType::Unused } else if t == 1 { ElfSectionType::ProgramSection }
    else if t == 2 { ElfSectionType::LinkerSymbolTable } else if t == 3 { ElfSectionType::StringTable }
    else if t == 4 { ElfSectionType::RelaRelocation } else if t == 5 { ElfSectionType::SymbolHashTable }
    else if t == 6 { ElfSectionType::DynamicLinkingTable } else if t == 7 { ElfSectionType::Note }
    else if t == 8 { ElfSectionType::Uninitialized } else if t == 9 { ElfSectionType::RelRelocation }
    else if t == 10 { ElfSectionType::Reserved } else if t == 11 { ElfSectionType::DynamicLoaderSymbolTable }
    else if 0x6000_0000 <= t <= 0x6FFF_FFFF { ElfSectionType::EnvironmentSpecific }
    else if 0x7000_0000 <= t <= 0x7FFF_FFFF { ElfSectionType::ProcessorSpecific }
    else { ElfSectionType::Unused }
}

// trait ElfSectionInner (wrapper line written here; `: Debug` dropped)
pub trait ElfSectionInner {
    spec fn s_typ(&self) -> u32;
//@extract multiboot2/src/elf_sections.rs :: trait ElfSectionInner :: fn typ
//@  novis
//@  ret r
//@  spec:
//@        ensures r == self.s_typ()
//@end
}
impl ElfSectionInner for ElfSectionInner32 {
    open spec fn s_typ(&self) -> u32 { self.typ }
//@extract multiboot2/src/elf_sections.rs :: impl ElfSectionInner for ElfSectionInner32 :: fn typ
//@  novis
//@end
}
impl ElfSectionInner for ElfSectionInner64 {
    open spec fn s_typ(&self) -> u32 { self.typ }
//@extract multiboot2/src/elf_sections.rs :: impl ElfSectionInner for ElfSectionInner64 :: fn typ
//@  novis
//@end
}

impl ElfSection<'_> {
//@extract multiboot2/src/elf_sections.rs :: impl ElfSection<'_> :: fn get
//@  ret r
//@  rules R2c
//@  prologue proof { assert(size_of::<ElfSectionInner32>() == 40 && align_of::<ElfSectionInner32>() == 1 && size_of::<ElfSectionInner64>() == 64 && align_of::<ElfSectionInner64>() == 1); }
//@  spec:
//@    requires self.wf(), panics_allowed(),
//@    ensures
//@        // 40 -> ELF32 layout, 64 -> ELF64 layout, anything else: controlled panic
//@        self.entry_size == 40 || self.entry_size == 64,
//@        r.s_typ() == self.spec_typ(),
//@end

//@extract multiboot2/src/elf_sections.rs :: impl ElfSection<'_> :: fn section_type
//@  ret r
//@  rules Rlog
//@  spec:
//@    requires self.wf(), panics_allowed(),
//@    ensures r == spec_elf_type(self.spec_typ()), self.entry_size == 40 || self.entry_size == 64,
//@end

//@extract multiboot2/src/elf_sections.rs :: impl ElfSection<'_> :: fn section_type_raw
//@  ret r
//@  spec:
//@    requires self.wf(), panics_allowed(),
//@    ensures r == self.spec_typ(),
//@end
}

impl<'a> ElfSectionIter<'a> {
    /// iterator invariant: `remaining` entries of `entry_size` bytes from `current`
    /// and the string-table entry all lie inside the allocation
    pub open spec fn wf(&self) -> bool {
        &&& in_prov(self.current_section@.provenance, self.current_section@.addr as int, elf_span(self.remaining_sections as int, self.entry_size as int))
        &&& (self.remaining_sections > 0 ==> elf_entry_ok(self.string_section, self.entry_size))
    }

// `impl Iterator for ElfSectionIter` (R4)
//@extractall multiboot2/src/elf_sections.rs :: impl<'a> Iterator for ElfSectionIter<'a>
//@  type Item: skip
//@  fn *: nocontract
//@  fn *: rules R2
//@  fn *: sigrewrite /Self::Item/ => /ElfSection<'a>/ x*
//@  fn next: ret r
//@  fn next: sigrewrite /Self::Item/ => /ElfSection<'a>/ x*
//@  fn next: spec:
//@    requires old(self).wf(), panics_allowed(),
//@    ensures
//@        final(self).wf(), final(self).entry_size == old(self).entry_size, final(self).string_section == old(self).string_section,
//@        final(self).remaining_sections <= old(self).remaining_sections,
//@        r is None ==> final(self).remaining_sections == 0,
//@        r is Some ==> r->Some_0.wf(),
//@        // the yielded entry is the next in order: it starts where the iterator stood when `final.remaining + 1` entries were left
//@        r is Some ==> r->Some_0.inner@.addr + elf_span(final(self).remaining_sections + 1, old(self).entry_size as int) == old(self).current_section@.addr + elf_span(old(self).remaining_sections as int, old(self).entry_size as int),
//@        r is Some ==> r->Some_0.inner@.provenance == old(self).current_section@.provenance,
//@        r is Some ==> r->Some_0.entry_size == old(self).entry_size && r->Some_0.string_section == old(self).string_section,
//@        // yielded entries are exactly the ones whose raw type is a recognised in-use type
//@        r is Some ==> spec_elf_type(r->Some_0.spec_typ()) != ElfSectionType::Unused,
//@  fn next: loop 0:
//@            invariant
//@                self.wf(), panics_allowed(),
//@                self.entry_size == old(self).entry_size, self.string_section == old(self).string_section,
//@                self.remaining_sections <= old(self).remaining_sections,
//@                self.current_section@.provenance == old(self).current_section@.provenance,
//@                self.current_section@.addr + elf_span(self.remaining_sections as int, self.entry_size as int) == old(self).current_section@.addr + elf_span(old(self).remaining_sections as int, old(self).entry_size as int),
//@            decreases self.remaining_sections,
//@end
}

impl ElfSectionsTag {
//@extract multiboot2/src/elf_sections.rs :: impl ElfSectionsTag :: fn sections
//@  ret r
//@  sigrewrite /-> \(r: ElfSectionIter\)/ => /-> (r: ElfSectionIter<'_>)/
//@  prologue proof { lemma_elf_bounds(self.number_of_sections as int, self.entry_size as int, self.shndx as int); }
//@  spec:
//@    requires elf_tag_wf(self), panics_allowed(),
//@    ensures
//@        // C19: entry count / entry size / string-table index reaching outside the tag are rejected
//@        self.number_of_sections * self.entry_size <= self.sections@.len(),
//@        self.shndx < self.number_of_sections || self.shndx == 0,
//@        r.wf(),
//@        r.current_section@.addr == slice_addr(&self.sections), r.current_section@.provenance == ref_prov(self),
//@        r.remaining_sections == self.number_of_sections, r.entry_size == self.entry_size,
//@        r.string_section@.addr == slice_addr(&self.sections) + self.shndx * self.entry_size,
//@end
}

pub proof fn lemma_elf_bounds(n: int, es: int, sh: int)
    requires 0 <= n <= 0xffff_ffff, 0 <= es <= 0xffff_ffff, 0 <= sh <= 0xffff_ffff,
    ensures
        elf_span(n, es) == n * es, elf_span(sh, es) == sh * es, elf_span(sh + 1, es) == sh * es + es,
        n * es <= 0xffff_fffe_0000_0001, 0 <= n * es,
        sh < n ==> sh * es + es <= n * es && 0 <= sh * es,
        sh == 0 ==> sh * es == 0,
{
    lemma_span_def(n, es); lemma_span_def(sh, es); lemma_span_def(sh + 1, es);
    assert((sh + 1) * es == sh * es + es) by (nonlinear_arith);
    assert(n * es <= 0xffff_ffff * 0xffff_ffff) by (nonlinear_arith) requires 0 <= n <= 0xffff_ffff, 0 <= es <= 0xffff_ffff;
    assert(0 <= n * es) by (nonlinear_arith) requires 0 <= n, 0 <= es;
    if sh < n {
        assert(sh * es + es <= n * es) by (nonlinear_arith) requires sh + 1 <= n, 0 <= es;
        assert(0 <= sh * es) by (nonlinear_arith) requires 0 <= sh, 0 <= es;
    }
}
} // mod elf
} // verus!
