// Unit fragment: framebuffer colour-info decoding (C01, C04, C05).
verus! {

/// trusted layout of FramebufferTag (repr(C, align(8)); tail `buffer` at offset 32)
pub open spec fn fb_tag_wf(t: &FramebufferTag) -> bool {
    &&& tag_wf(t)
    &&& slice_addr(&t.buffer) == ref_addr(t) + 32
    &&& slice_prov(&t.buffer) == ref_prov(t)
    &&& t.buffer@.len() == ref_meta(t)
    &&& t.header.size == 32 + ref_meta(t)
    &&& in_prov(ref_prov(t), ref_addr(t) + 32, ref_meta(t) as int)
}

//@extract multiboot2/src/framebuffer.rs :: struct Reader
//@end
//@extract multiboot2/src/framebuffer.rs :: struct FramebufferColor
//@  keepattrs #\[(derive|repr)
//@  rewrite /#\[derive\([^)]*\)\]/ => /#[derive(Copy, Clone)]/
//@end
global layout FramebufferColor is size == 3, align == 1;
//@extract multiboot2/src/framebuffer.rs :: struct FramebufferField
//@  keepattrs #\[(derive|repr)
//@  rewrite /#\[derive\([^)]*\)\]/ => /#[derive(Copy, Clone)]/
//@end
//@extract multiboot2/src/framebuffer.rs :: struct UnknownFramebufferType
//@  keepattrs #\[derive
//@  rewrite /#\[derive\([^)]*\)\]/ => /#[derive(Copy, Clone)]/
//@end
//@extract multiboot2/src/framebuffer.rs :: enum FramebufferType
//@  keepattrs #\[derive
//@  rewrite /#\[derive\([^)]*\)\]/ => //
//@  rewrite /#\[allow\([^)]*\)\]/ => // x*
//@end

impl<'a> Reader<'a> {
//@extract multiboot2/src/framebuffer.rs :: impl<'a> Reader<'a> :: fn new
//@  ret r
//@  spec:
//@    ensures r.buffer == buffer, r.off == 0,
//@end
//@extract multiboot2/src/framebuffer.rs :: impl<'a> Reader<'a> :: fn read_next_u8
//@  ret r
//@  rewrite /self\s*\.buffer\s*\.get\(self\.off\)\s*\.cloned\(\)[\s\S]*?\.expect\("[^"]*"\)/ => /slice_get_u8(self.buffer, self.off)/
//@  spec:
//@    requires panics_allowed(), old(self).off <= old(self).buffer@.len(),
//@        old(self).buffer@.len() <= 0x7fff_ffff_ffff_ffff,   // Rust guarantee for every slice
//@    ensures old(self).off < old(self).buffer@.len(), r == old(self).buffer@[old(self).off as int],
//@        final(self).off == old(self).off + 1, final(self).buffer == old(self).buffer,
//@end
//@extract multiboot2/src/framebuffer.rs :: impl<'a> Reader<'a> :: fn read_next_u16
//@  ret r
//@  spec:
//@    requires panics_allowed(), old(self).off <= old(self).buffer@.len(),
//@        old(self).buffer@.len() <= 0x7fff_ffff_ffff_ffff,   // Rust guarantee for every slice
//@    ensures old(self).off + 1 < old(self).buffer@.len(),
//@        final(self).off == old(self).off + 2, final(self).buffer == old(self).buffer,
//@        // little-endian: low byte first
//@        r == ((old(self).buffer@[old(self).off + 1] as u16) << 8) | (old(self).buffer@[old(self).off as int] as u16),
//@end
//@extract multiboot2/src/framebuffer.rs :: impl<'a> Reader<'a> :: fn current_ptr
//@  ret r
//@  spec:
//@    requires self.off <= self.buffer@.len(), in_prov(slice_prov(self.buffer), slice_addr(self.buffer) as int, self.buffer@.len() as int),
//@    ensures r@.addr == slice_addr(self.buffer) + self.off, r@.provenance == slice_prov(self.buffer),
//@end
}

impl FramebufferTypeId {
// `impl TryFrom<u8> for FramebufferTypeId` (R4)
//@extract multiboot2/src/framebuffer.rs :: impl TryFrom<u8> for FramebufferTypeId :: fn try_from
//@  ret r
//@  sigrewrite /Self::Error/ => /UnknownFramebufferType/
//@  spec:
//@    ensures
//@        // C04/C20: classification of all 256 type bytes; unknown bytes are an error carrying the byte
//@        value == 0 ==> r == Ok::<Self, UnknownFramebufferType>(FramebufferTypeId::Indexed),
//@        value == 1 ==> r == Ok::<Self, UnknownFramebufferType>(FramebufferTypeId::RGB),
//@        value == 2 ==> r == Ok::<Self, UnknownFramebufferType>(FramebufferTypeId::Text),
//@        value > 2 ==> r == Err::<Self, UnknownFramebufferType>(UnknownFramebufferType(value)),
//@end
}

impl FramebufferTag {
//@extract multiboot2/src/framebuffer.rs :: impl FramebufferTag :: fn buffer_type
//@  ret r
//@  sigrewrite /Result<FramebufferType, UnknownFramebufferType>/ => /Result<FramebufferType<'_>, UnknownFramebufferType>/
//@  rewrite /FramebufferTypeId::try_from\(fb_type_raw\)\?/ => /match FramebufferTypeId::try_from(fb_type_raw) { Ok(t) => t, Err(e) => return Err(e) }/
//@  prologue proof { assert(size_of::<FramebufferColor>() == 3 && align_of::<FramebufferColor>() == 1); }
//@  spec:
//@    requires fb_tag_wf(self), panics_allowed(),
//@    ensures
//@        // unknown type byte: an error carrying that byte, never a known type
//@        self.framebuffer_type > 2 ==> r == Err::<FramebufferType<'_>, UnknownFramebufferType>(UnknownFramebufferType(self.framebuffer_type)),
//@        self.framebuffer_type <= 2 ==> r is Ok,
//@        self.framebuffer_type == 2 ==> r->Ok_0 is Text,
//@        self.framebuffer_type == 1 ==> r->Ok_0 is RGB,
//@        self.framebuffer_type == 0 ==> r->Ok_0 is Indexed,
//@        // C01/C05: the palette handed to the caller lies entirely inside the tag's colour-info bytes
//@        (r is Ok && r->Ok_0 is Indexed) ==> ({
//@            let p = r->Ok_0->palette;
//@            &&& slice_addr(p) == slice_addr(&self.buffer) + 2
//@            &&& slice_prov(p) == ref_prov(self)
//@            &&& 2 + p@.len() * 3 <= self.buffer@.len()
//@            // C04: the palette has exactly the stored number of colours (little-endian u16 at offset 0 of the colour info)
//@            &&& p@.len() == (((self.buffer@[1] as u16) << 8) | (self.buffer@[0] as u16))
//@        }),
//@        // C04: the RGB field descriptions are the six stored bytes, in the specified order
//@        (r is Ok && r->Ok_0 is RGB) ==> ({
//@            let t = r->Ok_0;
//@            &&& t->red.position == self.buffer@[0] && t->red.size == self.buffer@[1]
//@            &&& t->green.position == self.buffer@[2] && t->green.size == self.buffer@[3]
//@            &&& t->blue.position == self.buffer@[4] && t->blue.size == self.buffer@[5]
//@        }),
//@end
}

// ---------------------------------------------------------------------------
// BootInformation::framebuffer_tag (C04: first type-8 tag; "a framebuffer tag with an unknown type
// byte is reported as an error carrying that byte, never as a known type")
// ---------------------------------------------------------------------------
impl Tag for FramebufferTag {
//@extractall multiboot2/src/framebuffer.rs :: impl Tag for FramebufferTag
//@  const ID: novis
//@end
}

/// the tag header stored at the start of a typed tag reference
pub open spec fn fb_hdr_dec(t: &FramebufferTag) -> TagHeader {
    decode::<TagHeader>(mem_at(ref_prov(t), ref_addr(t) as int, 8))
}

/// TRUSTED layout statement for the repr(C, align(8)) DST `FramebufferTag` (fixed part 32 bytes: header 8,
/// address 8, pitch/width/height 3 x 4, bpp 1, type 1, padding 2; tail `[u8]`): a typed view as `cast` produces it
/// (same address, metadata = size - 32) has its `header` field at offset 0 -- so the field's value is the decoded
/// header -- and its `buffer` tail at offset 32 with `metadata` elements, inside the object.  Same kind of
/// statement as DynSizedStructure::{header,payload}; checked on the compiled type by the Kani harnesses
/// k_fb_* (palette pointer == byte 34 of the tag, field decodes) and by n_mbi_getters_many_tags.
#[verifier::external_body]
pub broadcast proof fn axiom_fb_tag_layout(t: &FramebufferTag)
    requires
        tag_wf(t),
        <FramebufferTag as MaybeDynSized>::dst_len_ok(&fb_hdr_dec(t)),
        ref_meta(t) == <FramebufferTag as MaybeDynSized>::dst_len_spec(&fb_hdr_dec(t)),
    ensures
        #[trigger] fb_tag_wf(t),
        t.header == fb_hdr_dec(t),
{
}

impl<'a> BootInformation<'a> {
//@extract multiboot2/src/boot_information.rs :: impl<'a> BootInformation<'a> :: fn framebuffer_tag
//@  ret r
//@  optional
//@  closure 0: |tag: &FramebufferTag| -> (c: Result<&FramebufferTag, UnknownFramebufferType>) requires fb_tag_wf(tag), panics_allowed() ensures tag.framebuffer_type > 2 ==> c is Err && c->Err_0 == UnknownFramebufferType(tag.framebuffer_type), tag.framebuffer_type <= 2 ==> c is Ok && ref_addr(c->Ok_0) == ref_addr(tag) && ref_prov(c->Ok_0) == ref_prov(tag) && ref_meta(c->Ok_0) == ref_meta(tag)
//@  prologue broadcast use axiom_fb_tag_layout;
//@  spec:
//@    requires self.wf(), panics_allowed(),
//@    ensures
//@        // with x = the first tag of type 8 in walk order (if any)
//@        exists|x: Option<&FramebufferTag>| #[trigger] mb_getter_post::<FramebufferTag>(self, 8, x)
//@            && (x is None ==> r is None)
//@            && (x is Some ==> r is Some && ({
//@                let t = x->Some_0;
//@                // unknown type byte: an error carrying that byte, never a known type
//@                &&& t.framebuffer_type > 2 ==> r->Some_0 is Err && r->Some_0->Err_0 == UnknownFramebufferType(t.framebuffer_type)
//@                // known type byte: that very tag
//@                &&& t.framebuffer_type <= 2 ==> r->Some_0 is Ok && ref_addr(r->Some_0->Ok_0) == ref_addr(t)
//@                        && ref_prov(r->Some_0->Ok_0) == ref_prov(t) && ref_meta(r->Some_0->Ok_0) == ref_meta(t)
//@            })),
//@end
}

} // verus!
