// Unit fragment: `impl Tag for <kind>` and the typed getters of BootInformation for the
// dynamically sized tag kinds (C04 first sentence).  The type numbers in the postconditions are
// the Multiboot2 specification's (3.6.x), written as literals: a kind whose `Tag::ID` disagrees,
// or a getter that asks for another kind, fails.
verus! {

impl Tag for CommandLineTag {
//@extractall multiboot2/src/command_line.rs :: impl Tag for CommandLineTag
//@  const ID: novis
//@end
}

impl Tag for BootLoaderNameTag {
//@extractall multiboot2/src/boot_loader_name.rs :: impl Tag for BootLoaderNameTag
//@  const ID: novis
//@end
}

impl Tag for ModuleTag {
//@extractall multiboot2/src/module.rs :: impl Tag for ModuleTag
//@  const ID: novis
//@end
}

impl Tag for MemoryMapTag {
//@extractall multiboot2/src/memory_map.rs :: impl Tag for MemoryMapTag
//@  const ID: novis
//@end
}

impl Tag for FramebufferTag {
//@extractall multiboot2/src/framebuffer.rs :: impl Tag for FramebufferTag
//@  const ID: novis
//@end
}

impl Tag for ElfSectionsTag {
//@extractall multiboot2/src/elf_sections.rs :: impl Tag for ElfSectionsTag
//@  const ID: novis
//@end
}

impl Tag for SmbiosTag {
//@extractall multiboot2/src/smbios.rs :: impl Tag for SmbiosTag
//@  const ID: novis
//@end
}

impl Tag for NetworkTag {
//@extractall multiboot2/src/network.rs :: impl Tag for NetworkTag
//@  const ID: novis
//@end
}

impl Tag for EFIMemoryMapTag {
//@extractall multiboot2/src/memory_map.rs :: impl Tag for EFIMemoryMapTag
//@  const ID: novis
//@end
}

// ---- EFIBootServicesNotExitedTag (sized, 8 bytes): needed for the EFI memory map withholding rule ----
//@extract multiboot2/src/efi.rs :: struct EFIBootServicesNotExitedTag
//@end
global layout EFIBootServicesNotExitedTag is size == 8, align == 8;
impl Pointee for EFIBootServicesNotExitedTag {
    type Metadata = ();   // sized type
}
impl MaybeDynSized for EFIBootServicesNotExitedTag {
    open spec fn layout_size(meta: ()) -> nat { 8 }
    open spec fn dst_len_ok(header: &TagHeader) -> bool { true }
    open spec fn dst_len_spec(header: &TagHeader) -> () { () }
//@extractall multiboot2/src/efi.rs :: impl MaybeDynSized for EFIBootServicesNotExitedTag
//@  fn *: novis
//@  fn dst_len: novis
//@  fn dst_len: sigrewrite /\(_: &TagHeader\)/ => /(_header: &TagHeader)/
//@end
}
impl Tag for EFIBootServicesNotExitedTag {
//@extractall multiboot2/src/efi.rs :: impl Tag for EFIBootServicesNotExitedTag
//@  const ID: novis
//@end
}

impl<'a> BootInformation<'a> {
//@extract multiboot2/src/boot_information.rs :: impl<'a> BootInformation<'a> :: fn command_line_tag
//@  ret r
//@  optional
//@  spec:
//@    requires self.wf(), panics_allowed(),
//@    ensures mb_getter_post::<CommandLineTag>(self, 1, r),   // specification: type = 1
//@end

//@extract multiboot2/src/boot_information.rs :: impl<'a> BootInformation<'a> :: fn boot_loader_name_tag
//@  ret r
//@  optional
//@  spec:
//@    requires self.wf(), panics_allowed(),
//@    ensures mb_getter_post::<BootLoaderNameTag>(self, 2, r),   // specification: type = 2
//@end

//@extract multiboot2/src/boot_information.rs :: impl<'a> BootInformation<'a> :: fn memory_map_tag
//@  ret r
//@  optional
//@  spec:
//@    requires self.wf(), panics_allowed(),
//@    ensures mb_getter_post::<MemoryMapTag>(self, 6, r),   // specification: type = 6
//@end

//@extract multiboot2/src/boot_information.rs :: impl<'a> BootInformation<'a> :: fn elf_sections_tag
//@  ret r
//@  optional
//@  spec:
//@    requires self.wf(), panics_allowed(),
//@    ensures mb_getter_post::<ElfSectionsTag>(self, 9, r),   // specification: type = 9
//@end

//@extract multiboot2/src/boot_information.rs :: impl<'a> BootInformation<'a> :: fn smbios_tag
//@  ret r
//@  optional
//@  spec:
//@    requires self.wf(), panics_allowed(),
//@    ensures mb_getter_post::<SmbiosTag>(self, 13, r),   // specification: type = 13
//@end

//@extract multiboot2/src/boot_information.rs :: impl<'a> BootInformation<'a> :: fn network_tag
//@  ret r
//@  optional
//@  spec:
//@    requires self.wf(), panics_allowed(),
//@    ensures mb_getter_post::<NetworkTag>(self, 16, r),   // specification: type = 16
//@end


//@extract multiboot2/src/boot_information.rs :: impl<'a> BootInformation<'a> :: fn efi_bs_not_exited_tag
//@  ret r
//@  optional
//@  spec:
//@    requires self.wf(), panics_allowed(),
//@    ensures mb_getter_post::<EFIBootServicesNotExitedTag>(self, 18, r),   // specification: type = 18
//@end

//@extract multiboot2/src/boot_information.rs :: impl<'a> BootInformation<'a> :: fn efi_memory_map_tag
//@  ret r
//@  optional
//@  rules Rlog
//@  closure 0: || -> (c: Option<&EFIMemoryMapTag>) requires self.wf(), panics_allowed() ensures mb_getter_post::<EFIMemoryMapTag>(self, 17, c)
//@  closure 1: |_tag: &EFIBootServicesNotExitedTag| -> (c: Option<&EFIMemoryMapTag>) ensures c is None
//@  spec:
//@    requires self.wf(), panics_allowed(),
//@    ensures
//@        // C04: "The EFI memory map is withheld while a boot-services-not-exited tag is present":
//@        // with x = the first tag of type 18 (if any): present => nothing; absent => the first tag of type 17
//@        exists|x: Option<&EFIBootServicesNotExitedTag>| #[trigger] mb_getter_post::<EFIBootServicesNotExitedTag>(self, 18, x)
//@            && (x is Some ==> r is None)
//@            && (x is None ==> mb_getter_post::<EFIMemoryMapTag>(self, 17, r)),
//@end

//@extract multiboot2/src/boot_information.rs :: impl<'a> BootInformation<'a> :: fn module_tags
//@  ret r
//@  optional
//@  sigrewrite /-> \(r: ModuleIter\)/ => /-> (r: ModuleIter<'a>)/
//@  spec:
//@    requires self.wf(),
//@    ensures mbi_iter(self, r.iter),   // C04: the module iterator starts at the first tag of the region
//@end
}

// ---- module.rs: the iterator over all module tags -------------------------------------------
//@extract multiboot2/src/module.rs :: struct ModuleIter
//@  rewrite /TagIter<'a>/ => /TagIter<'a, TagHeader>/
//@end
//@extract multiboot2/src/module.rs :: fn module_iter
//@  ret r
//@  sigrewrite /iter: TagIter\b/ => /iter: TagIter<'a, TagHeader>/
//@  sigrewrite /fn module_iter\(/ => /fn module_iter<'a>(/
//@  sigrewrite /-> \(r: ModuleIter\)/ => /-> (r: ModuleIter<'a>)/
//@  spec:
//@    ensures r.iter == iter,
//@end
pub mod module { pub use super::module_iter; }

impl<'a> ModuleIter<'a> {
// `impl Iterator for ModuleIter` (R4: hosted as an inherent method)
//@extractall multiboot2/src/module.rs :: impl<'a> Iterator for ModuleIter<'a>
//@  onlyfns next
//@  type Item: skip
//@  fn next: ret r
//@  fn next: closure 0: |tag: &&'a DynSizedStructure<TagHeader>| -> (b: bool) ensures b == (dyn_hdr(*tag).typ.0 == 3)
//@  fn next: closure 1: |tag: &'a DynSizedStructure<TagHeader>| -> (c: &'a ModuleTag) requires dyn_wf(tag) ensures cast_post(tag, c)
//@  fn next: rewrite /self\s*\.iter\s*\.find\(/ => /tagiter_find(&mut self.iter, /
//@  fn next: spec:
//@    requires old(self).iter.wf(), panics_allowed(),
//@    ensures
//@        // C04: each call yields the next tag of type 3 (module) in walk order, from where the previous call stopped
//@        getter_post::<TagHeader, ModuleTag>(old(self).iter, typ_is(3), r),
//@        final(self).iter.wf(), final(self).iter.buffer == old(self).iter.buffer,
//@        r is None ==> final(self).iter.next_tag_offset == final(self).iter.buffer@.len(),
//@        r is Some ==> final(self).iter.next_tag_offset as int == (ref_addr(r->Some_0) - slice_addr(old(self).iter.buffer)) + val_size(r->Some_0),
//@end
}

} // verus!
