// Unit fragment: `impl Tag for <kind>` and the typed getters of BootInformation for the
// FIXED-SIZE tag kinds (C04 first sentence), hosted in the builder unit because that unit
// already extracts every fixed-size kind.  Type numbers: Multiboot2 specification 3.6.x, literals.
verus! {

impl Tag for BasicMemoryInfoTag {
//@extractall multiboot2/src/memory_map.rs :: impl Tag for BasicMemoryInfoTag
//@  const ID: novis
//@end
}

impl Tag for BootdevTag {
//@extractall multiboot2/src/bootdev.rs :: impl Tag for BootdevTag
//@  const ID: novis
//@end
}

impl Tag for VBEInfoTag {
//@extractall multiboot2/src/vbe_info.rs :: impl Tag for VBEInfoTag
//@  const ID: novis
//@end
}

impl Tag for ApmTag {
//@extractall multiboot2/src/apm.rs :: impl Tag for ApmTag
//@  const ID: novis
//@end
}

impl Tag for EFISdt32Tag {
//@extractall multiboot2/src/efi.rs :: impl Tag for EFISdt32Tag
//@  const ID: novis
//@end
}

impl Tag for EFISdt64Tag {
//@extractall multiboot2/src/efi.rs :: impl Tag for EFISdt64Tag
//@  const ID: novis
//@end
}

impl Tag for RsdpV1Tag {
//@extractall multiboot2/src/rsdp.rs :: impl Tag for RsdpV1Tag
//@  const ID: novis
//@end
}

impl Tag for RsdpV2Tag {
//@extractall multiboot2/src/rsdp.rs :: impl Tag for RsdpV2Tag
//@  const ID: novis
//@end
}

impl Tag for EFIImageHandle32Tag {
//@extractall multiboot2/src/efi.rs :: impl Tag for EFIImageHandle32Tag
//@  const ID: novis
//@end
}

impl Tag for EFIImageHandle64Tag {
//@extractall multiboot2/src/efi.rs :: impl Tag for EFIImageHandle64Tag
//@  const ID: novis
//@end
}

impl Tag for ImageLoadPhysAddrTag {
//@extractall multiboot2/src/image_load_addr.rs :: impl Tag for ImageLoadPhysAddrTag
//@  const ID: novis
//@end
}

impl<'a> BootInformation<'a> {
//@extract multiboot2/src/boot_information.rs :: impl<'a> BootInformation<'a> :: fn basic_memory_info_tag
//@  ret r
//@  optional
//@  spec:
//@    requires self.wf(), panics_allowed(),
//@    ensures mb_getter_post::<BasicMemoryInfoTag>(self, 4, r),   // specification: type = 4
//@end

//@extract multiboot2/src/boot_information.rs :: impl<'a> BootInformation<'a> :: fn bootdev_tag
//@  ret r
//@  optional
//@  spec:
//@    requires self.wf(), panics_allowed(),
//@    ensures mb_getter_post::<BootdevTag>(self, 5, r),   // specification: type = 5
//@end

//@extract multiboot2/src/boot_information.rs :: impl<'a> BootInformation<'a> :: fn vbe_info_tag
//@  ret r
//@  optional
//@  spec:
//@    requires self.wf(), panics_allowed(),
//@    ensures mb_getter_post::<VBEInfoTag>(self, 7, r),   // specification: type = 7
//@end

//@extract multiboot2/src/boot_information.rs :: impl<'a> BootInformation<'a> :: fn apm_tag
//@  ret r
//@  optional
//@  spec:
//@    requires self.wf(), panics_allowed(),
//@    ensures mb_getter_post::<ApmTag>(self, 10, r),   // specification: type = 10
//@end

//@extract multiboot2/src/boot_information.rs :: impl<'a> BootInformation<'a> :: fn efi_sdt32_tag
//@  ret r
//@  optional
//@  spec:
//@    requires self.wf(), panics_allowed(),
//@    ensures mb_getter_post::<EFISdt32Tag>(self, 11, r),   // specification: type = 11
//@end

//@extract multiboot2/src/boot_information.rs :: impl<'a> BootInformation<'a> :: fn efi_sdt64_tag
//@  ret r
//@  optional
//@  spec:
//@    requires self.wf(), panics_allowed(),
//@    ensures mb_getter_post::<EFISdt64Tag>(self, 12, r),   // specification: type = 12
//@end

//@extract multiboot2/src/boot_information.rs :: impl<'a> BootInformation<'a> :: fn rsdp_v1_tag
//@  ret r
//@  optional
//@  spec:
//@    requires self.wf(), panics_allowed(),
//@    ensures mb_getter_post::<RsdpV1Tag>(self, 14, r),   // specification: type = 14
//@end

//@extract multiboot2/src/boot_information.rs :: impl<'a> BootInformation<'a> :: fn rsdp_v2_tag
//@  ret r
//@  optional
//@  spec:
//@    requires self.wf(), panics_allowed(),
//@    ensures mb_getter_post::<RsdpV2Tag>(self, 15, r),   // specification: type = 15
//@end

//@extract multiboot2/src/boot_information.rs :: impl<'a> BootInformation<'a> :: fn efi_ih32_tag
//@  ret r
//@  optional
//@  spec:
//@    requires self.wf(), panics_allowed(),
//@    ensures mb_getter_post::<EFIImageHandle32Tag>(self, 19, r),   // specification: type = 19
//@end

//@extract multiboot2/src/boot_information.rs :: impl<'a> BootInformation<'a> :: fn efi_ih64_tag
//@  ret r
//@  optional
//@  spec:
//@    requires self.wf(), panics_allowed(),
//@    ensures mb_getter_post::<EFIImageHandle64Tag>(self, 20, r),   // specification: type = 20
//@end

//@extract multiboot2/src/boot_information.rs :: impl<'a> BootInformation<'a> :: fn load_base_addr_tag
//@  ret r
//@  optional
//@  spec:
//@    requires self.wf(), panics_allowed(),
//@    ensures mb_getter_post::<ImageLoadPhysAddrTag>(self, 21, r),   // specification: type = 21
//@end

}

} // verus!
