// Unit fragment: multiboot2/src/tag_type.rs conversions (C20), verbatim.
verus! {

//@extract multiboot2/src/tag_type.rs :: struct TagTypeId
//@  keepattrs #\[(repr|derive)
//@  rewrite /#\[derive\([^)]*\)\]/ => /#[derive(Copy, Clone)]/
//@end

global layout TagTypeId is size == 4, align == 4;

//@extract multiboot2/src/tag_type.rs :: enum TagType
//@  keepattrs #\[derive
//@  rewrite /#\[derive\([^)]*\)\]/ => /#[derive(Copy, Clone)]/
//@end

/// specification table (Multiboot2 spec 3.6): number -> variant
pub open spec fn spec_tag_type(v: u32) -> TagType {
    if v == 0 { TagType::End } else if v == 1 { TagType::Cmdline } else if v == 2 { TagType::BootLoaderName }
    else if v == 3 { TagType::Module } else if v == 4 { TagType::BasicMeminfo } else if v == 5 { TagType::Bootdev }
    else if v == 6 { TagType::Mmap } else if v == 7 { TagType::Vbe } else if v == 8 { TagType::Framebuffer }
    else if v == 9 { TagType::ElfSections } else if v == 10 { TagType::Apm } else if v == 11 { TagType::Efi32 }
    else if v == 12 { TagType::Efi64 } else if v == 13 { TagType::Smbios } else if v == 14 { TagType::AcpiV1 }
    else if v == 15 { TagType::AcpiV2 } else if v == 16 { TagType::Network } else if v == 17 { TagType::EfiMmap }
    else if v == 18 { TagType::EfiBs } else if v == 19 { TagType::Efi32Ih } else if v == 20 { TagType::Efi64Ih }
    else if v == 21 { TagType::LoadBaseAddr } else { TagType::Custom(v) }
}
/// the number of a (possibly non-canonical) TagType value
pub open spec fn spec_tag_num(t: TagType) -> u32 {
    match t {
        TagType::End => 0, TagType::Cmdline => 1, TagType::BootLoaderName => 2, TagType::Module => 3,
        TagType::BasicMeminfo => 4, TagType::Bootdev => 5, TagType::Mmap => 6, TagType::Vbe => 7,
        TagType::Framebuffer => 8, TagType::ElfSections => 9, TagType::Apm => 10, TagType::Efi32 => 11,
        TagType::Efi64 => 12, TagType::Smbios => 13, TagType::AcpiV1 => 14, TagType::AcpiV2 => 15,
        TagType::Network => 16, TagType::EfiMmap => 17, TagType::EfiBs => 18, TagType::Efi32Ih => 19,
        TagType::Efi64Ih => 20, TagType::LoadBaseAddr => 21, TagType::Custom(c) => c,
    }
}

impl vstd::std_specs::convert::FromSpecImpl<u32> for TagType {
    open spec fn obeys_from_spec() -> bool { true }
    open spec fn from_spec(v: u32) -> TagType { spec_tag_type(v) }
}
impl From<u32> for TagType {
//@extract multiboot2/src/tag_type.rs :: mod primitive_conversion_impls :: impl From<u32> for TagType :: fn from
//@  novis
//@end
}

impl vstd::std_specs::convert::FromSpecImpl<TagType> for u32 {
    open spec fn obeys_from_spec() -> bool { true }
    open spec fn from_spec(t: TagType) -> u32 { spec_tag_num(t) }
}
impl From<TagType> for u32 {
//@extract multiboot2/src/tag_type.rs :: mod primitive_conversion_impls :: impl From<TagType> for u32 :: fn from
//@  novis
//@end
}

impl vstd::std_specs::convert::FromSpecImpl<TagTypeId> for u32 {
    open spec fn obeys_from_spec() -> bool { true }
    open spec fn from_spec(t: TagTypeId) -> u32 { t.0 }
}
impl From<TagTypeId> for u32 {
//@extract multiboot2/src/tag_type.rs :: mod primitive_conversion_impls :: impl From<TagTypeId> for u32 :: fn from
//@  novis
//@end
}

// C20 lemmas over ALL u32 (symbolic, not enumerated)
pub proof fn lemma_tagtype_roundtrip(v: u32)
    ensures spec_tag_num(spec_tag_type(v)) == v,
        v <= 21 ==> !(spec_tag_type(v) is Custom),
        v > 21 ==> spec_tag_type(v) == TagType::Custom(v),
{
}
pub proof fn lemma_tagtype_injective(a: u32, b: u32)
    ensures (spec_tag_type(a) == spec_tag_type(b)) <==> (a == b),
{
    lemma_tagtype_roundtrip(a);
    lemma_tagtype_roundtrip(b);
}

pub fn tagtype_roundtrip_exec(v: u32) -> (r: u32)
    ensures r == v,
{
    let t = TagType::from(v);
    proof { lemma_tagtype_roundtrip(v); }
    u32::from(t)
}

} // verus!
