// ===========================================================================
// TRUSTED PRELUDE (engine V).  Everything in this file is *assumed*: it is the
// pointer-extent model against which the extracted code is verified.  Listed
// in every evidence file under `trusted_base`.
// ===========================================================================
#![allow(unused_imports, unused_macros, unused_variables, dead_code, unused_unsafe, non_camel_case_types, unused_parens, unused_mut, unused_braces)]
#![feature(sized_hierarchy)]
use vstd::prelude::*;
use vstd::raw_ptr::*;
use core::marker::PhantomData;
use core::ops::Deref;
use core::ptr::NonNull;

// --- panic model: `assert!` & friends become a call that is only permitted
// --- where the contract says a controlled panic is an acceptable outcome.
macro_rules! assert {
    ($c:expr $(,)?) => { if !($c) { controlled_panic() } };
    ($c:expr, $($arg:tt)+) => { if !($c) { controlled_panic() } };
}
macro_rules! assert_eq {
    ($a:expr, $b:expr $(,)?) => { if !($a == $b) { controlled_panic() } };
    ($a:expr, $b:expr, $($arg:tt)+) => { if !($a == $b) { controlled_panic() } };
}
macro_rules! assert_ne {
    ($a:expr, $b:expr $(,)?) => { if $a == $b { controlled_panic() } };
    ($a:expr, $b:expr, $($arg:tt)+) => { if $a == $b { controlled_panic() } };
}

// an explicit panic is a controlled panic: only allowed where the contract lists that outcome
macro_rules! panic {
    ($($arg:tt)*) => { controlled_panic() };
}
macro_rules! unreachable {
    ($($arg:tt)*) => { controlled_panic() };
}

// debug assertions do not exist in release builds: verified as absent (the worst case)
macro_rules! debug_assert {
    ($($arg:tt)*) => { () };
}
macro_rules! debug_assert_eq {
    ($($arg:tt)*) => { () };
}
macro_rules! debug_assert_ne {
    ($($arg:tt)*) => { () };
}

verus! {

global size_of usize == 8;

broadcast use vstd::layout::layout_of_primitives;

/// `true` in contexts whose contract lists "a controlled panic" as an
/// acceptable outcome.  Total functions do not assume it, so every panic
/// site in them must be proved unreachable.  Arithmetic overflow is never
/// covered by it (Verus checks overflow natively, always).
pub uninterp spec fn panics_allowed() -> bool;

#[verifier::external_body]
pub const fn controlled_panic() -> !
    requires panics_allowed(),
{
    loop {}
}

pub trait VUnwrapOpt<T>: Sized {
    spec fn vu_ok(&self) -> bool;
    spec fn vu_val(&self) -> T;
    fn vunwrap(self) -> (r: T)
        requires panics_allowed() || self.vu_ok(),
        ensures self.vu_ok(), r == self.vu_val();
}
impl<T> VUnwrapOpt<T> for Option<T> {
    open spec fn vu_ok(&self) -> bool { self is Some }
    open spec fn vu_val(&self) -> T { self->Some_0 }
    fn vunwrap(self) -> (r: T) {
        match self { Some(v) => v, None => controlled_panic() }
    }
}
/// `.unwrap()` on a Result (explicit rewrite at each site; a trait method on
/// Result<T, E> trips a Verus limitation when used from trait default methods)
pub fn res_unwrap<T, E>(x: Result<T, E>) -> (r: T)
    requires panics_allowed() || x is Ok,
    ensures x is Ok, r == x->Ok_0,
{
    match x { Ok(v) => v, Err(e) => controlled_panic() }
}

// --------------------------------------------------------------------------
// Memory model.  A Provenance stands for an *allocation-level* readable
// extent: [prov_base, prov_base + prov_bytes.len()) with immutable contents
// prov_bytes (sound while the originating shared borrow / the caller's
// `unsafe` promise is alive, which the lifetimes enforce).
// --------------------------------------------------------------------------
pub uninterp spec fn prov_base(p: Provenance) -> int;
pub uninterp spec fn prov_bytes(p: Provenance) -> Seq<u8>;
pub open spec fn prov_end(p: Provenance) -> int { prov_base(p) + prov_bytes(p).len() }

/// [addr, addr+len) lies inside the allocation `p` stands for.  Includes the
/// Rust guarantee for every allocation: at most isize::MAX bytes, no address wrap.
pub open spec fn in_prov(p: Provenance, addr: int, len: int) -> bool {
    prov_base(p) <= addr && len >= 0 && addr + len <= prov_end(p)
    && 0 < prov_base(p) && prov_bytes(p).len() <= 0x7fff_ffff_ffff_ffff && prov_end(p) <= usize::MAX
}
pub open spec fn mem_at(p: Provenance, addr: int, len: int) -> Seq<u8> {
    prov_bytes(p).subrange(addr - prov_base(p), addr - prov_base(p) + len)
}

pub open spec fn round8(n: int) -> int { ((n + 7) / 8) * 8 }

// slices
pub uninterp spec fn slice_addr<T>(s: &[T]) -> usize;
pub uninterp spec fn slice_prov<T>(s: &[T]) -> Provenance;
pub open spec fn slice_wf(s: &[u8]) -> bool {
    in_prov(slice_prov(s), slice_addr(s) as int, s@.len() as int)
    && s@ == mem_at(slice_prov(s), slice_addr(s) as int, s@.len() as int)
}
/// A generic slice of `T` (element size es) lies inside its allocation.
pub open spec fn tslice_wf<T>(s: &[T], es: int) -> bool {
    in_prov(slice_prov(s), slice_addr(s) as int, s@.len() * es)
}

// references
pub uninterp spec fn ref_addr<T: ?Sized>(r: &T) -> usize;
pub uninterp spec fn ref_prov<T: ?Sized>(r: &T) -> Provenance;
pub uninterp spec fn val_size<T: ?Sized>(r: &T) -> nat;       // == mem::size_of_val(r)
pub open spec fn obj_wf<T: ?Sized>(r: &T) -> bool {
    in_prov(ref_prov(r), ref_addr(r) as int, val_size(r) as int) && ref_addr(r) as int % 8 == 0
}
pub open spec fn obj_bytes<T: ?Sized>(r: &T) -> Seq<u8> {
    mem_at(ref_prov(r), ref_addr(r) as int, val_size(r) as int)
}
/// value of a sized object as a function of its bytes (layout is the
/// compiler's; engine K checks the concrete little-endian decodings)
pub uninterp spec fn decode<T>(b: Seq<u8>) -> T;

pub open spec fn within(a: int, alen: int, b: int, blen: int) -> bool {
    b <= a && alen >= 0 && a + alen <= b + blen
}

/// alignment requirement of `T` at `addr`.  Alignments are powers of two (Rust
/// guarantee), so any alignment <= 8 divides 8; stating it this way keeps the
/// variable-modulus `%` out of the solver's way.
pub open spec fn ptr_aligned<T>(addr: int) -> bool {
    (align_of::<T>() <= 8 && addr % 8 == 0) || addr % (align_of::<T>() as int) == 0
}

// raw pointer primitives ---------------------------------------------------
pub assume_specification<T>[<[T]>::as_ptr](s: &[T]) -> (p: *const T)
    ensures p@.addr == slice_addr(s), p@.provenance == slice_prov(s);

// `add`/`sub` are specified for byte-sized pointees only (every use in the
// code base is on *const u8); this keeps the symbolic product n * size_of::<T>()
// -- a source of solver instability -- out of the obligations.
pub assume_specification<T>[<*const T>::add](p: *const T, n: usize) -> (r: *const T)
    requires
        size_of::<T>() == 1,
        prov_base(p@.provenance) <= p@.addr + n <= prov_end(p@.provenance),
    ensures r@.addr == p@.addr + n, r@.provenance == p@.provenance;

pub assume_specification<T>[<*const T>::sub](p: *const T, n: usize) -> (r: *const T)
    requires
        size_of::<T>() == 1,
        prov_base(p@.provenance) <= p@.addr - n <= prov_end(p@.provenance),
    ensures r@.addr == p@.addr - n, r@.provenance == p@.provenance;

pub assume_specification<T>[<*const T>::offset](p: *const T, n: isize) -> (r: *const T)
    requires
        size_of::<T>() == 1,
        prov_base(p@.provenance) <= p@.addr + n <= prov_end(p@.provenance),
    ensures r@.addr == p@.addr + n, r@.provenance == p@.provenance;

pub assume_specification<T: core::marker::PointeeSized, U>[<*const T>::cast::<U>](p: *const T) -> (r: *const U)
    ensures r@.addr == p@.addr, r@.provenance == p@.provenance;

pub assume_specification<T>[<*const T>::align_offset](p: *const T, align: usize) -> (r: usize)
    requires align == 8, size_of::<T>() == 1,
    ensures (r == 0) <==> (p@.addr as int % 8 == 0);

#[verifier::reject_recursive_types(T)]
#[verifier::external_type_specification]
#[verifier::external_body]
pub struct ExNonNull<T: core::marker::PointeeSized>(core::ptr::NonNull<T>);

pub uninterp spec fn nonnull_ptr<T: core::marker::PointeeSized>(n: NonNull<T>) -> *mut T;
pub assume_specification<T: core::marker::PointeeSized>[NonNull::<T>::new](p: *mut T) -> (r: Option<NonNull<T>>)
    ensures (r is None) <==> (p@.addr == 0), r is Some ==> nonnull_ptr(r->Some_0) == p;
pub assume_specification<T: core::marker::PointeeSized>[NonNull::<T>::as_ptr](n: NonNull<T>) -> (r: *mut T)
    ensures r == nonnull_ptr(n);
pub assume_specification<T: core::marker::PointeeSized>[<*mut T>::cast_const](p: *mut T) -> (r: *const T)
    ensures r@.addr == p@.addr, r@.provenance == p@.provenance;
pub assume_specification<T: core::marker::PointeeSized>[<*const T>::cast_mut](p: *const T) -> (r: *mut T)
    ensures r@.addr == p@.addr, r@.provenance == p@.provenance;

/// `&*p` for a thin pointer to a sized `T` (rewrite rule R2).
#[verifier::external_body]
pub fn deref_raw<'a, T>(p: *const T) -> (r: &'a T)
    requires
        in_prov(p@.provenance, p@.addr as int, size_of::<T>() as int),
        ptr_aligned::<T>(p@.addr as int),
    ensures
        ref_addr(r) == p@.addr,
        ref_prov(r) == p@.provenance,
        val_size(r) == size_of::<T>(),
        *r == decode::<T>(mem_at(p@.provenance, p@.addr as int, size_of::<T>() as int)),
{
    unsafe { &*p }
}

/// `p.as_ref().unwrap()` for a thin pointer (explicit rewrite at the site):
/// null is a controlled panic; anything else is a dereference.
#[verifier::external_body]
pub fn ptr_as_ref_unwrap<'a, T>(p: *const T) -> (r: &'a T)
    requires
        panics_allowed() || p@.addr != 0,
        p@.addr != 0 ==> in_prov(p@.provenance, p@.addr as int, size_of::<T>() as int) && ptr_aligned::<T>(p@.addr as int),
    ensures
        p@.addr != 0,
        ref_addr(r) == p@.addr,
        ref_prov(r) == p@.provenance,
        val_size(r) == size_of::<T>(),
        *r == decode::<T>(mem_at(p@.provenance, p@.addr as int, size_of::<T>() as int)),
{
    unsafe { p.as_ref().unwrap() }
}

/// `p.is_aligned()`: alignment of the POINTEE type (not a fixed 8)
pub assume_specification<T>[<*const T>::is_aligned](p: *const T) -> (r: bool)
    ensures r == (p@.addr as int % align_of::<T>() as int == 0);

/// `x.next_multiple_of(m)`: panics for m == 0 and (with overflow checks) when the result does not fit:
/// both are obligations here, like every arithmetic overflow
/// `Option::map_or_else` (core): `None` -> `default()`, `Some(x)` -> `f(x)`  (TRUSTED std specification)
pub assume_specification<T, U, D: FnOnce() -> U, F: FnOnce(T) -> U>[Option::<T>::map_or_else](o: Option<T>, default: D, f: F) -> (r: U)
    requires
        o is None ==> default.requires(()),
        o is Some ==> f.requires((o->Some_0,)),
    ensures
        o is None ==> default.ensures((), r),
        o is Some ==> f.ensures((o->Some_0,), r);

/// `u32::wrapping_neg` (core): two's-complement negation (TRUSTED std specification)
pub assume_specification[u32::wrapping_neg](x: u32) -> (r: u32)
    ensures r as int == (0x1_0000_0000 - x as int) % 0x1_0000_0000;

pub assume_specification[u32::next_multiple_of](x: u32, m: u32) -> (r: u32)
    requires m != 0, ((x as int + m as int - 1) / (m as int)) * (m as int) <= u32::MAX,
    ensures r as int == ((x as int + m as int - 1) / (m as int)) * (m as int);
pub assume_specification[usize::next_multiple_of](x: usize, m: usize) -> (r: usize)
    requires m != 0, ((x as int + m as int - 1) / (m as int)) * (m as int) <= usize::MAX,
    ensures r as int == ((x as int + m as int - 1) / (m as int)) * (m as int);

/// `*p` (read through a thin pointer).
#[verifier::external_body]
pub fn read_raw<T: Copy>(p: *const T) -> (r: T)
    requires
        in_prov(p@.provenance, p@.addr as int, size_of::<T>() as int),
        ptr_aligned::<T>(p@.addr as int),
    ensures
        r == decode::<T>(mem_at(p@.provenance, p@.addr as int, size_of::<T>() as int)),
{
    unsafe { *p }
}

/// `ptr::addr_of!(*r)` (rewrite rule R2b): a thin pointer to the start of the
/// object, allowed to access the allocation the reference lives in.
#[verifier::external_body]
pub const fn addr_of_ref<T: ?Sized>(r: &T) -> (p: *const u8)
    ensures p@.addr == ref_addr(r), p@.provenance == ref_prov(r),
{
    (r as *const T).cast::<u8>()
}

pub mod slice {
    use super::*;
    /// shadows core::slice::from_raw_parts (call text stays verbatim, R3)
    #[verifier::external_body]
    pub unsafe fn from_raw_parts<'a, T>(p: *const T, n: usize) -> (r: &'a [T])
        requires
            in_prov(p@.provenance, p@.addr as int, n * size_of::<T>()),
            ptr_aligned::<T>(p@.addr as int),
        ensures
            slice_addr(r) == p@.addr, slice_prov(r) == p@.provenance, r@.len() == n,
    {
        unsafe { core::slice::from_raw_parts(p, n) }
    }
}

/// byte-slice version used for `[u8]` (contents are the allocation's bytes)
#[verifier::external_body]
pub unsafe fn bytes_from_raw_parts<'a>(p: *const u8, n: usize) -> (r: &'a [u8])
    requires in_prov(p@.provenance, p@.addr as int, n as int),
    ensures slice_addr(r) == p@.addr, slice_prov(r) == p@.provenance, r@.len() == n, slice_wf(r),
{
    unsafe { core::slice::from_raw_parts(p, n) }
}

/// `&s[a..b]` (rewrite rule R6): bounds are a controlled panic where allowed.
#[verifier::external_body]
pub fn vslice<'a>(s: &'a [u8], a: usize, b: usize) -> (r: &'a [u8])
    requires panics_allowed() || a <= b <= s@.len(),
    ensures a <= b <= s@.len(), r@ == s@.subrange(a as int, b as int),
        slice_addr(r) == slice_addr(s) + a, slice_prov(r) == slice_prov(s),
        slice_wf(s) ==> slice_wf(r),   // consistent: see lemma_vslice_wf
{
    &s[a..b]
}
#[verifier::external_body]
pub fn vslice_from<'a>(s: &'a [u8], a: usize) -> (r: &'a [u8])
    requires panics_allowed() || a <= s@.len(),
    ensures a <= s@.len(), r@ == s@.subrange(a as int, s@.len() as int),
        slice_addr(r) == slice_addr(s) + a, slice_prov(r) == slice_prov(s),
        slice_wf(s) ==> slice_wf(r),   // consistent: see lemma_vslice_wf
{
    &s[a..]
}

/// `s.get(i).cloned().expect(..)` (explicit rewrite at the site)
#[verifier::external_body]
pub fn slice_get_u8(s: &[u8], i: usize) -> (r: u8)
    requires panics_allowed() || i < s@.len(),
    ensures i < s@.len(), r == s@[i as int],
{
    s.get(i).cloned().expect("index")
}

pub proof fn lemma_vslice_wf(s: &[u8], r: &[u8], a: int, b: int)
    requires slice_wf(s), 0 <= a <= b <= s@.len(), r@ == s@.subrange(a, b),
        slice_addr(r) == slice_addr(s) + a, slice_prov(r) == slice_prov(s),
    ensures slice_wf(r),
{
    assert(r@ =~= mem_at(slice_prov(r), slice_addr(r) as int, r@.len() as int));
}

pub mod mem {
    use super::*;
    pub use core::mem::size_of;
    pub use core::mem::align_of;
    #[verifier::external_body]
    pub fn size_of_val<T: ?Sized>(r: &T) -> (n: usize)
        ensures n == val_size(r),
    {
        core::mem::size_of_val(r)
    }
}

// rounding facts used by several units (bit-vector proof, 64-bit usize)
pub proof fn lemma_round8_bv(s: u64)
    requires s <= 0xffff_ffff_ffff_fff8u64,
    ensures ((s + 7u64) as u64 & !7u64) as int == round8(s as int),
{
    assert(((s + 7u64) as u64 & !7u64) == ((s + 7u64) as u64 / 8u64) * 8u64) by (bit_vector)
        requires s <= 0xffff_ffff_ffff_fff8u64;
    assert((((s + 7u64) as u64 / 8u64) * 8u64) as int == ((s as int + 7) / 8) * 8) by (nonlinear_arith)
        requires s <= 0xffff_ffff_ffff_fff8u64;
}

pub proof fn lemma_round8_props(n: int)
    requires n >= 0,
    ensures round8(n) >= n, round8(n) % 8 == 0, round8(n) - n < 8,
        n % 8 == 0 ==> round8(n) == n,
{
    let q = (n + 7) / 8;
    let r = (n + 7) % 8;
    vstd::arithmetic::div_mod::lemma_fundamental_div_mod(n + 7, 8);
    assert(n + 7 == 8 * q + r);
    assert(0 <= r < 8);
    assert(round8(n) == q * 8);
    vstd::arithmetic::div_mod::lemma_mod_multiples_basic(q, 8);
    if n % 8 == 0 {
        vstd::arithmetic::div_mod::lemma_fundamental_div_mod(n, 8);
        let k = n / 8;
        assert(n == 8 * k);
        assert(n + 7 == 8 * k + 7);
        vstd::arithmetic::div_mod::lemma_fundamental_div_mod_converse(n + 7, 8, k, 7);
    }
}

} // verus!
