// Vacuity guard (engine V): this unit MUST fail.  A deliberately false
// postcondition on a copy of a trivial verified function; if Verus ever
// accepts it, the verifier set-up accepts everything and no verdict is trusted.
//@include prelude.rs
verus! {
pub const ALIGNMENT: usize = 8;
//@extract multiboot2-common/src/lib.rs :: fn increase_to_alignment
//@  ret r
//@  prologue proof { lemma_round8_bv(size as u64); lemma_round8_props(size as int); }
//@  spec:
//@    requires size <= usize::MAX - 7,
//@    ensures r as int == round8(size as int) + 8,   // FALSE on purpose
//@end
}
fn main() {}
