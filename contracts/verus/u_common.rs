//@include prelude.rs
//@include common_core.rs
fn main() {}
