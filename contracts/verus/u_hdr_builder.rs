//@include prelude.rs
//@include common_core.rs
//@include hdr_core.rs
//@include hdr_builder_types.rs
//@include boxed_spec.rs
//@include walk_lemma.rs
//@include hdr_builder.rs
//@include hdr_getters.rs
fn main() {}
