//@include prelude.rs
//@include common_core.rs
//@include hdr_core.rs
//@include hdr_find.rs
fn main() {}
