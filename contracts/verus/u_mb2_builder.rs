//@include prelude.rs
//@include common_core.rs
//@include mb2_tagtype.rs
//@include mb2_core.rs
//@include mb2_dstlen.rs
//@include boxed_spec.rs
//@include walk_lemma.rs
//@include mb2_builder.rs
//@include mb2_getters_sized.rs
//@include mb2_ctors.rs
fn main() {}
