//@include prelude.rs
//@include common_core.rs
//@include mb2_tagtype.rs
//@include mb2_core.rs
//@include mb2_dstlen.rs
//@include mb2_getters.rs
fn main() {}
