//@include prelude.rs
//@include mb2_tagtype.rs
fn main() {}
