//@include prelude.rs
//@include common_core.rs
//@include mb2_tagtype.rs
fn main() {}
