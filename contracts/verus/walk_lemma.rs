// ---------------------------------------------------------------------------
// C06 / C12: the lemma that connects the builders' postcondition ("the payload is the
// concatenation of the supplied tag images followed by an end tag") with the parsers'
// contracts (load accepts; the tag walk of C03 / C11): walking a buffer that is a
// concatenation of tag images visits exactly the images' start offsets, in order, and each
// image sits byte for byte at its offset.  Pure proof over the contracts' vocabulary
// (spec_walk, flat); no code of /repo is involved here.
// ---------------------------------------------------------------------------
verus! {

/// the byte image `img` is one tag with header type H: declared size >= 8 and the image is
/// exactly the declared size rounded up to 8 (what `as_bytes()` of a well-formed tag gives)
pub open spec fn item_ok<H: Header>(img: Seq<u8>) -> bool {
    &&& img.len() >= 8
    &&& decode::<H>(img.subrange(0, 8)).declared_total() >= 8
    &&& round8(decode::<H>(img.subrange(0, 8)).declared_total()) == img.len()
}
pub open spec fn all_items_ok<H: Header>(s: Seq<Seq<u8>>) -> bool {
    forall|i: int| 0 <= i < s.len() ==> item_ok::<H>(#[trigger] s[i])
}
/// start offsets of the items k, k+1, ... inside flat(s): the prefix sums of the lengths
pub open spec fn item_offs(s: Seq<Seq<u8>>, k: int) -> Seq<int>
    decreases s.len() - k
{
    if k < 0 || k >= s.len() { Seq::empty() } else { seq![flat(s.take(k)).len() as int].add(item_offs(s, k + 1)) }
}

pub proof fn lemma_item_offs_len(s: Seq<Seq<u8>>, k: int)
    requires 0 <= k <= s.len(),
    ensures item_offs(s, k).len() == s.len() - k,
    decreases s.len() - k
{
    if k < s.len() {
        lemma_item_offs_len(s, k + 1);
    }
}

/// the spec walk (C03) over a buffer that is the concatenation of tag images visits exactly
/// the images' offsets, in order -- nothing dropped, duplicated or reordered, and it ends
/// exactly at the end of the buffer
pub proof fn lemma_walk_items<H: Header>(it: TagIter<H>, s: Seq<Seq<u8>>, k: int)
    requires
        it.wf(), size_of::<H>() == 8,
        it.buffer@ == flat(s), all_items_ok::<H>(s), 0 <= k <= s.len(),
    ensures
        spec_walk(it, flat(s.take(k)).len() as int) == item_offs(s, k),
    decreases s.len() - k
{
    let off = flat(s.take(k)).len() as int;
    if k == s.len() {
        lemma_flat_take_all(s);
        assert(spec_walk(it, off) =~= Seq::<int>::empty());
    } else {
        lemma_flat_item_at(s, k);
        lemma_flat_take_step(s, k);
        lemma_flat_prefix(s, k + 1);
        assert(item_ok::<H>(s[k]));
        assert(mem_at(slice_prov(it.buffer), slice_addr(it.buffer) + off, 8) =~= it.buffer@.subrange(off, off + 8));
        assert(it.buffer@.subrange(off, off + 8) =~= s[k].subrange(0, 8));
        assert(it.hdr_at_off(off) == decode::<H>(s[k].subrange(0, 8)));
        let sz = it.hdr_at_off(off).declared_total();
        assert(off + round8(sz) == flat(s.take(k + 1)).len());
        lemma_walk_items(it, s, k + 1);
        assert(spec_walk(it, off) == seq![off].add(spec_walk(it, off + round8(sz))));
    }
}

} // verus!
