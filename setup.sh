#!/bin/sh
# Run once after a fresh restore (offline): warm the Kani dependency cache and
# check that both verifiers start.  Nothing is fetched.
set -e
cd "$(dirname "$0")"
export CARGO_NET_OFFLINE=true
mkdir -p .build build evidence replays
verus --version >/dev/null
cargo kani --version >/dev/null
python3 tools/warmup.py
