#!/usr/bin/env python3
"""Run the checks against a BEHAVIOUR-PRESERVING change (false-alarm test).

  python3 tools/benigntest.py <dir with patch.diff/meta.json> <id> [--props C01,C02] [--tier quick]

1. makes a scratch worktree of /repo's HEAD outside /repo and /verif and applies the patch,
2. confirms the workspace builds and the 59 pinned tests pass,
3. runs ./check <prop> for every property named in meta.json against the patched tree
   (VERIF_REPO); the expected exit code is 0.  Exit 1 is a false alarm (to be fixed in
   the machinery), exit 2 is "undecided" (lost anchor / construct outside the verified subset),
4. stores patch and result under /verif/benign/<id>/ and removes the scratch tree.
"""
import json
import os
import shutil
import subprocess
import sys

VERIF = os.path.dirname(os.path.dirname(os.path.abspath(__file__)))


def sh(cmd, cwd=None, env=None, timeout=7200):
    p = subprocess.run(cmd, cwd=cwd, env=env, shell=isinstance(cmd, str), capture_output=True, text=True, timeout=timeout)
    return p.returncode, p.stdout + p.stderr


def main():
    mdir, sid = sys.argv[1], sys.argv[2]
    props = None
    tier = 'quick'
    for i, a in enumerate(sys.argv):
        if a == '--props':
            props = sys.argv[i + 1].split(',')
        if a == '--tier':
            tier = sys.argv[i + 1]
    meta = json.load(open(os.path.join(mdir, 'meta.json')))
    props = props or meta.get('properties') or []
    patch = os.path.abspath(os.path.join(mdir, 'patch.diff'))
    scratch = f'/var/tmp/benign-{sid}'
    shutil.rmtree(scratch, ignore_errors=True)
    rc, out = sh(f'git -C /repo worktree add -q --detach {scratch} HEAD')
    if rc:
        print(out)
        sys.exit(2)
    res = {'id': sid}
    try:
        rc, out = sh(f'git apply {patch}', cwd=scratch)
        res['patch_applies'] = rc == 0
        env = dict(os.environ, CARGO_NET_OFFLINE='true', CARGO_TARGET_DIR=f'/var/tmp/benign-target-{sid}')
        rc1, out1 = sh('cargo test --workspace --offline --lib --bins', cwd=scratch, env=env)
        res['suite_passes_with_patch'] = rc1 == 0
        checks = {}
        if res['patch_applies'] and res['suite_passes_with_patch']:
            for p in props:
                envc = dict(os.environ, VERIF_REPO=scratch, VERIF_TIER=tier, VERIF_JOBS=os.environ.get('VERIF_JOBS', '6'))
                rc, out = sh(['./check', p, '--tier', tier], cwd=VERIF, env=envc)
                lines = [l for l in out.split('\n') if l.startswith(('VIOLATION', 'UNDECIDED', '['))]
                checks[p] = {'exit': rc, 'lines': [l[:400] for l in lines][:12]}
        res['checks'] = checks
    finally:
        sh(f'git -C /repo worktree remove --force {scratch}')
        shutil.rmtree(scratch, ignore_errors=True)
        shutil.rmtree(f'/var/tmp/benign-target-{sid}', ignore_errors=True)
    out_dir = os.path.join(VERIF, 'benign', sid)
    os.makedirs(out_dir, exist_ok=True)
    if patch != os.path.abspath(os.path.join(out_dir, 'patch.diff')):
        shutil.copy(patch, os.path.join(out_dir, 'patch.diff'))
    meta_out = {'properties': props, 'kind': meta.get('kind'), 'summary': meta.get('summary'), 'why_equivalent': meta.get('why_equivalent'),
                'patch_applies': res.get('patch_applies'), 'suite_passes_with_patch': res.get('suite_passes_with_patch'),
                'checks_run': res.get('checks'),
                'false_alarms': [p for p, c in res.get('checks', {}).items() if c['exit'] == 1],
                'undecided': [p for p, c in res.get('checks', {}).items() if c['exit'] not in (0, 1)]}
    json.dump(meta_out, open(os.path.join(out_dir, 'meta.json'), 'w'), indent=1)
    print(json.dumps({'id': sid, 'exits': {p: c['exit'] for p, c in res.get('checks', {}).items()}}))
    for p, c in res.get('checks', {}).items():
        if c['exit'] != 0:
            for l in c['lines']:
                print('   ', p, l[:260])


if __name__ == '__main__':
    main()
