#!/usr/bin/env python3
"""Regenerate MANIFEST.json from contracts/registry.py (single source of truth)."""
import json, os, sys
VERIF = os.path.dirname(os.path.dirname(os.path.abspath(__file__)))
sys.path.insert(0, os.path.join(VERIF, 'contracts'))
import registry


def native_note(pid):
    """bounded native stand-ins of this property (run on every check, listed under coverage.bounded, never counted as proved)"""
    ns = [(n, sp) for n, sp in getattr(registry, 'NATIVE', {}).items() if pid in sp.get('props', [])]
    if not ns:
        return ''
    return ('Bounded native stand-ins (the real functions run natively on an enumerated input family where neither verifier reaches; '
            'labelled bounded-native in the evidence, never counted as proved): ' + '; '.join(f'{n} [{sp["bound"][:160]}]' for n, sp in ns) + '.')


ALL = ['C%02d' % i for i in range(1, 21)]
checks = []
for pid in sorted(registry.PROPS):
    p = registry.PROPS[pid]
    m = registry.MANIFEST_TEXT.get(pid, {})
    checks.append({
        'property_id': pid,
        'quick_cmd': f'./check {pid} --tier quick',
        'thorough_cmd': f'./check {pid} --tier thorough',
        'evidence_file': f'/verif/evidence/{pid}.json',
        'replay_cmd_template': f'./check {pid} --replay {{path}}',
        'engine': 'verus+kani',
        'level_claimed': {'category': p.get('level', 'proof'), 'text': m.get('text', ''), 'design_ref': m.get('design_ref', 'DESIGN.md §6 ' + pid)},
        'level_note': (m.get('note', '') + ' ' + native_note(pid)).strip(),
        'technique': m.get('technique', 'contract-based deductive verification: Verus contracts on functions extracted verbatim from /repo + Kani function contracts / full-domain harnesses on an annotated mirror of /repo'),
    })
na = [{'property_id': pid, 'reason': registry.NOT_APPLICABLE.get(pid, 'check not built yet in this session (work in progress; see DESIGN.md §6)')} for pid in ALL if pid not in registry.PROPS]
man = {
    'version': 1,
    'setup_cmd': './setup.sh',
    'hooks': {
        'guard': 'kani',
        'enable': 'no hooks are committed in /repo: contract attributes and harness modules are added to a per-run *mirror* copy of /repo (tools/kmirror.py) under #[cfg(kani)] / #[cfg_attr(kani, ..)], which only the Kani compiler sets',
        'baseline_off_cmd': 'cd /repo && cargo test --workspace --no-fail-fast --offline',
        'source_commits': [],
        'add_only': True,
    },
    'engines': [
        {'name': 'verus', 'path': 'tools/vassemble.py + tools/vrun.py + contracts/verus', 'serves_properties': sorted(pid for pid in registry.PROPS if registry.PROPS[pid].get('v')), 'kind_free_text': 'Verus 0.2026.09.13 on items extracted verbatim from /repo on every run; contracts spliced from contracts/verus'},
        {'name': 'kani', 'path': 'tools/kmirror.py + contracts/kani', 'serves_properties': sorted(pid for pid in registry.PROPS if registry.PROPS[pid].get('k_quick') or registry.PROPS[pid].get('k_thorough')), 'kind_free_text': 'Kani 0.68 / CBMC 6.11 function contracts and full-domain harnesses on an annotated mirror of /repo; bounded harnesses are labelled bounded'},
    ],
    'checks': checks,
    'notes': 'Exit codes: 0 held, 1 VIOLATION (line printed), 2 undecided (tool limit / lost anchor; never with a VIOLATION line). known_findings.json lists recorded findings and fixed: entries.',
    'not_applicable': na,
}
json.dump(man, open(os.path.join(VERIF, 'MANIFEST.json'), 'w'), indent=1)
print('MANIFEST.json:', len(checks), 'checks,', len(na), 'not claimed')
