#!/usr/bin/env python3
"""Engine K: build the annotated mirror of /repo and run Kani on it.

The mirror is a copy of the three crates from /repo's *working tree*, made on
every run, to which only the following is added:
  * `#[cfg(kani)] mod verif_kani { include!("<verif>/contracts/kani/<crate>/<file>.rs"); }`
    appended to each source file for which such a harness file exists
    (a child module sees the private items of the module that owns them);
  * `.cargo/config.toml` with `[net] offline = true`.
No line of the copied sources is changed or removed.
"""
import fcntl
import json
import os
import re
import shutil
import subprocess
import sys
import time
from concurrent.futures import ThreadPoolExecutor

VERIF = os.path.dirname(os.path.dirname(os.path.abspath(__file__)))
REPO = os.environ.get('VERIF_REPO', '/repo')
_SLOT_LOCK = None


def _scratch_slot():
    """Runs against a scratch tree (VERIF_REPO, used by the seeded-change tooling) take one of
    a few private (mirror, cargo target) slots, so that several of them can run side by side
    without waiting for the mirror of /repo; the slot is held until the process exits."""
    global _SLOT_LOCK
    n = int(os.environ.get('VERIF_SCRATCH_SLOTS', '3'))
    while True:
        for i in range(n):
            d = f'/var/tmp/verif-work-s{i}'
            os.makedirs(d, exist_ok=True)
            f = open(os.path.join(d, 'slot.lock'), 'w')
            try:
                fcntl.flock(f, fcntl.LOCK_EX | fcntl.LOCK_NB)
            except OSError:
                f.close()
                continue
            _SLOT_LOCK = f
            return d, f'/var/tmp/kani-target-s{i}'
        time.sleep(5)


if REPO != '/repo' and not os.environ.get('VERIF_WORK'):
    WORK, _slot_target = _scratch_slot()
    os.environ.setdefault('VERIF_KANI_TARGET', _slot_target)
else:
    WORK = os.environ.get('VERIF_WORK', '/var/tmp/verif-work')
MIRROR = os.path.join(WORK, 'mirror')
TARGET = os.environ.get('VERIF_KANI_TARGET', os.path.join(VERIF, '.build', 'kani-target'))
KANI_DIR = os.path.join(VERIF, 'contracts', 'kani')
CRATES = ['multiboot2-common', 'multiboot2', 'multiboot2-header']

KFLAGS = ['-Z', 'function-contracts', '-Z', 'stubbing']


class MirrorLock:
    def __enter__(self):
        os.makedirs(WORK, exist_ok=True)
        self.f = open(os.path.join(WORK, 'lock'), 'w')
        fcntl.flock(self.f, fcntl.LOCK_EX)
        return self

    def __exit__(self, *a):
        fcntl.flock(self.f, fcntl.LOCK_UN)
        self.f.close()


def build_mirror(extra_modules=None, only_crate=None):
    """(Re)create the mirror from the working tree.  Returns a report dict."""
    os.makedirs(MIRROR, exist_ok=True)
    subprocess.run(['rsync', '-a', '--delete', '--exclude', 'target', '--exclude', '.git',
                    '--exclude', 'integration-test', '--exclude', '.cargo',
                    REPO + '/', MIRROR + '/'], check=True)
    os.makedirs(os.path.join(MIRROR, '.cargo'), exist_ok=True)
    with open(os.path.join(MIRROR, '.cargo', 'config.toml'), 'w') as f:
        f.write('[net]\noffline = true\n')
    injected = []
    # (i) contract attributes above the functions under contract (line insertion only)
    sys.path.insert(0, os.path.dirname(os.path.abspath(__file__)))
    from rsitems import SourceFile, ScanError
    table = json.load(open(os.path.join(KANI_DIR, 'contracts.json')))
    byfile = {}
    for e in table:
        byfile.setdefault(e['file'], []).append(e)
    attrs_inserted = []
    for rel, entries in byfile.items():
        path = os.path.join(MIRROR, rel)
        if not os.path.exists(path):
            raise RuntimeError(f'anchor lost: {rel} missing')
        sf = SourceFile(path)
        ins = []
        for e in entries:
            try:
                it = sf.find(e['item'])
            except ScanError as ex:
                raise RuntimeError(str(ex))
            ins.append((it.sig_start, e))
        src = sf.src
        for pos, e in sorted(ins, key=lambda x: -x[0]):
            src = src[:pos] + '\n'.join(e['attrs']) + '\n' + src[pos:]
            attrs_inserted.append(f"{rel} :: {e['item']} (+{len(e['attrs'])} attribute lines)")
        with open(path, 'w') as f:
            f.write(src)
    # (ii) harness modules
    for crate in CRATES:
        if only_crate and crate != only_crate:
            continue    # harness modules are injected only into the crate under verification:
                        # as a dependency it may be built with other cargo features
        hdir = os.path.join(KANI_DIR, crate)
        if not os.path.isdir(hdir):
            continue
        for fn in sorted(os.listdir(hdir)):
            if not fn.endswith('.rs'):
                continue
            only = os.environ.get('VERIF_KANI_ONLY')
            if only and f'{crate}/{fn}' not in only.split(','):
                continue
            src = os.path.join(MIRROR, crate, 'src', fn)
            if not os.path.exists(src):
                raise RuntimeError(f'anchor lost: {crate}/src/{fn} missing (harness file exists for it)')
            with open(src, 'a') as f:
                f.write('\n#[cfg(kani)]\n#[allow(missing_docs, clippy::all, unused, missing_debug_implementations)]\nmod verif_kani {\n    include!("%s");\n}\n'
                        % os.path.join(hdir, fn))
            injected.append(f'{crate}/src/{fn}')
    for (crate, fn, text) in (extra_modules or []):
        with open(os.path.join(MIRROR, crate, 'src', fn), 'a') as f:
            f.write(text)
    return {'mirror': MIRROR, 'injected_modules': injected, 'contract_attributes': attrs_inserted,
            'changes_to_copied_sources': 'append-only: one #[cfg(kani)] mod per file listed'}


def cargo_kani_base(crate, features):
    cmd = ['cargo', 'kani', '-p', crate, '--target-dir', TARGET] + KFLAGS
    if features is not None:
        cmd += ['--no-default-features']
        if features:
            cmd += ['--features', ','.join(features)]
    return cmd


def codegen(crate, features):
    """Compile the crate (with harness modules) once.  Returns (ok, output)."""
    cmd = cargo_kani_base(crate, features) + ['--only-codegen']
    p = subprocess.run(cmd, cwd=MIRROR, capture_output=True, text=True)
    return p.returncode == 0, (p.stdout + p.stderr)


# the description of a multi-line `assert!` spans several lines
CHECK_RE = re.compile(r'^Check (\d+): (.+)\n\t - Status: (\w+)\n\t - Description: "([\s\S]*?)"\n\t - Location: (.*)$', re.M)


def classify(desc, name):
    d = desc.lower()
    if 'unwinding assertion' in d:
        return 'unwinding'
    if re.search(r'attempt to (add|subtract|multiply|negate|shift)', d) or 'overflow' in d and 'attempt to' in d:
        return 'overflow'
    if 'attempt to divide by zero' in d or 'remainder with a divisor of zero' in d:
        return 'panic'
    if '|result|' in desc or 'kani::ensures' in d or name.endswith('.ensures') or 'postcondition' in d:
        return 'contract'
    if any(k in d for k in ('dereference failure', 'pointer', 'same allocation', 'dealloc', 'memcpy', 'out of bounds', 'invalid', 'misaligned', 'uninitialized', 'free ')) and 'index out of bounds' not in d:
        return 'memory'
    if 'index out of bounds' in d or 'range end index' in d or 'range start index' in d or 'slice index' in d:
        return 'panic'
    if '.assertion.' in name or 'assertion failed' in d or 'panicked' in d or 'unwrap' in d or 'expect' in d or d.startswith('explicit panic') or 'this is a bug' in d:
        return 'assert'
    return 'other'


def run_harness(crate, features, harness, extra=None, timeout=None, playback=False):
    if playback:
        timeout = min(timeout or 600, 600)   # the trace-producing run is only worth a bounded wait
    cmd = cargo_kani_base(crate, features) + ['--harness', harness, '--exact']
    if extra:
        cmd += extra
    if playback:
        cmd += ['-Z', 'concrete-playback', '--concrete-playback=print']
    t0 = time.time()
    try:
        p = subprocess.run(cmd, cwd=MIRROR, capture_output=True, text=True, timeout=timeout)
        out = p.stdout + p.stderr
        rc = p.returncode
        timed_out = False
    except subprocess.TimeoutExpired as e:
        out = (e.stdout or b'').decode(errors='replace') if isinstance(e.stdout, bytes) else (e.stdout or '')
        rc = -1
        timed_out = True
        subprocess.run(['pkill', '-f', f'--harness {harness} '], capture_output=True)
    wall = time.time() - t0
    res = {'harness': harness, 'wall_s': round(wall, 2), 'rc': rc, 'timed_out': timed_out}
    checks = []
    for m in CHECK_RE.finditer(out):
        cls = classify(m.group(4), m.group(2))
        # an `assert!` written in the HARNESS (the oracle) is never a "controlled panic of the library":
        # harnesses that accept controlled panics (allow = ['assert', 'panic']) must still fail on their own
        # assertions (seed w9-C05-m1: a palette 2 bytes past the tag stayed inside the harness's array, so the
        # only failing check was the harness's `34 + 3 * len <= size`)
        if cls == 'assert' and 'verif_kani::' in m.group(5):
            cls = 'harness-assert'
        checks.append({'id': m.group(2), 'status': m.group(3), 'desc': m.group(4), 'loc': m.group(5),
                       'class': cls})
    res['n_checks'] = len(checks)
    res['failed'] = [c for c in checks if c['status'] == 'FAILURE']
    res['unreachable'] = sum(1 for c in checks if c['status'] == 'UNREACHABLE')
    res['undetermined'] = [c for c in checks if c['status'] == 'UNDETERMINED']
    res['covers'] = [c for c in checks if '.cover.' in c['id']]
    m = re.search(r'VERIFICATION:- (\w+)', out)
    res['verdict'] = m.group(1) if m else ('TIMEOUT' if timed_out else 'ERROR')
    m = re.search(r'Verification Time: ([0-9.]+)s', out)
    res['solver_s'] = float(m.group(1)) if m else None
    if res['verdict'] == 'ERROR':
        res['output_tail'] = out[-3000:]
    if playback:
        # one generated unit test per failed check *and per satisfied cover*: keep the
        # value vectors of the failed checks (covers replay fine natively, they are not counterexamples)
        cands = []
        for m in re.finditer(r'/// Check for `(\w+)`: "(.*?)"\s*\n\s*\n?#\[test\]\s*\nfn \w+\(\) \{\s*\n\s*let concrete_vals: Vec<Vec<u8>> = vec!\[(.*?)\n    \];', out, re.S):
            vals = [[int(x) for x in re.findall(r'\d+', v)] for v in re.findall(r'vec!\[([^\]]*)\]', m.group(3))]
            cands.append({'class': m.group(1), 'desc': m.group(2), 'vals': vals})
        non_cover = [c for c in cands if c['class'] != 'cover']
        res['playback_candidates'] = non_cover or cands
        res['concrete_vals'] = (non_cover or cands or [{'vals': None}])[0]['vals']
    res['raw_failed_text'] = '\n'.join(f"{c['id']}: {c['desc']} @ {c['loc']}" for c in res['failed'])
    return res


def harness_path(spec_file, name):
    """fully qualified harness name: the verif_kani module is a child of the
    module that owns the source file it was appended to"""
    stem = spec_file[:-3]
    return ('verif_kani::' if stem == 'lib' else stem.replace('/', '::') + '::verif_kani::') + name


TERSE_HDR = re.compile(r'^Thread (\d+): Checking harness (\S+)\.\.\.$')


def run_group(crate, features, harnesses, extra=None, nproc=8, timeout=None, harness_timeout=None):
    """One cargo-kani invocation for many harnesses (-j, terse output).
    Returns {harness: result}; failed harnesses get re-run individually by the
    caller (regular output) for check-level detail."""
    cmd = cargo_kani_base(crate, features) + ['--exact', '-j', str(nproc), '--output-format', 'terse']
    for h in harnesses:
        cmd += ['--harness', h]
    if harness_timeout:
        cmd += ['-Z', 'unstable-options', '--harness-timeout', f'{int(harness_timeout)}s']
    if extra:
        cmd += extra
    t0 = time.time()
    try:
        p = subprocess.run(cmd, cwd=MIRROR, capture_output=True, text=True, timeout=timeout)
        out = p.stdout + p.stderr
        timed_out = False
    except subprocess.TimeoutExpired as e:
        out = e.stdout.decode(errors='replace') if isinstance(e.stdout, bytes) else (e.stdout or '')
        timed_out = True
        subprocess.run(['pkill', '-f', 'cbmc'], capture_output=True)
    wall = time.time() - t0
    res = {}
    cur = {}    # thread -> harness
    block = {}  # harness -> lines
    for line in out.split('\n'):
        m = TERSE_HDR.match(line)
        if m:
            cur[m.group(1)] = m.group(2)
            block.setdefault(m.group(2), [])
            continue
        m = re.match(r'^Thread (\d+): ?(.*)$', line)
        if m and m.group(1) in cur:
            active = cur[m.group(1)]
            block[active].append(m.group(2))
            cur['_last'] = active
            continue
        if '_last' in cur and not line.startswith(('Manual Harness Summary', 'Complete -', 'Verification failed for')):
            block[cur['_last']].append(line)
    for h in harnesses:
        txt = '\n'.join(block.get(h, []))
        r = {'harness': h, 'wall_s': round(wall, 2), 'timed_out': timed_out, 'failed': [], 'covers': [], 'undetermined': [], 'unreachable': 0}
        m = re.search(r'\*\* (\d+) of (\d+) failed', txt)
        r['n_checks'] = int(m.group(2)) if m else 0
        r['n_failed'] = int(m.group(1)) if m else 0
        m = re.search(r'VERIFICATION:- (\w+)', txt)
        r['verdict'] = m.group(1) if m else ('TIMEOUT' if (timed_out or 'timed out' in txt.lower()) else 'ERROR')
        m = re.search(r'Verification Time: ([0-9.]+)s', txt)
        r['solver_s'] = float(m.group(1)) if m else None
        m = re.search(r'\*\* (\d+) of (\d+) cover properties satisfied', txt)
        r['covers_sat'] = (int(m.group(1)), int(m.group(2))) if m else None
        if r['verdict'] == 'ERROR':
            errl = [l for l in out.split('\n') if l.startswith('error')]
            r['output_tail'] = ('\n'.join(errl[:8]) + '\n' + (txt or out)[-1500:])
        res[h] = r
    return res


def run_harnesses(jobs, nproc=8):
    """jobs: list of dict(crate, features, harness, extra, timeout, detail).  Jobs that need
    check-level detail anyway (`detail`: harnesses whose acceptable outcomes include
    controlled panics, known findings) are run alone with the regular output format;
    the others are grouped by (crate, features, extra) into one parallel invocation
    each, and a harness that does not come back SUCCESSFUL is re-run alone to obtain
    the individual failed checks."""
    results = {}
    detail_jobs = [j for j in jobs if j.get('detail')]
    group_jobs = [j for j in jobs if not j.get('detail')]
    groups = {}
    for j in group_jobs:
        key = (j['crate'], tuple(j['features']) if j.get('features') is not None else None, tuple(j.get('extra') or []))
        groups.setdefault(key, []).append(j)
    for (crate, feats, extra), js in groups.items():
        feats_l = list(feats) if feats is not None else None
        hto = max(j.get('timeout') or 900 for j in js)
        rg = run_group(crate, feats_l, [j['harness'] for j in js], list(extra), nproc=nproc,
                       timeout=hto * max(1, (len(js) + nproc - 1) // nproc) + 300, harness_timeout=hto)
        group_broken = all(rg[j['harness']]['verdict'] == 'ERROR' for j in js)
        for j in js:
            r = rg[j['harness']]
            if group_broken:
                results[j['harness']] = r
                continue
            if r['verdict'] != 'SUCCESSFUL' or (r['covers_sat'] and r['covers_sat'][0] != r['covers_sat'][1]):
                detail_jobs.append(j)
            else:
                results[j['harness']] = r
    if detail_jobs:
        with ThreadPoolExecutor(max_workers=min(nproc, 6)) as ex:
            futs = {j['harness']: ex.submit(run_harness, j['crate'], j.get('features'), j['harness'], j.get('extra'), j.get('timeout')) for j in detail_jobs}
            for h, f in futs.items():
                r = f.result()
                m = re.search(r'\*\* (\d+) of (\d+) cover properties satisfied', r.get('raw_text', ''))
                r['covers_sat'] = None
                results[h] = r
    return [results[j['harness']] for j in jobs]


NATIVE_DIR = os.path.join(VERIF, 'contracts', 'native')
NATIVE_TARGET = os.environ.get('VERIF_KANI_TARGET', os.path.join(VERIF, '.build', 'kani-target')) + '-native'


def run_native(crate, srcfile, test_name, timeout=900):
    """Bounded native stand-in: append `#[cfg(test)] mod verif_native { include!(..) }` to the
    mirror copy of <crate>/src/<srcfile> and run one test of it with plain `cargo test`
    (the real function, natively compiled).  Returns dict(passed, output_tail, wall_s)."""
    build_mirror(only_crate='__none__')
    path = os.path.join(MIRROR, crate, 'src', srcfile)
    with open(path, 'a') as f:
        f.write('\n#[cfg(test)]\n#[allow(missing_docs, clippy::all, unused)]\nmod verif_native {\n    include!("%s");\n}\n'
                % os.path.join(NATIVE_DIR, crate, srcfile))
    env = dict(os.environ, CARGO_TARGET_DIR=NATIVE_TARGET, CARGO_NET_OFFLINE='true')
    t0 = time.time()
    try:
        p = subprocess.run(['cargo', 'test', '-p', crate, '--lib', '--offline', f'verif_native::{test_name}', '--', '--nocapture'],
                           cwd=MIRROR, capture_output=True, text=True, env=env, timeout=timeout)
        out = p.stdout + p.stderr
        rc = p.returncode
    except subprocess.TimeoutExpired:
        out, rc = 'timeout', -1
    ran = '1 passed' in out or '1 failed' in out
    keep = [l for l in out.split('\n') if re.search(r'panicked|disagrees|cases|test result|error(\[|:)', l)]
    return {'passed': rc == 0 and '1 passed' in out, 'ran': ran, 'output_tail': '\n'.join(keep[-12:]), 'wall_s': round(time.time() - t0, 1)}


PLAYBACK_TARGET = os.environ.get('VERIF_KANI_TARGET', os.path.join(VERIF, '.build', 'kani-target')) + '-playback'


def playback(crate, features, harness_path, srcfile, concrete_vals):
    """Run the harness natively on the real code with the verifier's concrete
    values (cargo kani playback).  Returns (reproduced: bool, transcript)."""
    modpath = harness_path.rsplit('::', 1)[0]          # e.g. verif_kani
    fn = harness_path.rsplit('::', 1)[1]
    vals = ',\n        '.join('vec![' + ', '.join(str(b) for b in v) + ']' for v in concrete_vals)
    text = f'''
#[cfg(all(kani, test))]
mod verif_kani_playback {{
    use std::vec::Vec;
    use std::vec;
    #[test]
    fn kani_concrete_playback_replay() {{
        let concrete_vals: Vec<Vec<u8>> = vec![
        {vals}
        ];
        kani::concrete_playback_run(concrete_vals, super::verif_kani::{fn});  // sibling module of the same file
    }}
}}
'''
    build_mirror(extra_modules=[(crate, srcfile, text)], only_crate=crate)
    env = dict(os.environ, CARGO_TARGET_DIR=PLAYBACK_TARGET)
    cmd = ['cargo', 'kani', 'playback', '-Z', 'concrete-playback', '-p', crate, '--lib'] + KFLAGS
    if features is not None:
        cmd += ['--no-default-features']
        if features:
            cmd += ['--features', ','.join(features)]
    cmd += ['--', 'kani_concrete_playback_replay', '--nocapture']
    p = subprocess.run(cmd, cwd=MIRROR, capture_output=True, text=True, env=env)
    out = p.stdout + p.stderr
    reproduced = ('kani_concrete_playback_replay ... FAILED' in out) or ('panicked at' in out and 'test result: FAILED' in out) \
        or ('SIGSEGV' in out or 'signal: 11' in out) or ('panicked at' in out and ('SIGABRT' in out or 'signal: 6' in out))
    ran = 'running 1 test' in out
    keep = [l for l in out.split('\n') if re.search(r'panicked|assertion|FAILED|test result|signal|running 1 test|kani_concrete_playback_replay', l)]
    return reproduced, ran, '\n'.join(keep[-30:])


if __name__ == '__main__':
    with MirrorLock():
        print(json.dumps(build_mirror(), indent=1))
