#!/usr/bin/env python3
"""Developer helper: run the Kani harnesses of one harness file (or a subset).

  python3 tools/krun.py <crate> <file.rs> [harness ...] [--features a,b | --no-default-features] [--playback] [--timeout S]

Environment (for working in parallel without disturbing others):
  VERIF_WORK=/var/tmp/verif-work-X         private mirror directory
  VERIF_KANI_TARGET=/var/tmp/kani-target-X private cargo target dir
  VERIF_KANI_ONLY=multiboot2/apm.rs,...    inject only these harness files into the mirror
  VERIF_REPO=/path/to/repo                 verify another tree than /repo
"""
import os, re, sys, json
sys.path.insert(0, os.path.dirname(os.path.abspath(__file__)))
import kmirror

args = sys.argv[1:]
feats = None
playback = False
timeout = 900
names = []
crate, fn = args[0], args[1]
i = 2
while i < len(args):
    a = args[i]
    if a == '--features':
        feats = args[i + 1].split(','); i += 2; continue
    if a == '--no-default-features':
        feats = []; i += 1; continue
    if a == '--playback':
        playback = True; i += 1; continue
    if a == '--timeout':
        timeout = int(args[i + 1]); i += 2; continue
    names.append(a); i += 1
hf = os.path.join(kmirror.KANI_DIR, crate, fn)
if not names:
    txt = open(hf).read()
    names = re.findall(r'#\[kani::proof[^\]]*\]\s*(?:#\[[^\]]*\]\s*)*pub fn (\w+)', txt)
with kmirror.MirrorLock():
    rep = kmirror.build_mirror(only_crate=crate)
    ok, out = kmirror.codegen(crate, feats)
    if not ok:
        print('COMPILE FAILED')
        print('\n'.join(l for l in out.split('\n') if not l.startswith('warning') )[-6000:])
        sys.exit(2)
    jobs = [dict(crate=crate, features=feats, harness=kmirror.harness_path(fn, n), timeout=timeout) for n in names]
    res = kmirror.run_harnesses(jobs, nproc=int(os.environ.get('VERIF_JOBS', '8')))
    bad = 0
    for n, r in zip(names, res):
        print(f"{n:50s} {r['verdict']:12s} checks={r['n_checks']:4d} solver={r['solver_s']} covers={r.get('covers_sat')}")
        if r['verdict'] != 'SUCCESSFUL':
            bad += 1
            for c in r.get('failed', [])[:12]:
                print(f"      FAILED [{c['class']}] {c['desc'][:110]}  @ {c['loc']}")
            if r['verdict'] in ('ERROR', 'TIMEOUT'):
                print(r.get('output_tail', '')[-1500:])
            if playback and r['verdict'] == 'FAILED':
                rp = kmirror.run_harness(crate, feats, kmirror.harness_path(fn, n), None, timeout, playback=True)
                print('      concrete_vals:', rp.get('concrete_vals'))
    sys.exit(1 if bad else 0)
