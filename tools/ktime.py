#!/usr/bin/env python3
"""Measure every registered Kani harness once and record verdict + solver time in
contracts/kani/timings.json (used by registry.py to keep slow harnesses out of the
quick tier).  Usage: python3 tools/ktime.py [crate]"""
import json, os, sys, time
VERIF = os.path.dirname(os.path.dirname(os.path.abspath(__file__)))
sys.path.insert(0, os.path.join(VERIF, 'tools')); sys.path.insert(0, os.path.join(VERIF, 'contracts'))
import kmirror, registry
out_path = os.path.join(VERIF, 'contracts', 'kani', 'timings.json')
tim = json.load(open(out_path)) if os.path.exists(out_path) else {}
only = sys.argv[1] if len(sys.argv) > 1 else None
groups = {}
for h, spec in registry.HARNESSES.items():
    if only and spec['crate'] != only:
        continue
    groups.setdefault((spec['crate'], tuple(spec['features']) if spec.get('features') is not None else None), []).append(h)
with kmirror.MirrorLock():
    kmirror.build_mirror()
    for (crate, feats), hl in groups.items():
        kmirror.build_mirror(only_crate=crate)
        t0 = time.time()
        jobs = [dict(crate=crate, features=list(feats) if feats is not None else None, harness=kmirror.harness_path(registry.HARNESSES[h]['file'], registry.HARNESSES[h].get('fn', h)), timeout=900) for h in hl]
        rg = kmirror.run_group(crate, list(feats) if feats is not None else None, [j['harness'] for j in jobs], nproc=12, timeout=7200, harness_timeout=900)
        for h, j in zip(hl, jobs):
            r = rg[j['harness']]
            tim[h] = {'verdict': r['verdict'], 'solver_s': r['solver_s'], 'checks': r['n_checks']}
        print(crate, len(hl), 'harnesses', round(time.time() - t0), 's')
        json.dump(tim, open(out_path, 'w'), indent=1, sort_keys=True)
bad = {h: t for h, t in tim.items() if t['verdict'] != 'SUCCESSFUL'}
print('not successful:', json.dumps(bad, indent=1))
