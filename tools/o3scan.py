#!/usr/bin/env python3
"""C08 / O3 side condition: no function body of the library (outside test
modules) may depend on cargo features or on the build profile:
`cfg!(..)`, `#[cfg(..)]` *inside* a body, `debug_assert*!`, `cfg(debug_assertions)`.
(Items that are feature-gated as a whole -- the builder API -- are fine: they do
not exist in the other configuration instead of behaving differently.)
Returns a list of offending (file, fn, line, text)."""
import os, re, sys
sys.path.insert(0, os.path.dirname(os.path.abspath(__file__)))
from rsitems import SourceFile, mask_source

CRATES = ['multiboot2-common', 'multiboot2', 'multiboot2-header']
PAT = re.compile(r'cfg!\s*\(|#\s*\[\s*cfg(_attr)?\s*\(|debug_assert(_eq|_ne)?\s*!|debug_assertions')


def scan(repo):
    bad = []
    nfn = 0
    for crate in CRATES:
        d = os.path.join(repo, crate, 'src')
        for fn in sorted(os.listdir(d)):
            if not fn.endswith('.rs') or fn == 'test_utils.rs':
                continue
            sf = SourceFile(os.path.join(d, fn))
            for path, it in sf.all_items():
                if 'mod tests' in path or 'mod test' in path:
                    continue
                lead = sf.src[it.start:it.sig_start]
                # item-level: a constant / static whose existence or value depends on a feature, or a
                # negated / combined feature gate (two alternative definitions), makes behaviour feature-dependent
                # a type / item whose representation attributes depend on a feature or the profile
                # (`#[cfg_attr(feature = "..", repr(..))]`): its layout differs between configurations
                for ma in re.finditer(r'#\s*\[\s*cfg_attr\s*\(([^\]]*)\]', lead):
                    inner = ma.group(1)
                    if re.search(r'\b(repr|derive|inline|no_mangle|path)\b', inner) and not re.match(r'\s*(test|kani|doc)\b', inner):
                        bad.append((f'{crate}/src/{fn}', path, sf.line_of(it.sig_start), 'cfg_attr: ' + re.sub(r'\s+', ' ', inner)[:70]))
                if re.search(r'#\s*\[\s*cfg\s*\(', lead):
                    if it.kind in ('const', 'static') or re.search(r'cfg\s*\(\s*(not|any)\s*\(', lead):
                        bad.append((f'{crate}/src/{fn}', path, sf.line_of(it.sig_start), re.sub(r'\s+', ' ', lead.strip())[-80:]))
                if it.kind != 'fn' or it.body_open < 0:
                    continue
                nfn += 1
                body = sf.src[it.body_open:it.end]
                mask = mask_source(body)
                for m in PAT.finditer(mask):
                    line = sf.line_of(it.body_open + m.start())
                    bad.append((f'{crate}/src/{fn}', path, line, body[m.start():m.start() + 60].split('\n')[0]))
    return bad, nfn


if __name__ == '__main__':
    bad, n = scan(sys.argv[1] if len(sys.argv) > 1 else '/repo')
    print(n, 'function bodies scanned;', len(bad), 'offending')
    for b in bad:
        print(b)
