#!/usr/bin/env python3
"""Brace/paren/string/comment aware scanner for Rust source text.

Locates items by *path* (enclosing impl/trait/mod header + item kind + name),
never by line number.  Used by the Verus assembler (extraction) and the Kani
mirror builder (attribute insertion).  It is not a Rust parser: it understands
just enough lexical structure (comments, string/char literals, lifetimes, raw
strings, bracket nesting) to cut items out verbatim.
"""
import re
from dataclasses import dataclass, field
from typing import List, Optional, Tuple


class ScanError(Exception):
    pass


# --------------------------------------------------------------------------
# Lexical layer: produce a "mask" string of the same length as the source in
# which every character that belongs to a comment, string or char literal is
# replaced by a blank (newlines kept).  Structure scanning is done on the mask;
# text is cut from the original.
# --------------------------------------------------------------------------

def mask_source(src: str) -> str:
    out = list(src)
    i, n = 0, len(src)

    def blank(a, b):
        for k in range(a, b):
            if out[k] != '\n':
                out[k] = ' '

    while i < n:
        c = src[i]
        if c == '/' and i + 1 < n and src[i + 1] == '/':
            j = src.find('\n', i)
            if j < 0:
                j = n
            blank(i, j)
            i = j
        elif c == '/' and i + 1 < n and src[i + 1] == '*':
            depth, j = 1, i + 2
            while j < n and depth:
                if src.startswith('/*', j):
                    depth += 1
                    j += 2
                elif src.startswith('*/', j):
                    depth -= 1
                    j += 2
                else:
                    j += 1
            blank(i, j)
            i = j
        elif c == '"' or (c in 'br' and re.match(r'(b?r#*"|b")', src[i:i + 12]) and (i == 0 or not (src[i - 1].isalnum() or src[i - 1] == '_'))):
            m = re.match(r'(b?)(r(#*))?"', src[i:])
            if not m:
                i += 1
                continue
            start = i
            j = i + m.end()
            if m.group(2) is not None:  # raw string
                term = '"' + m.group(3)
                k = src.find(term, j)
                if k < 0:
                    raise ScanError('unterminated raw string')
                j = k + len(term)
            else:
                while j < n and src[j] != '"':
                    if src[j] == '\\':
                        j += 1
                    j += 1
                j += 1
            # keep the quotes so token boundaries survive
            blank(start + 1, j - 1)
            i = j
        elif c == "'":
            # char literal or lifetime
            m = re.match(r"'(\\x[0-9a-fA-F]{2}|\\u\{[0-9a-fA-F_]+\}|\\.|[^\\'])'", src[i:])
            if m:
                blank(i + 1, i + m.end() - 1)
                i += m.end()
            else:
                i += 1  # lifetime
        else:
            i += 1
    return ''.join(out)


OPEN = {'(': ')', '[': ']', '{': '}'}
CLOSE = {')', ']', '}'}


def match_close(mask: str, i: int) -> int:
    """mask[i] is an opening bracket; return index of its matching closer."""
    stack = [OPEN[mask[i]]]
    j = i + 1
    n = len(mask)
    while j < n:
        ch = mask[j]
        if ch in OPEN:
            stack.append(OPEN[ch])
        elif ch in CLOSE:
            if not stack or stack[-1] != ch:
                raise ScanError(f'bracket mismatch at {j}')
            stack.pop()
            if not stack:
                return j
        j += 1
    raise ScanError('unterminated bracket')


KINDS = ('fn', 'struct', 'enum', 'union', 'trait', 'impl', 'mod', 'const',
         'static', 'type', 'use', 'macro_rules', 'extern')
QUALS = ('pub', 'const', 'unsafe', 'async', 'default', 'extern')

IDENT = re.compile(r'[A-Za-z_][A-Za-z0-9_]*')


@dataclass
class Item:
    kind: str
    name: str            # fn/struct/... name; for impl/trait: normalised header
    start: int           # first char of item incl. attributes / doc comments
    sig_start: int       # first char after attributes (visibility or keyword)
    body_open: int       # index of '{' of body, or -1
    end: int             # one past last char ('}' or ';')
    children: List['Item'] = field(default_factory=list)
    header: str = ''     # normalised text between sig_start and body_open

    def text(self, src):
        return src[self.start:self.end]


def norm(s: str) -> str:
    s = re.sub(r'\s+', ' ', s.strip())
    s = re.sub(r'\s*([<>,:&()\[\]])\s*', r'\1', s)
    return s


def _skip_ws(mask, i, end):
    while i < end and mask[i].isspace():
        i += 1
    return i


def parse_items(src: str, mask: Optional[str] = None, lo: int = 0, hi: Optional[int] = None) -> List[Item]:
    if mask is None:
        mask = mask_source(src)
    if hi is None:
        hi = len(src)
    items = []
    i = lo
    while True:
        i = _skip_ws(mask, i, hi)
        if i >= hi:
            break
        start = i
        # attributes (doc comments are blanked in the mask, so they are
        # skipped as whitespace; recover their start below)
        while mask.startswith('#', i):
            j = i + 1
            if j < hi and mask[j] == '!':
                j += 1
            j = _skip_ws(mask, j, hi)
            if j < hi and mask[j] == '[':
                i = match_close(mask, j) + 1
                i = _skip_ws(mask, i, hi)
            else:
                break
        sig_start = i
        # qualifiers
        j = i
        kind = None
        name = ''
        while j < hi:
            m = IDENT.match(mask, j)
            if not m:
                break
            w = m.group(0)
            if w == 'pub':
                j = _skip_ws(mask, m.end(), hi)
                if j < hi and mask[j] == '(':
                    j = match_close(mask, j) + 1
                j = _skip_ws(mask, j, hi)
                continue
            if w == 'const':
                k = _skip_ws(mask, m.end(), hi)
                m2 = IDENT.match(mask, k)
                if m2 and m2.group(0) in ('fn', 'unsafe', 'extern', 'async'):
                    j = k
                    continue
                kind = 'const'
                name = m2.group(0) if m2 else '_'
                break
            if w in ('unsafe', 'async', 'default'):
                j = _skip_ws(mask, m.end(), hi)
                continue
            if w == 'extern':
                k = _skip_ws(mask, m.end(), hi)
                if k < hi and mask[k] == '"':
                    k = mask.find('"', k + 1) + 1
                    k = _skip_ws(mask, k, hi)
                m2 = IDENT.match(mask, k)
                if m2 and m2.group(0) == 'fn':
                    j = k
                    continue
                if m2 and m2.group(0) == 'crate':
                    kind = 'use'
                    name = 'extern crate'
                    break
                kind = 'extern'
                break
            if w in KINDS:
                kind = w
                k = _skip_ws(mask, m.end(), hi)
                if w == 'macro_rules':
                    k = _skip_ws(mask, k + 1, hi)  # skip '!'
                m2 = IDENT.match(mask, k)
                name = m2.group(0) if m2 else ''
                break
            # macro invocation item, e.g. bitflags! { .. }
            kind = 'macro'
            name = w
            break
        if kind is None:
            # stray token (e.g. ';'), skip one char
            i += 1
            continue
        # find end
        k = j
        body_open = -1
        end = None
        while k < hi:
            ch = mask[k]
            if ch in '([':
                k = match_close(mask, k) + 1
                continue
            if ch == '{':
                if kind in ('const', 'static', 'type', 'use'):
                    k = match_close(mask, k) + 1
                    continue
                body_open = k
                end = match_close(mask, k) + 1
                break
            if ch == ';':
                end = k + 1
                break
            k += 1
        if end is None:
            raise ScanError(f'unterminated item {kind} {name} at {start}')
        if kind == 'macro':
            # `name! { .. }` or `name!( .. );`
            t = _skip_ws(mask, end, hi)
            if t < hi and mask[t] == ';':
                end = t + 1
        # recover doc comments directly above `start`
        real_start = start
        line_start = src.rfind('\n', 0, start) + 1
        p = line_start
        while p > lo:
            prev_line_start = src.rfind('\n', 0, p - 1) + 1
            line = src[prev_line_start:p - 1].strip()
            if line.startswith('///') or line.startswith('//!') is False and line.startswith('//'):
                real_start = prev_line_start
                p = prev_line_start
            else:
                break
        header = norm(src[sig_start:body_open]) if body_open >= 0 else norm(src[sig_start:end - 1])
        it = Item(kind, name, real_start, sig_start, body_open, end, header=header)
        if kind in ('impl', 'trait', 'mod') and body_open >= 0:
            it.name = header if kind == 'impl' else name
            it.children = parse_items(src, mask, body_open + 1, end - 1)
        items.append(it)
        i = end
    return items


class SourceFile:
    def __init__(self, path: str, text: Optional[str] = None):
        self.path = path
        self.src = text if text is not None else open(path).read()
        self.mask = mask_source(self.src)
        self.items = parse_items(self.src, self.mask)

    def line_of(self, pos: int) -> int:
        return self.src.count('\n', 0, pos) + 1

    # ---- lookup ----------------------------------------------------------
    def find(self, path: str) -> Item:
        """path: segments separated by ' :: '.  Each segment is
        '<kind> <name>' (fn foo, struct X, const Y, trait T, mod m) or an impl
        header ('impl<H: Header> DynSizedStructure<H>').  A trailing '#n'
        picks the n-th (0-based) match when several items match."""
        segs = [s.strip() for s in path.split(' :: ')]
        cur = self.items
        it = None
        for seg in segs:
            idx = 0
            m = re.match(r'(.*)#(\d+)$', seg)
            if m:
                seg, idx = m.group(1).strip(), int(m.group(2))
            cands = [c for c in cur if self._matches(c, seg)]
            if not cands:
                raise ScanError(f'anchor lost: {self.path}: no item matches "{seg}" (path "{path}")')
            if len(cands) > 1 and not m:
                raise ScanError(f'anchor ambiguous: {self.path}: {len(cands)} items match "{seg}" (path "{path}")')
            if idx >= len(cands):
                raise ScanError(f'anchor lost: {self.path}: "{seg}" has only {len(cands)} matches')
            it = cands[idx]
            cur = it.children
        return it

    @staticmethod
    def _matches(c: Item, seg: str) -> bool:
        if seg.startswith('impl'):
            return c.kind == 'impl' and norm(seg) == c.name
        parts = seg.split(None, 1)
        if len(parts) != 2:
            return False
        kind, name = parts
        if kind == 'macro_rules':
            return c.kind == 'macro_rules' and c.name == name
        return c.kind == kind and c.name == name

    def all_items(self):
        def rec(items, prefix):
            for it in items:
                p = prefix + [f'{it.kind} {it.name}' if it.kind != 'impl' else it.name]
                yield ' :: '.join(p), it
                yield from rec(it.children, p)
        yield from rec(self.items, [])


# --------------------------------------------------------------------------
# Function anatomy
# --------------------------------------------------------------------------

@dataclass
class FnParts:
    attrs: str           # attributes + doc comments (verbatim)
    sig: str             # from visibility to just before '{' (verbatim, stripped right)
    body: str            # '{ ... }' verbatim
    ret: Optional[str]   # return type text or None
    sig_start: int
    body_open: int
    end: int


def fn_parts(sf: SourceFile, it: Item) -> FnParts:
    assert it.kind == 'fn'
    src, mask = sf.src, sf.mask
    attrs = src[it.start:it.sig_start]
    if it.body_open < 0:
        sig = src[it.sig_start:it.end - 1]
        body = ''
    else:
        sig = src[it.sig_start:it.body_open]
        body = src[it.body_open:it.end]
    # return type: find '->' at depth 0 after the parameter list
    m = re.search(r'\bfn\b', mask[it.sig_start:])
    k = it.sig_start + m.end()
    # skip name and generics up to '('
    while mask[k] != '(':
        if mask[k] == '<':
            # generics: angle matching (no '->' handling needed before params)
            depth = 0
            while True:
                if mask[k] == '<':
                    depth += 1
                elif mask[k] == '>' and mask[k - 1] != '-':
                    depth -= 1
                    if depth == 0:
                        break
                k += 1
        k += 1
    pclose = match_close(mask, k)
    rest_lo = pclose + 1
    rest_hi = it.body_open if it.body_open >= 0 else it.end - 1
    rest = mask[rest_lo:rest_hi]
    ret = None
    am = re.match(r'\s*->', rest)
    if am:
        # return type extends to 'where' at depth 0 or end
        t = rest_lo + am.end()
        depth = 0
        e = t
        while e < rest_hi:
            ch = mask[e]
            if ch in '([':
                e = match_close(mask, e) + 1
                continue
            if ch == '<':
                depth += 1
            elif ch == '>' and mask[e - 1] != '-':
                depth -= 1
            elif depth == 0 and re.match(r'\bwhere\b', mask[e:e + 6]) and not (mask[e - 1].isalnum() or mask[e - 1] == '_'):
                break
            e += 1
        ret = src[t:e].strip()
    return FnParts(attrs, sig.rstrip(), body, ret, it.sig_start, it.body_open, it.end)


def find_loops(body: str) -> List[Tuple[str, int, int]]:
    """Return [(keyword, kw_index, body_open_index)] for every loop in `body`
    (text of a fn body), in source order."""
    mask = mask_source(body)
    res = []
    for m in re.finditer(r'\b(while|for|loop)\b', mask):
        kw = m.group(1)
        k = m.end()
        if kw == 'for':
            # exclude `for<'a>` and `impl X for Y`
            t = _skip_ws(mask, k, len(mask))
            if t < len(mask) and mask[t] == '<':
                continue
            # a for loop must contain ' in ' before its '{'
        # find first '{' at depth 0
        j = k
        ok = True
        while j < len(mask):
            ch = mask[j]
            if ch in '([':
                j = match_close(mask, j) + 1
                continue
            if ch == '{':
                break
            if ch == ';':
                ok = False
                break
            j += 1
        if not ok or j >= len(mask):
            continue
        if kw == 'for' and not re.search(r'\bin\b', mask[k:j]):
            continue
        res.append((kw, m.start(), j))
    return res


def split_statements(body: str) -> List[Tuple[int, int]]:
    """Top-level statements of a fn body `{ ... }`: returns (start, end) offsets
    into `body`.  A statement ends at a `;` at depth 1, or at the `}` of a
    block-like statement (if / for / while / loop / match / unsafe / plain
    block) that is not continued by `else`, a method call, `?` or an operator.
    The trailing expression (if any) is the last entry."""
    mask = mask_source(body)
    n = len(mask)
    res = []
    i = 1
    end_body = n - 1
    start = None
    while i < end_body:
        ch = mask[i]
        if start is None:
            if ch.isspace():
                i += 1
                continue
            start = i
        if ch in '([':
            i = match_close(mask, i) + 1
            continue
        if ch == '{':
            j = match_close(mask, i)
            k = j + 1
            while k < end_body and mask[k].isspace():
                k += 1
            nxt = mask[k:k + 4]
            first_word = re.match(r'[A-Za-z_]\w*', mask[start:])
            blocklike = first_word is not None and first_word.group(0) in ('if', 'for', 'while', 'loop', 'match', 'unsafe') or mask[start] == '{'
            if blocklike and not (nxt.startswith('else') or nxt[:1] in '.?;=+-*/&|<>,)' ):
                res.append((start, j + 1))
                start = None
            i = j + 1
            continue
        if ch == ';':
            res.append((start, i + 1))
            start = None
        i += 1
    if start is not None:
        e = end_body
        while e > start and mask[e - 1].isspace():
            e -= 1
        res.append((start, e))
    return res


if __name__ == '__main__':
    import sys
    sf = SourceFile(sys.argv[1])
    if len(sys.argv) > 2:
        it = sf.find(sys.argv[2])
        print(sf.src[it.start:it.end])
    else:
        for p, it in sf.all_items():
            print(f'{sf.line_of(it.sig_start):5d}  {p}')
