#!/usr/bin/env python3
"""Confirm a seeded change and run the checks against it.

  python3 tools/seedtest.py <mutant dir with patch.diff/demo.rs/meta.json> <seed id> [--props C01,C02] [--tier quick]

1. makes a scratch copy of /repo's HEAD outside /repo and /verif,
2. confirms on it: the demo passes on the clean tree; with the patch applied the
   workspace builds, the 59 pinned tests still pass, and the demo fails,
3. runs ./check <prop> against the patched scratch copy (VERIF_REPO), records exit
   codes and VIOLATION / UNDECIDED lines,
4. stores everything under /verif/seeded/<seed id>/ and removes the scratch copy.
"""
import json
import os
import re
import shutil
import subprocess
import sys

VERIF = os.path.dirname(os.path.dirname(os.path.abspath(__file__)))


def sh(cmd, cwd=None, env=None, timeout=3600):
    p = subprocess.run(cmd, cwd=cwd, env=env, shell=isinstance(cmd, str), capture_output=True, text=True, timeout=timeout)
    return p.returncode, p.stdout + p.stderr


def demo_place(demo_text, default_crate):
    m = re.search(r'(multiboot2(?:-common|-header)?)/tests/(demo_\w+\.rs)', demo_text[:2000])
    if m:
        return m.group(1), m.group(2)
    return default_crate, 'demo_seed.rs'


def main():
    mdir, sid = sys.argv[1], sys.argv[2]
    props = None
    tier = 'quick'
    for i, a in enumerate(sys.argv):
        if a == '--props':
            props = sys.argv[i + 1].split(',')
        if a == '--tier':
            tier = sys.argv[i + 1]
    meta = json.load(open(os.path.join(mdir, 'meta.json')))
    if 'breaks_property' in meta:     # re-run from /verif/seeded/<id>
        meta = {'property': meta['breaks_property'], 'summary': meta.get('summary'), 'needs': meta.get('needs_to_manifest'), 'ran': meta.get('author_ran')}
    pid = meta.get('property', sid.split('-')[0])
    props = props or [pid]
    patch = os.path.abspath(os.path.join(mdir, 'patch.diff'))
    demo = open(os.path.join(mdir, 'demo.rs')).read()
    scratch = f'/var/tmp/seed-{sid}'
    shutil.rmtree(scratch, ignore_errors=True)
    rc, out = sh(f'git -C /repo worktree add -q --detach {scratch} HEAD')
    if rc:
        print(out)
        sys.exit(2)
    res = {'seed': sid, 'property': pid}
    try:
        crate_guess = 'multiboot2'
        m = re.search(r'^diff --git a/(multiboot2[\w-]*)/', open(patch).read(), re.M)
        if m:
            crate_guess = m.group(1)
        crate, fname = demo_place(demo, crate_guess)
        os.makedirs(os.path.join(scratch, crate, 'tests'), exist_ok=True)
        dpath = os.path.join(scratch, crate, 'tests', fname)
        open(dpath, 'w').write(demo)
        tname = fname[:-3]
        env = dict(os.environ, CARGO_NET_OFFLINE='true', CARGO_TARGET_DIR=f'/var/tmp/seed-target-{sid}')
        rc0, out0 = sh(f'cargo test -p {crate} --offline --test {tname}', cwd=scratch, env=env)
        res['demo_clean_passes'] = rc0 == 0
        rc, out = sh(f'git apply {patch}', cwd=scratch)
        res['patch_applies'] = rc == 0
        if rc:
            res['patch_error'] = out[-500:]
        rc1, out1 = sh('cargo test --workspace --offline --lib --bins', cwd=scratch, env=env)
        passed = sum(int(x) for x in re.findall(r'test result: ok\. (\d+) passed', out1))
        res['suite_passes_with_patch'] = rc1 == 0
        res['suite_passed_count'] = passed
        rc2, out2 = sh(f'cargo test -p {crate} --offline --test {tname}', cwd=scratch, env=env)
        res['demo_fails_with_patch'] = rc2 != 0
        res['demo_output_tail'] = out2[-600:]
        if rc2 == 0:
            # changes that only show without debug assertions (C08-style): try the release profile
            rc3, out3 = sh(f'cargo test -p {crate} --offline --release --test {tname}', cwd=scratch, env=env)
            if rc3 != 0 and 'test result: FAILED' in out3:
                res['demo_fails_with_patch'] = True
                res['demo_profile'] = 'release'
                res['demo_output_tail'] = out3[-600:]
        if not res['demo_fails_with_patch']:
            # changes that only show in another cargo-feature configuration
            rc4, out4 = sh(f'cargo test -p {crate} --offline --no-default-features --test {tname}', cwd=scratch, env=env)
            if rc4 != 0 and 'test result: FAILED' in out4:
                res['demo_fails_with_patch'] = True
                res['demo_profile'] = 'no-default-features'
                res['demo_output_tail'] = out4[-600:]
        os.remove(dpath)   # the demo is not part of the tree the checks see
        res['confirmed'] = bool(res['demo_clean_passes'] and res['patch_applies'] and res['suite_passes_with_patch'] and res['demo_fails_with_patch'])
        checks = {}
        for p in props:
            envc = dict(os.environ, VERIF_REPO=scratch, VERIF_TIER=tier, VERIF_JOBS=os.environ.get('VERIF_JOBS', '6'))
            rc, out = sh(['./check', p, '--tier', tier], cwd=VERIF, env=envc, timeout=7200)
            lines = [l for l in out.split('\n') if l.startswith(('VIOLATION', 'UNDECIDED', 'KNOWN-FINDING', '['))]
            checks[p] = {'exit': rc, 'lines': [l[:300] for l in lines if not l.startswith('KNOWN-FINDING')][:12]}
        res['checks'] = checks
        res['detected_by'] = [p for p, c in checks.items() if c['exit'] == 1]
    finally:
        sh(f'git -C /repo worktree remove --force {scratch}')
        shutil.rmtree(scratch, ignore_errors=True)
        shutil.rmtree(f'/var/tmp/seed-target-{sid}', ignore_errors=True)
    out_dir = os.path.join(VERIF, 'seeded', sid)
    os.makedirs(out_dir, exist_ok=True)
    if os.path.abspath(patch) != os.path.abspath(os.path.join(out_dir, 'patch.diff')):
        shutil.copy(patch, os.path.join(out_dir, 'patch.diff'))
    open(os.path.join(out_dir, 'demo.rs'), 'w').write(demo)
    meta_out = {'breaks_property': pid, 'summary': meta.get('summary'), 'needs_to_manifest': meta.get('needs'),
                'author_ran': meta.get('ran'), 'confirmation': {k: res.get(k) for k in ('demo_clean_passes', 'patch_applies', 'suite_passes_with_patch', 'suite_passed_count', 'demo_fails_with_patch', 'demo_profile', 'confirmed')},
                'checks_run': res.get('checks'), 'detected_by': res.get('detected_by')}
    json.dump(meta_out, open(os.path.join(out_dir, 'meta.json'), 'w'), indent=1)
    print(json.dumps({k: res[k] for k in ('seed', 'confirmed', 'detected_by')}), {p: c['exit'] for p, c in res.get('checks', {}).items()})
    for p, c in res.get('checks', {}).items():
        for l in c['lines']:
            print('   ', p, l[:200])


if __name__ == '__main__':
    main()
