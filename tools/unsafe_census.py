#!/usr/bin/env python3
"""Unsafe census (C01 / C09): every function of the three crates (outside test
modules) whose body contains the keyword `unsafe` -- or that is declared
`unsafe fn` -- must be listed in contracts/unsafe_sites.json together with the
unit / harness that claims it (or a documented exclusion).  The encapsulation
argument of C01/C09 ("memory safety of every sequence of safe calls follows from
the per-function proofs + the Rust type system") is only valid if no unsafe site
is outside the claimed set.

  python3 tools/unsafe_census.py [repo]            report
  python3 tools/unsafe_census.py --baseline        (re)write contracts/unsafe_sites.json skeleton
"""
import json, os, re, sys
sys.path.insert(0, os.path.dirname(os.path.abspath(__file__)))
from rsitems import SourceFile, mask_source

VERIF = os.path.dirname(os.path.dirname(os.path.abspath(__file__)))
CRATES = ['multiboot2-common', 'multiboot2', 'multiboot2-header']
SITES = os.path.join(VERIF, 'contracts', 'unsafe_sites.json')


def census(repo):
    found = {}
    for crate in CRATES:
        d = os.path.join(repo, crate, 'src')
        for fn in sorted(os.listdir(d)):
            if not fn.endswith('.rs') or fn == 'test_utils.rs':
                continue
            sf = SourceFile(os.path.join(d, fn))
            for path, it in sf.all_items():
                if it.kind != 'fn' or 'mod tests' in path or 'mod test' in path:
                    continue
                sig = mask_source(sf.src[it.sig_start:it.body_open if it.body_open >= 0 else it.end])
                body = mask_source(sf.src[it.body_open:it.end]) if it.body_open >= 0 else ''
                n = len(re.findall(r'\bunsafe\b', body))
                if n or re.search(r'\bunsafe\s+fn\b', sig):
                    found[f'{crate}/src/{fn} :: {path}'] = n
    return found


def check(repo):
    found = census(repo)
    claimed = json.load(open(SITES)) if os.path.exists(SITES) else {}
    unclaimed = sorted(k for k in found if k not in claimed)
    gone = sorted(k for k in claimed if k not in found)
    grown = sorted(k for k in found if k in claimed and found[k] > claimed[k].get('unsafe_blocks', found[k]))
    return found, unclaimed, gone, grown


if __name__ == '__main__':
    if '--baseline' in sys.argv:
        found = census('/repo')
        old = json.load(open(SITES)) if os.path.exists(SITES) else {}
        out = {k: dict(old.get(k, {'claimed_by': 'TODO'}), unsafe_blocks=v) for k, v in sorted(found.items())}
        json.dump(out, open(SITES, 'w'), indent=1)
        print(len(out), 'sites written')
    else:
        repo = sys.argv[1] if len(sys.argv) > 1 else '/repo'
        found, unclaimed, gone, grown = check(repo)
        print(len(found), 'functions with unsafe;', len(unclaimed), 'unclaimed;', len(grown), 'with more unsafe blocks than recorded')
        for k in unclaimed:
            print('UNCLAIMED', k)
        for k in grown:
            print('GROWN', k)
