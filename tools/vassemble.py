#!/usr/bin/env python3
"""Assemble a single-file Verus unit from a template in contracts/verus/ and
items extracted *verbatim* from the working tree of /repo.

Template directives (lines whose first non-blank characters are `//@`):

  //@include <file>                  textual include (relative to contracts/verus)
  //@extract <repo file> :: <item path>
  //@  novis                         do not force `pub` (trait / trait-impl items)
  //@  ret <name>                    name the return value:  -> T   =>  -> (name: T)
  //@  rules <R2,R5,R6,Rlog,...>     fixed rewrite rules to apply (see RULES)
  //@  rewrite /regex/ => /repl/ [xN]  explicit, logged rewrite; must match exactly N (default 1) times
  //@  sigrewrite /regex/ => /repl/ [xN]   same, signature only
  //@  prologue <ghost text>         proof block inserted right after the body's opening brace (ghost only)
  //@  execconst <ensures expr>      (const items) emit as `exec const N: T ensures <expr> { E }` (@NAME = the const's name)
  //@  rename <NAME> / valueof <NAME> (const items) emit the const under another name / with its value replaced by NAME
  //@  ghoststmt <n> => <ghost text>   proof-only text inserted after the n-th (0-based) top-level statement of the body
  //@  ghoststmt <n> of /regex/ => <ghost text>   same, counting only the top-level statements that match regex
  //@  ghostafter /regex/ => <ghost text>   proof-only text inserted after the unique match of regex in the body
  //@  capture NAME /regex/          NAME := group 1 of the unique match in the body; `$NAME` in the ghost text / loop
  //@                                invariants / rewrites / prologue of this item is replaced by it
  //@  inject <text>                 (trait/impl/struct) text inserted right after the opening brace
  //@  keepattrs <regex>             keep leading attributes matching regex (default: only #[repr..])
  //@  spec:                         following lines are spliced between signature and body
  //@  loop <n>:                     following lines are spliced before the body of loop #n (0-based)
  //@end

Everything that is not a directive is copied through unchanged.
The result is written together with a line map (assembled line -> origin) and
an extraction report (which item, which rules fired how often, what was
dropped) so that "what the extraction drops" is stated per run.
"""
import json
import os
import re
import sys

sys.path.insert(0, os.path.dirname(os.path.abspath(__file__)))
from rsitems import SourceFile, ScanError, fn_parts, find_loops, mask_source, match_close, split_statements  # noqa: E402

VERIF = os.path.dirname(os.path.dirname(os.path.abspath(__file__)))
REPO = os.environ.get('VERIF_REPO', '/repo')
TPL_DIR = os.path.join(VERIF, 'contracts', 'verus')


class AssembleError(Exception):
    """Anchor lost / rule ambiguous: the unit is *undecided*, never a violation."""


# ---------------------------------------------------------------------------
# Fixed rewrite rules.  Each is (regex, replacement, description).  They are
# applied to fn bodies only (not to contracts), every application is counted.
# ---------------------------------------------------------------------------
RULES = {
    # R2: raw-pointer dereference -> specified primitive carrying the
    # in-extent / alignment precondition that `unsafe` hides.
    'R2': [
        (r'&\s*\*\s*([A-Za-z_]\w*(?:\.\w+(?:::<[^<>()]*(?:<[^<>()]*>)?[^<>()]*>)?\([^()]*\))*)(?![\w\.\[])', r'deref_raw(\1)', '&*ptr_expr -> deref_raw(ptr_expr)'),
    ],
    # R2c: `&*(PTR as *const T)` -> deref_raw(PTR.cast::<T>())   (an `as` cast between raw
    # pointer types and `.cast()` are the same operation)
    'R2c': [
        (r'&\s*\*\s*\(\s*([A-Za-z_][\w\.]*)\s+as\s+\*const\s+([A-Za-z_]\w*)\s*\)', r'deref_raw::<\2>(\1.cast::<\2>())', '&*(p as *const T) -> deref_raw::<T>(p.cast::<T>())'),
    ],
    # R2b: `ptr::addr_of!(*self)` / `core::ptr::addr_of!(*self)` -> addr_of_ref(self)
    'R2b': [
        (r'(?:core::)?ptr::addr_of!\(\*([A-Za-z_][A-Za-z0-9_\.]*)\)', r'addr_of_ref(\1)', 'addr_of!(*x) -> addr_of_ref(x)'),
    ],
    # R5: unwrap/expect in partial-panic units -> extension method without
    # precondition (controlled panic = divergence).
    'R5': [
        (r'\.unwrap\(\)', r'.vunwrap()', '.unwrap() -> .vunwrap()'),
        (r'\.expect\("[^"]*"\)', r'.vunwrap()', '.expect(..) -> .vunwrap()'),
    ],
    # Rmm (always on): the free functions core::cmp::{min,max} are defined by core as `v1.min(v2)` /
    # `v1.max(v2)`; Verus specifies the Ord methods but not the free functions.
    'Rmm': [
        (r'(?<![\w:])(?:(?:core|std)::)?cmp::(min|max)\s*\(', r'Ord::\1(', 'cmp::min/max(a, b) -> Ord::min/max(a, b)'),
    ],
    # Rlog: logging statements have no data flow.
    'Rlog': [
        (r'log::(?:debug|warn|info|error|trace)!\((?:[^()]|\((?:[^()]|\([^()]*\))*\))*\);', r'', 'log::*!(..); dropped'),
    ],
}


def chain_start(text, pos):
    """Start offset of the postfix chain (`a.b::<T>(..).c[..]`) that ends right before pos."""
    i = pos
    while True:
        j = i
        while j > 0 and text[j - 1].isspace():
            j -= 1
        if j == 0:
            return i
        ch = text[j - 1]
        if ch in ')]':
            depth, k = 0, j - 1
            while k >= 0:
                if text[k] in ')]':
                    depth += 1
                elif text[k] in '([':
                    depth -= 1
                    if depth == 0:
                        break
                k -= 1
            if k < 0:
                return i
            i = k
            continue
        if ch == '>' and '::<' in text[:j]:
            depth, k = 0, j - 1
            while k >= 0:
                if text[k] == '>':
                    depth += 1
                elif text[k] == '<':
                    depth -= 1
                    if depth == 0:
                        break
                k -= 1
            if k < 2 or text[k - 2:k] != '::':
                return i
            i = k - 2
            continue
        if ch.isalnum() or ch == '_':
            k = j - 1
            while k > 0 and (text[k - 1].isalnum() or text[k - 1] == '_'):
                k -= 1
            i = k
            continue
        if ch == '.':
            i = j - 1
            continue
        if ch == ':' and j >= 2 and text[j - 2] == ':':
            i = j - 2
            continue
        return i


def rule_r8(text, report):
    """R8: `<chain>.cast::<T>().as_ref().unwrap()` (Option<&T> from a raw pointer, unwrapped)
    -> `ptr_as_ref_unwrap(<chain>.cast::<T>())`; the chain is found syntactically, whatever
    locals it is built from."""
    n = 0
    while True:
        m = re.search(r'(\.cast::<[^<>;]+>\(\))\s*\.as_ref\(\)\s*\.unwrap\(\)', text)
        if not m:
            break
        st = chain_start(text, m.start())
        text = text[:st] + 'ptr_as_ref_unwrap(' + text[st:m.end(1)] + ')' + text[m.end():]
        n += 1
    if n:
        report.setdefault('rules', {})['R8: <ptr chain>.cast::<T>().as_ref().unwrap() -> ptr_as_ref_unwrap(<ptr chain>.cast::<T>())'] = n
    return text


def apply_rules(text, rules, report):
    rules = list(rules) + ['Rmm']
    if 'R8' in rules:
        text = rule_r8(text, report)
        rules = [r for r in rules if r != 'R8']
    for r in rules:
        if r not in RULES:
            raise AssembleError(f'unknown rule {r}')
        for rx, repl, desc in RULES[r]:
            text, n = re.subn(rx, repl, text)
            if n:
                report.setdefault('rules', {}).setdefault(f'{r}: {desc}', 0)
                report['rules'][f'{r}: {desc}'] += n
    return text


def find_closures(body):
    """(start, params_end, body_start, body_end, is_block) of every closure `|params| BODY` that is an
    argument / initialiser (preceded by `(`, `,` or `=`), in source order; BODY ends at the `)` / `,` / `;`
    that closes the enclosing argument (balanced), or is a `{..}` block."""
    mb = mask_source(body)
    res = []
    for m in re.finditer(r'(?<=[(,=])\s*(?:move\s+)?\|([^|]*)\|\s*', mb):
        st = m.start() + (len(m.group(0)) - len(m.group(0).lstrip()))
        bs = m.end()
        if bs < len(mb) and mb[bs] == '{':
            depth, i = 0, bs
            while i < len(mb):
                if mb[i] == '{':
                    depth += 1
                elif mb[i] == '}':
                    depth -= 1
                    if depth == 0:
                        break
                i += 1
            res.append((st, m.end(), bs, i + 1, True))
            continue
        depth, i = 0, bs
        while i < len(mb):
            c = mb[i]
            if c in '([{':
                depth += 1
            elif c in ')]}':
                if depth == 0:
                    break
                depth -= 1
            elif c in ',;' and depth == 0:
                break
            i += 1
        res.append((st, m.end(), bs, i, False))
    return res


def annotate_closures(body, table, rep):
    cls = find_closures(body)
    for n in sorted(table, reverse=True):
        if n >= len(cls):
            raise AssembleError(f'{rep["item"]}: closure #{n} not found (body has {len(cls)} closures) — anchor lost')
        st, pe, bs, be, is_block = cls[n]
        # the annotated header must name the same parameters as the closure it replaces: after an edit that
        # adds / removes / reorders closures the ordinal would otherwise silently annotate another closure
        orig_params = [x.strip().split(':')[0].strip() for x in body[st:pe].strip().strip('|').split(',') if x.strip()]
        mh = re.match(r'\s*(?:move\s+)?\|([^|]*)\|', table[n])
        hdr_params = [x.strip().split(':')[0].strip() for x in (mh.group(1) if mh else '').split(',') if x.strip()]
        if orig_params != hdr_params:
            raise AssembleError(f'{rep["item"]}: closure #{n} has parameters {orig_params}, the contract header expects {hdr_params} — anchor lost')
        inner = body[bs:be]
        new = table[n] + ' ' + (inner if is_block else '{ ' + inner.rstrip() + ' }')
        body = body[:st] + new + body[be:]
        rep.setdefault('rules', {})['Rcl: closure header replaced by an annotated header (parameter types + requires/ensures); closure body verbatim'] = \
            rep.setdefault('rules', {}).get('Rcl: closure header replaced by an annotated header (parameter types + requires/ensures); closure body verbatim', 0) + 1
    return body


def parse_rewrite(arg):
    m = re.match(r'/(.*)/\s*=>\s*/(.*)/\s*(?:x(\d+|\*))?\s*$', arg)
    if not m:
        raise AssembleError(f'bad rewrite directive: {arg}')
    cnt = m.group(3)
    # default: at least one match (an exact count is only demanded when written as xN)
    return m.group(1), m.group(2), ('*' if cnt == '*' else int(cnt) if cnt else None)


def do_rewrite(text, rw, what, report):
    rx, repl, cnt = rw
    new, n = re.subn(rx, repl, text)
    if (cnt is None and n < 1) or (isinstance(cnt, int) and n != cnt):
        raise AssembleError(f'rewrite /{rx}/ matched {n} times in {what}, expected {cnt if cnt is not None else ">= 1"} (anchor lost)')
    report.setdefault('rewrites', []).append({'regex': rx, 'repl': repl, 'count': n})
    return new


def strip_leading(src_text, keep_rx):
    """Drop doc comments / attributes in front of an item, keeping attributes
    that match keep_rx.  Returns (kept_text, dropped_list)."""
    kept, dropped = [], []
    i = 0
    n = len(src_text)
    mask = mask_source(src_text)
    while i < n:
        if src_text[i].isspace():
            i += 1
            continue
        if src_text.startswith('//', i):
            j = src_text.find('\n', i)
            j = n if j < 0 else j
            dropped.append(src_text[i:j].strip()[:40])
            i = j
            continue
        if mask[i] == '#':
            j = mask.find('[', i)
            e = match_close(mask, j) + 1
            a = src_text[i:e]
            if re.search(keep_rx, a):
                kept.append(a)
            else:
                dropped.append(re.sub(r'\s+', ' ', a)[:60])
            i = e
            continue
        break
    return ('\n'.join(kept) + ('\n' if kept else '')), dropped, i


def pubify_struct_body(body, report):
    """body: '{ ... }' of a struct with named fields.  Make every field pub,
    drop per-field attributes and doc comments."""
    mask = mask_source(body)
    body = mask            # comments blanked (struct bodies contain no string literals)
    inner_lo, inner_hi = 1, len(body) - 1
    fields = []
    depth = 0
    start = inner_lo
    i = inner_lo
    while i < inner_hi:
        ch = mask[i]
        if ch in '([{':
            i = match_close(mask, i) + 1
            continue
        if ch == '<':
            depth += 1
        elif ch == '>':
            depth -= 1
        elif ch == ',' and depth == 0:
            fields.append(body[start:i])
            start = i + 1
        i += 1
    if body[start:inner_hi].strip():
        fields.append(body[start:inner_hi])
    out = []
    for f in fields:
        _, dropped, k = strip_leading(f, r'^$a')
        ftxt = f[k:].strip()
        # remaining comments inside the field text
        ftxt = re.sub(r'//[^\n]*', '', ftxt).strip()
        if not ftxt:
            continue
        ftxt = re.sub(r'^pub(\s*\([^)]*\))?\s+', '', ftxt)
        out.append('    pub ' + ftxt + ',')
        report['dropped'] += dropped
    return '{\n' + '\n'.join(out) + '\n}'


class Assembler:
    def __init__(self, repo=REPO):
        self.repo = repo
        self.files = {}
        self.out = []          # list of (line_text, origin)
        self.report = {'items': [], 'template_files': []}

    def sf(self, rel):
        if rel not in self.files:
            p = os.path.join(self.repo, rel)
            if not os.path.exists(p):
                raise AssembleError(f'anchor lost: source file {rel} missing')
            try:
                self.files[rel] = SourceFile(p)
            except ScanError as e:
                raise AssembleError(f'cannot scan {rel}: {e}')
        return self.files[rel]

    def emit(self, text, origin):
        for k, ln in enumerate(text.split('\n')):
            o = origin
            if isinstance(origin, tuple) and origin[0] == 'repo':
                o = ('repo', origin[1], origin[2] + k)
            self.out.append((ln, o))

    # ------------------------------------------------------------------
    def process_template(self, path):
        self.report['template_files'].append(os.path.relpath(path, VERIF))
        lines = open(path).read().split('\n')
        i = 0
        while i < len(lines):
            ln = lines[i]
            s = ln.strip()
            if s.startswith('//@include '):
                inc = s[len('//@include '):].strip()
                self.process_template(os.path.join(TPL_DIR, inc))
                i += 1
                continue
            if s.startswith('//@extractall '):
                spec = s[len('//@extractall '):].strip()
                block = []
                i += 1
                while i < len(lines) and lines[i].strip() != '//@end':
                    block.append(lines[i].strip()[3:])
                    i += 1
                i += 1
                self.extract_all(spec, block, (os.path.relpath(path, VERIF), i))
                continue
            if s.startswith('//@extract '):
                spec = s[len('//@extract '):].strip()
                block = []
                i += 1
                while i < len(lines) and lines[i].strip() != '//@end':
                    b = lines[i].strip()
                    if not b.startswith('//@'):
                        raise AssembleError(f'{path}:{i+1}: non-directive line inside extract block')
                    block.append(lines[i].strip()[3:])
                    i += 1
                if i >= len(lines):
                    raise AssembleError(f'{path}: unterminated //@extract {spec}')
                i += 1
                self.extract(spec, block, (os.path.relpath(path, VERIF), i))
                continue
            self.out.append((ln, ('tpl', os.path.relpath(path, VERIF), i + 1)))
            i += 1

    # ------------------------------------------------------------------
    def extract(self, spec, block, tplpos):
        rel, _, ipath = spec.partition(' :: ')
        rel = rel.strip()
        sf = self.sf(rel)
        try:
            it = sf.find(ipath.strip())
        except ScanError as e:
            raise AssembleError(str(e))
        opts = {'novis': False, 'ret': None, 'rules': [], 'rewrites': [], 'sigrewrites': [],
                'inject': [], 'prologue': [], 'keepattrs': r'#\[repr', 'spec': [], 'loops': {}, 'bodyonly': False,
                'dropbody': False}
        cur = None
        for raw in block:
            b = raw.strip()
            if cur is None or re.match(r'(loop \d+:|spec:)$', b):
                pass
            if b == 'spec:':
                cur = opts['spec']
                continue
            m = re.match(r'loop (\d+):$', b)
            if m:
                cur = opts['loops'].setdefault(int(m.group(1)), [])
                continue
            if cur is not None:
                cur.append(raw.rstrip())
                continue
            if b == 'novis':
                opts['novis'] = True
            elif b == 'optional':
                # a LEAF item (nothing else in the unit calls it): if its anchors are lost after an edit, only
                # this item becomes undecided instead of the whole unit
                opts['optional'] = True
            elif b == 'stubonloss':
                # like `optional`, for an item OTHER items call: if its anchors are lost after an edit, it is emitted as an
                # `external_body` stub carrying its contract (callers still verify against the contract) and is
                # recorded as lost -> undecided for the properties that list it, instead of the whole unit
                opts['optional'] = True
                opts['stubonloss'] = True
            elif b == 'nocontract':
                # the item is verified WITHOUT a contract (an item the template does not name, hosted outside
                # its trait): recorded so that the check reports its failure as "new code without a contract",
                # not as a violation
                m_ = re.search(r'(?:for\s+)?([A-Za-z_]\w*)\s*(?:<[^{}]*>)?\s*::\s*fn\s+(\w+)\s*$', spec)
                mi_ = re.search(r'impl(?:<[^{}]*?>)?\s+(?:[\w:<>\', ]+\s+for\s+)?([A-Za-z_]\w*)', spec)
                fnm_ = spec.rsplit('fn ', 1)[-1].strip()
                self.report.setdefault('nocontract_items', []).append(f'{mi_.group(1) if mi_ else "?"}::{fnm_}')
            elif b == 'dropbody':
                opts['dropbody'] = True
            elif b.startswith('ret '):
                opts['ret'] = b[4:].strip()
            elif b.startswith('rules '):
                opts['rules'] += [x.strip() for x in b[6:].split(',') if x.strip()]
            elif b.startswith('rewrite '):
                opts['rewrites'].append(parse_rewrite(b[8:].strip()))
            elif b.startswith('sigrewrite '):
                opts['sigrewrites'].append(parse_rewrite(b[11:].strip()))
            elif b.startswith('prologue '):
                opts['prologue'].append(raw[raw.index('prologue ') + 9:])
            elif b.startswith('capture '):
                m = re.match(r'(\w+)\s+/(.*)/\s*$', b[8:].strip())
                if not m:
                    raise AssembleError(f'bad capture directive: {b}')
                opts.setdefault('capture', []).append((m.group(1), m.group(2)))
            elif b.startswith('closure '):
                # `closure N: |x: T| -> (r: R) requires .. ensures ..` : contract annotation of the N-th
                # (0-based) closure of the body; the closure's body text stays verbatim (rule Rcl)
                m = re.match(r'(\d+)\s*:\s*(.*)$', b[8:].strip())
                if not m:
                    raise AssembleError(f'bad closure directive: {b}')
                opts.setdefault('closures', {})[int(m.group(1))] = m.group(2)
            elif b.startswith('rename '):
                opts['rename'] = b[7:].strip()
            elif b.startswith('valueof '):
                opts['valueof'] = b[8:].strip()
            elif b.startswith('execconst '):
                opts['execconst'] = b[10:].strip()
            elif b.startswith('ghoststmt '):
                m = re.match(r'(\d+)\s*(?:of\s*/(.*?)/\s*)?=>\s*(.*)$', b[10:].strip())
                if not m:
                    raise AssembleError(f'bad ghoststmt directive: {b}')
                opts.setdefault('ghoststmt', []).append((int(m.group(1)), m.group(3), m.group(2)))
            elif b.startswith('ghostafter '):
                m = re.match(r'/(.*)/\s*=>\s*(.*)$', b[11:].strip())
                if not m:
                    raise AssembleError(f'bad ghostafter directive: {b}')
                opts.setdefault('ghostafter', []).append((m.group(1), m.group(2)))
            elif b.startswith('inject '):
                opts['inject'].append(raw[raw.index('inject ') + 7:])
            elif b.startswith('keepattrs '):
                opts['keepattrs'] = b[10:].strip()
            elif b == '':
                continue
            else:
                raise AssembleError(f'{tplpos[0]}: unknown option "{b}" in extract {spec}')
        rep = {'item': f'{rel} :: {ipath.strip()}', 'repo_line': sf.line_of(it.sig_start),
               'dropped': [], 'rules': {}, 'rewrites': []}
        if it.kind == 'fn' and opts.get('optional'):
            try:
                text = self.render_fn(sf, it, opts, rep)
            except AssembleError as e:
                mi_ = re.search(r'impl(?:<[^{}]*?>)?\s+(?:[\w:<>\', ]+\s+for\s+)?([A-Za-z_]\w*)', ipath)
                name = (mi_.group(1) + '::' if mi_ else '') + it.name
                self.report.setdefault('lost_items', []).append({'name': name, 'reason': str(e)})
                if opts.get('stubonloss'):
                    o2 = dict(opts, closures={}, rewrites=[], ghostafter=[], ghoststmt=[], loops={}, prologue=[], rules=[], capture=[], dropbody=True, optional=False)
                    rep2 = {'item': rep['item'], 'repo_line': rep['repo_line'], 'dropped': [], 'rules': {}, 'rewrites': []}
                    stub = self.render_fn(sf, it, o2, rep2).rstrip()
                    self.out.append((f'// (item {name}: anchor lost -- emitted as an external_body stub with its contract; undecided)', ('tpl', tplpos[0], tplpos[1])))
                    self.emit('#[verifier::external_body]\n' + stub + '\n{ unimplemented!() }\n', ('tpl', tplpos[0], tplpos[1]))
                    return
                self.out.append((f'// (optional item {name} not extracted: anchor lost)', ('tpl', tplpos[0], tplpos[1])))
                return
        elif it.kind == 'fn':
            text = self.render_fn(sf, it, opts, rep)
        elif it.kind in ('struct', 'union'):
            text = self.render_struct(sf, it, opts, rep)
        else:
            text = self.render_other(sf, it, opts, rep)
        self.report['items'].append(rep)
        self.emit(text, ('repo', rel, sf.line_of(it.sig_start)))

    def extract_all(self, spec, block, tplpos):
        """Render EVERY item of an impl block (so that an item added to the block --
        e.g. an override of a trait default method -- becomes part of the verified
        text instead of going unnoticed).  Option lines are prefixed with the item
        they apply to:  `fn NAME: <option>`  /  `const NAME: <option>`; a spec block for
        a fn starts with `fn NAME: spec:` and extends to the next prefixed line."""
        rel, _, ipath = spec.partition(' :: ')
        sf = self.sf(rel.strip())
        try:
            imp = sf.find(ipath.strip())
        except ScanError as e:
            raise AssembleError(str(e))
        per = {}
        cur = None
        for raw in block:
            m = re.match(r'\s*(fn|const|type) (\w+|\*): ?(.*)$', raw)
            if m:
                cur = per.setdefault((m.group(1), m.group(2)), [])
                cur.append('  ' + m.group(3))
            elif cur is not None:
                cur.append(raw)
        # `onlyfns a,b`: the block must define exactly these fns (e.g. an Iterator impl that must not
        # override `find` / `try_fold`, whose default definitions a glue function relies on)
        for raw in block:
            mo = re.match(r'\s*onlyfns\s+([\w,\s]+)$', raw)
            if mo:
                want = sorted(x.strip() for x in mo.group(1).split(',') if x.strip())
                have = sorted(ch.name for ch in imp.children if ch.kind == 'fn')
                if want != have:
                    raise AssembleError(f'{rel.strip()} :: {ipath.strip()}: onlyfns {want} but the block defines {have}')
        for ch in imp.children:
            if ch.kind not in ('fn', 'const', 'type'):
                continue
            if any(l.strip() == 'skip' for l in per.get((ch.kind, ch.name), [])):
                self.report.setdefault('skipped_items', []).append(f'{rel.strip()} :: {ipath.strip()} :: {ch.kind} {ch.name}')
                continue
            is_trait_impl = ' for ' in imp.name
            # `fn *: <option>` lines are the defaults for items the template does not name
            # (an item ADDED to the block by an edit is verified under these, without a contract)
            lines = (['  novis'] if is_trait_impl else []) + per.get((ch.kind, ch.name), per.get((ch.kind, '*'), []))
            if ch.kind == 'const' and not per.get((ch.kind, ch.name)):
                self.out.append(('    #[verifier::external_body]', ('tpl', tplpos[0], tplpos[1])))
            self.extract(f'{rel.strip()} :: {ipath.strip()} :: {ch.kind} {ch.name}', lines, tplpos)

    def render_fn(self, sf, it, opts, rep):
        fp = fn_parts(sf, it)
        kept, dropped, _ = strip_leading(fp.attrs, opts['keepattrs'])
        rep['dropped'] += dropped
        sig = fp.sig
        if not opts['novis']:
            sig = re.sub(r'^pub(\s*\([^)]*\))?\s+', '', sig)
            sig = 'pub ' + sig
        if opts['ret']:
            if fp.ret is None:
                raise AssembleError(f'{rep["item"]}: ret given but fn has no return type')
            idx = sig.rfind(fp.ret)
            arrow = sig.rfind('->', 0, idx)
            sig = sig[:arrow] + f'-> ({opts["ret"]}: {fp.ret})' + sig[idx + len(fp.ret):]
        for rw in opts['sigrewrites']:
            sig = do_rewrite(sig, rw, f'signature of {rep["item"]}', rep)
        body = fp.body
        if opts.get('capture'):
            # `capture NAME /regex with one group/`: the name of a local of the real body (so that
            # ghost text does not depend on what the local happens to be called); `$NAME` in the
            # ghost text, loop invariants, rewrites and prologue of this item stands for it
            caps = {}
            mb_ = mask_source(body)
            for nm, rx in opts['capture']:
                ms = list(re.finditer(rx, mb_))
                if len(ms) != 1:
                    raise AssembleError(f'{rep["item"]}: capture {nm} /{rx}/ matched {len(ms)} times, expected 1 (anchor lost)')
                caps[nm] = ms[0].group(1)
            rep['captures'] = caps

            def sub_(t):
                for nm, v in caps.items():
                    t = t.replace('$' + nm, v)
                return t
            opts = dict(opts)
            opts['ghoststmt'] = [(n_, sub_(g_), f_) for n_, g_, f_ in opts.get('ghoststmt', [])]
            opts['ghostafter'] = [(sub_(r_), sub_(g_)) for r_, g_ in opts.get('ghostafter', [])]
            opts['loops'] = {k_: [sub_(l_) for l_ in v_] for k_, v_ in opts['loops'].items()}
            opts['rewrites'] = [(sub_(a_), sub_(b_), c_) for a_, b_, c_ in opts['rewrites']]
            opts['prologue'] = [sub_(l_) for l_ in opts['prologue']]
        if opts['dropbody']:
            body = ''
        if opts.get('ghoststmt'):
            # ghost-only text after the N-th (0-based) top-level statement of the ORIGINAL body.
            # Ordinal anchors on purpose: a dropped / duplicated / reordered statement must not
            # lose the anchor (that would be 'undecided') but make the spliced assertion fail.
            stmts = split_statements(fp.body)
            ins = []
            for nth, ghost, filt in opts['ghoststmt']:
                if filt:
                    # ordinal among the top-level statements matching /filt/ only (e.g. the push
                    # statements of build()): moving an unrelated `let` does not shift the anchors
                    _mb = mask_source(fp.body)
                    sel = [st for st in stmts if re.search(filt, _mb[st[0]:st[1]])]
                    if nth < len(sel):
                        ins.append((sel[nth][1], ghost))
                    else:
                        ins.append((stmts[-1][0] if stmts else 1, ghost + '\n        '))
                    continue
                if nth < len(stmts) - 1:
                    pos = stmts[nth][1]
                else:   # fewer statements than expected: place before the trailing expression / at the end
                    pos = stmts[-1][0] if stmts else 1
                    ghost = ghost + '\n        '
                ins.append((pos, ghost))
            for pos, ghost in sorted(ins, key=lambda x: -x[0]):
                body = body[:pos] + '\n        ' + ghost + body[pos:]
            rep.setdefault('ghost_splices', []).append(f'{len(ins)} statement-ordinal ghost blocks')
        # splice loop invariants (from the last loop backwards so indices stay valid)
        if opts['loops']:
            loops = find_loops(body)
            for n in sorted(opts['loops'], reverse=True):
                if n >= len(loops):
                    raise AssembleError(f'{rep["item"]}: loop #{n} not found (has {len(loops)} loops) — anchor lost')
                _, _, bo = loops[n]
                body = body[:bo] + '\n' + '\n'.join(opts['loops'][n]) + '\n' + body[bo:]
        if opts.get('closures'):
            body = annotate_closures(body, opts['closures'], rep)
        body = apply_rules(body, [r for r in opts['rules'] if r != 'R7'], rep)
        if 'R7' in opts['rules']:
            # R7: Verus has no `mut self` parameters.  `fn f(mut self, ..) { BODY }` is
            # rewritten to `fn f(self, ..) { let mut this = self; BODY[self := this] }`
            # (a by-value parameter rebound to a mutable local: same semantics).
            sig, n1 = re.subn(r'\(\s*mut\s+self\b', '(self', sig)
            if n1 != 1:
                raise AssembleError(f'{rep["item"]}: rule R7 expects exactly one `mut self` parameter')
            body, n2 = re.subn(r'\bself\b', 'this', body)
            body = '{\n        let mut this = self;' + body[1:]
            rep.setdefault('rules', {})['R7: mut self -> self + `let mut this = self` (self := this in body)'] = n2
        for rw in opts['rewrites']:
            body = do_rewrite(body, rw, f'body of {rep["item"]}', rep)
        for rx, ghost in opts.get('ghostafter', []):
            # ghost-only text (proof blocks / assertions) spliced after a uniquely matching piece of the body
            ms = list(re.finditer(rx, body))
            if len(ms) != 1:
                raise AssembleError(f'{rep["item"]}: ghostafter /{rx}/ matched {len(ms)} times, expected 1 (anchor lost)')
            body = body[:ms[0].end()] + '\n        ' + ghost + body[ms[0].end():]
            rep.setdefault('ghost_splices', []).append(rx)
        if opts['prologue'] and body:
            body = '{\n' + '\n'.join(opts['prologue']) + body[1:]
        spec = '\n'.join(opts['spec'])
        if fp.body == '' or opts['dropbody']:
            return kept + sig + ('\n' + spec if spec else '') + ';\n' if fp.body == '' else kept + sig + ('\n' + spec if spec else '') + '\n' + body
        return kept + sig + ('\n' + spec + '\n' if spec else ' ') + body + '\n'

    def render_struct(self, sf, it, opts, rep):
        src = sf.src
        kept, dropped, _ = strip_leading(src[it.start:it.sig_start], opts['keepattrs'])
        rep['dropped'] += dropped
        if it.body_open < 0:
            head = src[it.sig_start:it.end]
            head = re.sub(r'^pub(\s*\([^)]*\))?\s+', '', head)
            # tuple struct: make fields pub
            head = re.sub(r'\(\s*(?!pub)', '(pub ', head, count=1)
            text = kept + 'pub ' + head
        else:
            head = src[it.sig_start:it.body_open]
            head = re.sub(r'^pub(\s*\([^)]*\))?\s+', '', head)
            body = pubify_struct_body(src[it.body_open:it.end], rep)
            text = kept + 'pub ' + head + body
        for rw in opts['rewrites']:
            text = do_rewrite(text, rw, rep['item'], rep)
        return text + '\n'

    def render_other(self, sf, it, opts, rep):
        src = sf.src
        kept, dropped, _ = strip_leading(src[it.start:it.sig_start], opts['keepattrs'])
        rep['dropped'] += dropped
        text = src[it.sig_start:it.end]
        if it.kind == 'const':
            # `const NAME: T = EXPR;`  -- optional mechanical split of a trait
            # const into a free const (rename) plus an alias (valueof), because
            # Verus only supports simple expressions in trait consts.
            m = re.match(r'((?:pub(?:\s*\([^)]*\))?\s+)?const\s+)(\w+)(\s*:\s*[^=]+?=\s*)(.*);\s*$', text, flags=re.S)
            if not m and re.match(r'const\s+\w+\s*:\s*[^=;]+;\s*$', text, flags=re.S):
                # declaration of a trait const without a default value: verbatim
                return kept + text + '\n'
            if not m:
                raise AssembleError(f'{rep["item"]}: cannot parse const item')
            name, expr = m.group(2), m.group(4)
            if opts.get('rename'):
                name = opts['rename']
            if opts.get('valueof'):
                expr = opts['valueof']
            text = m.group(1) + name + m.group(3) + expr + ';'
            if opts.get('execconst'):
                # Verus: `exec const N: T ensures P { E }` (value computed in exec mode, P proved)
                ty = re.match(r'\s*:\s*([^=]+?)=\s*$', m.group(3), flags=re.S).group(1).strip()
                vis = 'pub ' if not opts['novis'] else ''
                text = f"{vis}exec const {name}: {ty}\n    ensures {opts['execconst'].replace('@NAME', name)}\n{{ {expr} }}"
                opts = dict(opts, novis=True)
        if it.kind in ('enum', 'const', 'static', 'type', 'trait') and not opts['novis']:
            text = re.sub(r'^pub(\s*\([^)]*\))?\s+', '', text)
            text = 'pub ' + text
        # strip doc comments and attributes inside (enum variants, trait items)
        if it.kind in ('enum', 'trait', 'impl'):
            n0 = len(text)
            text2 = re.sub(r'^[ \t]*///[^\n]*\n', '', text, flags=re.M)
            text2 = re.sub(r'^[ \t]*#\[(?:must_use|inline|doc|allow|deprecated|cfg_attr)[^\]]*\]\s*\n', '', text2, flags=re.M)
            if len(text2) != n0:
                rep['dropped'].append(f'{n0 - len(text2)} chars of inner doc comments/attributes')
            text = text2
        if opts['inject']:
            bo = text.index('{')
            text = text[:bo + 1] + '\n' + '\n'.join(opts['inject']) + text[bo + 1:]
        text = apply_rules(text, opts['rules'], rep)
        text = kept + text
        for rw in opts['rewrites']:
            text = do_rewrite(text, rw, rep['item'], rep)
        return text + '\n'

    # ------------------------------------------------------------------
    def write(self, out_rs):
        os.makedirs(os.path.dirname(out_rs), exist_ok=True)
        with open(out_rs, 'w') as f:
            f.write('\n'.join(l for l, _ in self.out) + '\n')
        with open(out_rs + '.map.json', 'w') as f:
            json.dump([o for _, o in self.out], f)
        with open(out_rs + '.report.json', 'w') as f:
            json.dump(self.report, f, indent=1)


def assemble(unit, out_rs, repo=REPO):
    a = Assembler(repo)
    a.process_template(os.path.join(TPL_DIR, unit + '.rs'))
    a.write(out_rs)
    return a


if __name__ == '__main__':
    unit, out = sys.argv[1], sys.argv[2]
    try:
        a = assemble(unit, out)
    except AssembleError as e:
        print('UNDECIDED', e)
        sys.exit(2)
    print(f'assembled {out}: {len(a.out)} lines, {len(a.report["items"])} extracted items')
