#!/usr/bin/env python3
"""Engine V: assemble a unit from /repo's working tree, run Verus on it, and
return per-function results plus diagnostics mapped back to their origin."""
import json
import os
import re
import subprocess
import sys
import time

sys.path.insert(0, os.path.dirname(os.path.abspath(__file__)))
import vassemble  # noqa: E402

VERIF = os.path.dirname(os.path.dirname(os.path.abspath(__file__)))
# assembled units of a scratch tree (VERIF_REPO) go to their own directory, so that
# concurrent runs against different trees never read each other's files
_repo = os.environ.get('VERIF_REPO', '/repo')
BUILD = os.environ.get('VERIF_VBUILD') or os.path.join(VERIF, 'build', 'v' if _repo == '/repo' else 'v-' + re.sub(r'\W+', '_', _repo).strip('_'))

import enumscan  # noqa: E402
GENERATED = {'u_c08_o2': enumscan.generate}

DIAG_RE = re.compile(r'^(error|warning|note)(\[[A-Z0-9]+\])?: (.*)$')
LOC_RE = re.compile(r'^\s*--> (\S+?):(\d+):(\d+)')


def scan_assumptions(path):
    """Mechanical scan of the assembled file for unchecked assumptions."""
    txt = open(path).read()
    res = {}
    for kw in ('assume(', 'admit(', 'external_body', 'assume_specification', 'external_type_specification', 'uninterp spec fn', 'cfg(feature', 'debug_assert', 'cfg(debug_assertions'):
        res[kw] = len(re.findall(re.escape(kw), txt))
    return res


_pruned = False


def _prune_old(max_age_s=3 * 3600):
    """remove assembled files of earlier processes (per-process names would otherwise pile up)"""
    global _pruned
    if _pruned:
        return
    _pruned = True
    now = time.time()
    try:
        for f in os.listdir(BUILD):
            fp = os.path.join(BUILD, f)
            if re.search(r'_p\d+\.rs', f) and os.path.isfile(fp) and now - os.path.getmtime(fp) > max_age_s:
                os.remove(fp)
    except OSError:
        pass


def run_unit(unit, repo=None, tag=''):
    """Returns dict:
      status: 'ok' | 'failed' | 'undecided'
      functions: {name: {'success': bool, 'time_ms':..., 'rlimit':...}}
      errors: [ {fn, kind, msg, line, origin, clause} ]
      reason: for undecided
    """
    # one file per process: concurrent checks of different properties share units and must not
    # overwrite each other's assembled text (VERIF_VTAG='' gives the plain name, for debugging)
    if not tag:
        tag = os.environ.get('VERIF_VTAG', f'_p{os.getpid()}')
    os.makedirs(BUILD, exist_ok=True)
    _prune_old()
    out_rs = os.path.join(BUILD, f'{unit}{tag}.rs')
    res = {'unit': unit, 'file': out_rs, 'functions': {}, 'errors': [], 'status': 'ok'}
    t0 = time.time()
    if unit in GENERATED:
        # unit generated mechanically from /repo by a tool (no hand-written template)
        try:
            report = GENERATED[unit](repo or vassemble.REPO, out_rs)
        except Exception as e:
            res['status'] = 'undecided'
            res['reason'] = f'generation: {e}'
            return res
        res['extraction'] = report
        lines = open(out_rs).read().split('\n')
        linemap = [('gen', unit, i + 1) for i in range(len(lines))]
        return run_verus(res, out_rs, lines, linemap, t0)
    try:
        a = vassemble.assemble(unit, out_rs, repo or vassemble.REPO)
    except (vassemble.AssembleError, vassemble.ScanError) as e:
        res['status'] = 'undecided'
        res['reason'] = f'extraction: {e}'
        return res
    res['extraction'] = a.report
    linemap = [o for _, o in a.out]
    lines = [l for l, _ in a.out]
    # C08 / O3: feature- or profile-dependent text in the lines that come from /repo (the
    # prelude's own shadow macros for debug_assert* are template lines and do not count)
    repo_txt = '\n'.join(l for l, o in a.out if isinstance(o, tuple) and o and o[0] == 'repo')
    res['repo_text_scan'] = {kw: len(re.findall(re.escape(kw), repo_txt)) for kw in ('cfg(feature', 'debug_assert', 'cfg(debug_assertions', 'cfg!(')}
    return run_verus(res, out_rs, lines, linemap, t0)


def run_verus(res, out_rs, lines, linemap, t0, rlimit=None):
    cmd = ['verus', out_rs, '--multiple-errors', '20', '--time-expanded', '--output-json'] + (['--rlimit', str(rlimit)] if rlimit else [])
    p = subprocess.run(cmd, capture_output=True, text=True)
    if rlimit is None and 'esource limit' in p.stderr:
        # A solver resource-limit hit is not a verdict.  Z3's search is sensitive to incidental
        # naming (the per-process file name is the crate name), so the same text occasionally needs
        # more than the default budget: re-run ONCE with a larger budget.  A larger budget can only
        # turn 'unknown' into 'proved' or into a genuine counter-proof, never hide a failure.
        base_errs = [l for l in p.stderr.split('\n') if l.startswith('error') and not l.startswith('error: aborting')]
        if base_errs and all('esource limit' in l for l in base_errs):
            res2 = run_verus(dict(res, functions={}, errors=[]), out_rs, lines, linemap, t0, rlimit=100)
            res2['rlimit_retry'] = True
            res.update(res2)
            return res
    res['cmd'] = ' '.join(cmd)
    res['wall_s'] = round(time.time() - t0, 2)
    try:
        j = json.loads(p.stdout)
    except Exception:
        res['status'] = 'undecided'
        res['reason'] = 'verus produced no JSON: ' + (p.stderr[-1500:] or p.stdout[-500:])
        return res
    vr = j.get('verification-results', {})
    res['verified'] = vr.get('verified', 0)
    res['n_errors'] = vr.get('errors', 0)
    res['verus'] = j.get('verus', {}).get('version')
    try:
        res['smt_ms'] = j['times-ms']['smt']['total']
    except Exception:
        res['smt_ms'] = None
    if vr.get('encountered-vir-error') or ('times-ms' not in j) or not j['times-ms'].get('smt', {}).get('smt-run-module-times'):
        # compile / unsupported-construct error: nothing was verified
        errs = [l for l in p.stderr.split('\n') if l.startswith('error')]
        res['status'] = 'undecided'
        res['reason'] = 'verus rejected the unit (unsupported construct or type error after an edit?): ' + '; '.join(errs[:4])
        res['stderr_tail'] = p.stderr[-3000:]
        return res
    for mod in j['times-ms']['smt']['smt-run-module-times']:
        for f in mod.get('function-breakdown', []):
            name = f['function'].split('::', 1)[1] if '::' in f['function'] else f['function']
            res['functions'][name] = {'success': f['success'], 'time_ms': f['time'], 'rlimit': f['rlimit'], 'mode': f.get('mode:')}
    # diagnostics -> errors with origin
    fn_at = fn_spans(lines)
    cur = None
    for l in p.stderr.split('\n'):
        m = DIAG_RE.match(l)
        if m:
            cur = {'level': m.group(1), 'msg': m.group(3), 'locs': []}
            if m.group(1) == 'error' and not m.group(3).startswith('aborting'):
                res['errors'].append(cur)
            continue
        m = LOC_RE.match(l)
        if m and cur is not None and os.path.abspath(m.group(1)) == os.path.abspath(out_rs):
            cur['locs'].append(int(m.group(2)))
    for e in res['errors']:
        e['fn'] = None
        e['clause'] = ''
        e['origin'] = None
        if e['locs']:
            first = e['locs'][0]
            e['clause'] = lines[first - 1].strip()[:160] if first - 1 < len(lines) else ''
            e['origin'] = linemap[first - 1] if first - 1 < len(linemap) else None
            for ln in reversed(e['locs']):
                if fn_at.get(ln):
                    e['fn'] = fn_at[ln]
                    break
        e['rlimit'] = 'rlimit' in e['msg'].lower() or 'resource limit' in e['msg'].lower()
    if any(not f['success'] for f in res['functions'].values()) or res['n_errors']:
        res['status'] = 'failed'
    return res


def dep_closure(path, roots):
    """Short names of the functions that the functions named in `roots` (short names) call,
    transitively, in the assembled file -- a syntactic over-approximation (by method name) of
    "every function between the property and the code that implements it"."""
    lines = open(path).read().split('\n')
    spans = fn_spans(lines)
    bodies = {}
    for ln, name in spans.items():
        bodies.setdefault(name, []).append(lines[ln - 1])
    text = {n: '\n'.join(b) for n, b in bodies.items()}
    names = set(text)
    calls = {}
    for n, t in text.items():
        t = re.sub(r'//[^\n]*', '', t)
        found = set(m.group(1) for m in re.finditer(r'\b([A-Za-z_]\w*)\s*(?:::\s*<[^<>()]*(?:<[^<>()]*>)?[^<>()]*>\s*)?\(', t))
        calls[n] = (found & names) - {n}
    seen = set(r for r in roots if r in names)
    todo = list(seen)
    while todo:
        n = todo.pop()
        for c in calls.get(n, ()):
            if c not in seen:
                seen.add(c)
                todo.append(c)
    return seen


def fn_spans(lines):
    """line number -> 'fn name' (innermost fn item), by a light scan of the
    assembled text (only used to attribute diagnostics)."""
    txt = '\n'.join(lines)
    sys.path.insert(0, os.path.dirname(os.path.abspath(__file__)))
    from rsitems import mask_source, match_close
    mask = mask_source(txt)
    res = {}
    for m in re.finditer(r'\bfn\s+([A-Za-z_]\w*)', mask):
        # find body
        k = m.end()
        depth = 0
        body = -1
        while k < len(mask):
            ch = mask[k]
            if ch in '([':
                k = match_close(mask, k) + 1
                continue
            if ch == '{':
                # could be the `({ let ... })` of an ensures: those are inside parens, skipped above
                body = k
                break
            if ch == ';':
                break
            k += 1
        if body < 0:
            continue
        end = match_close(mask, body)
        l0 = txt.count('\n', 0, m.start()) + 1
        l1 = txt.count('\n', 0, end) + 1
        for ln in range(l0, l1 + 1):
            res[ln] = m.group(1)   # later (inner) fns overwrite outer
    return res


if __name__ == '__main__':
    os.environ.setdefault('VERIF_VTAG', '')
    r = run_unit(sys.argv[1], tag=os.environ['VERIF_VTAG'])
    r.pop('extraction', None)
    if len(sys.argv) > 2 and sys.argv[2] == '--names':
        print(r['status'], r.get('wall_s'), r.get('reason', ''))
        for k in sorted(r['functions']):
            print(('ok   ' if r['functions'][k]['success'] else 'FAIL ') + k)
        for e in r['errors']:
            print('ERR', e.get('fn'), '|', e['msg'], '|', e['clause'][:100])
    else:
        print(json.dumps(r, indent=1)[:6000])
