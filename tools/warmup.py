#!/usr/bin/env python3
"""Warm the Kani target directory (dependency build) for the three crates."""
import os, sys
sys.path.insert(0, os.path.dirname(os.path.abspath(__file__)))
sys.path.insert(0, os.path.join(os.path.dirname(os.path.dirname(os.path.abspath(__file__))), 'contracts'))
import kmirror, registry
with kmirror.MirrorLock():
    # build the dependencies once per crate by running one trivial harness each
    first = {}
    for h, spec in registry.HARNESSES.items():
        key = (spec['crate'], tuple(spec['features']) if spec.get('features') is not None else None)
        first.setdefault(key, (h, spec))
    for key, (h, spec) in first.items():
        # harness modules are injected only into the crate under verification (as a
        # dependency a crate may be built with other cargo features)
        kmirror.build_mirror(only_crate=key[0])
        r = kmirror.run_group(key[0], list(key[1]) if key[1] is not None else None, [kmirror.harness_path(spec['file'], h)], nproc=2, timeout=1800)
        v = list(r.values())[0]['verdict']
        print('warm-up', key, h, v)
        if v == 'ERROR':
            print(list(r.values())[0].get('output_tail', '')[-2000:])
            sys.exit(1)
