#!/usr/bin/env python3
"""Warm the Kani target directory (dependency build) for the three crates."""
import os, sys
sys.path.insert(0, os.path.dirname(os.path.abspath(__file__)))
sys.path.insert(0, os.path.join(os.path.dirname(os.path.dirname(os.path.abspath(__file__))), 'contracts'))
import kmirror, registry
with kmirror.MirrorLock():
    kmirror.build_mirror()
    seen = set()
    for h, spec in registry.HARNESSES.items():
        key = (spec['crate'], tuple(spec['features']) if spec.get('features') is not None else None)
        if key in seen:
            continue
        seen.add(key)
        ok, out = kmirror.codegen(key[0], list(key[1]) if key[1] is not None else None)
        print('codegen', key, 'ok' if ok else 'FAILED')
        if not ok:
            print(out[-2000:])
            sys.exit(1)
